#!/usr/bin/env python3
"""Evaluate one behaviour-preserving refactoring produced by a sub-agent.
usage: refactor_eval.py <dir with refactor_N.diff, refactor_N.json> <N> [--keep <name>]
1. scratch worktree of /repo HEAD: patch applies, builds, go vet-free suite passes twice (and once with -race).
2. patch applied to /repo, every check run (no self-test), findings recorded, /repo restored.
With --keep copies patch + meta to /verif/refactors/<name>/ (kept whether or not checks fire: a firing check on a
confirmed behaviour-preserving change is a false alarm to be fixed in the machinery)."""
import json, os, shutil, subprocess, sys, tempfile
ENV = dict(os.environ, GOFLAGS="-mod=mod", GOPROXY="off"); ENV.pop("GOWORK", None)
def run(cmd, cwd, timeout=900):
    try:
        p = subprocess.run(cmd, cwd=cwd, env=ENV, stdout=subprocess.PIPE, stderr=subprocess.STDOUT, text=True, timeout=timeout)
        return p.returncode, p.stdout
    except subprocess.TimeoutExpired:
        return 124, "TIMEOUT"
src, n = sys.argv[1], sys.argv[2]
keep = sys.argv[sys.argv.index("--keep") + 1] if "--keep" in sys.argv else None
patch = os.path.join(src, f"refactor_{n}.diff")
meta_path = os.path.join(src, f"refactor_{n}.json")
meta = json.load(open(meta_path)) if os.path.exists(meta_path) else {}
out = {"source": src, "n": n}
wt = tempfile.mkdtemp(prefix="refeval-", dir="/tmp"); os.rmdir(wt)
try:
    rc, o = run(["git", "-C", "/repo", "worktree", "add", "--detach", wt, "HEAD"], "/")
    assert rc == 0, o
    rc, o = run(["git", "apply", "--whitespace=nowarn", patch], wt)
    out["applies"] = rc == 0
    if rc == 0:
        out["builds"] = run(["go", "build", "./..."], wt)[0] == 0
        ok = 0
        for i in range(2):
            rc, o = run(["go", "test", "-vet=off", "-count=1", "-timeout", "300s", "./..."], wt)
            ok += rc == 0
            if rc != 0:
                out["suite_fail"] = " ".join(l.strip() for l in o.splitlines() if "--- FAIL" in l)[:300]
        out["suite"] = f"{ok}/2"
        rc, o = run(["go", "test", "-race", "-vet=off", "-count=1", "-timeout", "600s", "./..."], wt, 1200)
        out["suite_race"] = "pass" if rc == 0 else "FAIL: " + " ".join(l.strip() for l in o.splitlines() if "--- FAIL" in l or "DATA RACE" in l)[:300]
finally:
    run(["git", "-C", "/repo", "worktree", "remove", "--force", wt], "/")
    shutil.rmtree(wt, ignore_errors=True)
    run(["git", "-C", "/repo", "worktree", "prune"], "/")
rc, o = run(["git", "-C", "/repo", "status", "--porcelain"], "/")
assert o.strip() == "", "/repo is not clean: " + o
fired = {}
try:
    rc, o = run(["git", "-C", "/repo", "apply", "--whitespace=nowarn", patch], "/")
    if rc == 0:
        rc, o = run(["/verif/bin/check", "-p", "all", "-json", "-no-selftest"], "/verif", 600)
        line = o.strip().splitlines()[-1] if o.strip() else "[]"
        try:
            for f in json.loads(line) or []:
                fired.setdefault(f["property"], []).append(f"{f['rule']} {f['function']}: {f['construct']}" + (" (undecided)" if f["kind"] != "violation" else ""))
        except Exception:
            fired["_error"] = [o[-400:]]
finally:
    run(["git", "-C", "/repo", "checkout", "--", "."], "/")
    run(["git", "-C", "/repo", "clean", "-fd"], "/")
out["checks_fired"] = fired
out["compiles_and_passes"] = bool(out.get("applies") and out.get("builds") and out.get("suite") == "2/2" and out.get("suite_race") == "pass")
print(json.dumps(out, indent=1))
if keep and out["compiles_and_passes"]:
    d = os.path.join("/verif/refactors", keep)
    os.makedirs(d, exist_ok=True)
    shutil.copy(patch, os.path.join(d, "patch.diff"))
    m = dict(meta); m.update({"validation": {k: out.get(k) for k in ("suite", "suite_race")}, "checks_fired_at_first_evaluation": fired})
    json.dump(m, open(os.path.join(d, "meta.json"), "w"), indent=1)
