#!/bin/sh
SEEDROOT=${SEEDROOT:-/tmp/seed4/out}
for id in "$@"; do
  for n in 1 2 3 4; do
    d=$SEEDROOT/$id
    [ -f $d/refactor_$n.diff ] || continue
    python3 /verif/tools/refactor_eval.py $d $n --keep $id-f$n > $d/reval_$n.json 2>&1
    python3 - "$id" "$n" "$d" <<'PY'
import json,sys
id,n,d=sys.argv[1],sys.argv[2],sys.argv[3]
t=open(f'{d}/reval_{n}.json').read()
try:
    o=json.loads(t[t.index('{'):])
except Exception as e:
    print(id,n,'EVAL-ERROR',t[-300:]); sys.exit()
fired={k:[x[:90] for x in v[:2]] for k,v in o['checks_fired'].items()}
print(f"{id}-f{n} {'ok' if o['compiles_and_passes'] else 'NOT-OK'} suite:{o.get('suite')} race:{str(o.get('suite_race'))[:40]} fired:{fired if fired else '-'}")
PY
  done
done
