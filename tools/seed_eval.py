#!/usr/bin/env python3
"""Evaluate one seeded change produced by a sub-agent.

usage: seed_eval.py <dir with patch_N.diff, demo_N_test.go, meta_N.json> <N> [--keep <dest dir under /verif/seeded>]

1. In a scratch worktree of /repo (outside /repo and /verif, removed afterwards): the demonstration passes without the
   patch, the patch applies, the library builds, the existing suite passes with it, the demonstration fails with it.
2. The patch is applied to /repo itself, every check is run (static analysis only, no self-test), the findings are
   recorded, and /repo is restored with `git checkout -- .`.
Prints a JSON summary; with --keep copies patch, demo and a meta.json (including what was run and which checks fired)
to /verif/seeded/<name>/.
"""
import json, os, re, shutil, subprocess, sys, tempfile

ENV = dict(os.environ, GOFLAGS="-mod=mod", GOPROXY="off")
ENV.pop("GOWORK", None)
PKGDIR = {"varmq": ".", "helpers": "internal/helpers", "queues": "internal/queues", "linkedlist": "internal/linkedlist",
          "linkedbuffer": "internal/linkedbuffer", "pool": "internal/pool", "utils": "utils", "mocks": "mocks"}


def run(cmd, cwd, timeout=600):
    try:
        p = subprocess.run(cmd, cwd=cwd, env=ENV, stdout=subprocess.PIPE, stderr=subprocess.STDOUT, text=True, timeout=timeout)
        return p.returncode, p.stdout
    except subprocess.TimeoutExpired as e:
        return 124, (e.stdout or "") + "\nTIMEOUT"


def main():
    src, n = sys.argv[1], sys.argv[2]
    keep = None
    if "--keep" in sys.argv:
        keep = sys.argv[sys.argv.index("--keep") + 1]
    patch = os.path.join(src, f"patch_{n}.diff")
    demo = os.path.join(src, f"demo_{n}_test.go")
    meta_path = os.path.join(src, f"meta_{n}.json")
    if n == "-":
        # a kept change in /verif/seeded/<id>/ (re-validation, e.g. after its patch was rebased)
        patch, demo, meta_path = os.path.join(src, "patch.diff"), os.path.join(src, "demo_test.go"), os.path.join(src, "meta.json")
        n = "0"
        if os.path.exists(os.path.join(src, "delay.patch")) and "--delay" not in sys.argv:
            sys.argv += ["--delay", os.path.join(src, "delay.patch")]
        if os.path.exists(os.path.join(src, "delay_baseline.patch")) and "--delay-base" not in sys.argv:
            sys.argv += ["--delay-base", os.path.join(src, "delay_baseline.patch")]
    meta = json.load(open(meta_path)) if os.path.exists(meta_path) else {}
    out = {"source": src, "n": n, "property": meta.get("property")}
    demo_src = open(demo).read()
    pkg = re.search(r"^package (\w+)", demo_src, re.M).group(1)
    pkg = pkg[:-5] if pkg.endswith("_test") else pkg
    sub = PKGDIR.get(pkg, ".")
    tests = re.findall(r"^func (Test\w+)\(", demo_src, re.M)
    runre = "^(" + "|".join(tests) + ")$"
    def opt(name):
        return sys.argv[sys.argv.index(name) + 1] if name in sys.argv else None
    delay, delay_base = opt("--delay"), opt("--delay-base")
    race = ["-race"] if ("--race" in sys.argv or "-race" in demo_src.split("package ")[0]) else []
    wt = tempfile.mkdtemp(prefix="seedeval-", dir="/tmp")
    os.rmdir(wt)
    try:
        rc, o = run(["git", "-C", "/repo", "worktree", "add", "--detach", wt, "HEAD"], "/")
        assert rc == 0, o
        dst = os.path.join(wt, sub, f"zz_seed_demo_{n}_test.go")
        shutil.copy(demo, dst)
        if delay_base:
            rc, o = run(["git", "apply", "--whitespace=nowarn", delay_base], wt)
            out["delay_base_applies"] = rc == 0
        rc, o = run(["go", "test"] + race + ["-vet=off", "-count=1", "-timeout", "240s", "-run", runre, "./" + sub], wt, 600)
        out["demo_without_patch"] = "pass" if rc == 0 else "FAIL"
        out["demo_without_tail"] = o[-400:]
        if delay_base:
            run(["git", "apply", "-R", "--whitespace=nowarn", delay_base], wt)
        rc, o = run(["git", "apply", "--whitespace=nowarn", patch], wt)
        out["patch_applies"] = rc == 0
        if rc != 0:
            out["apply_error"] = o[-300:]
        else:
            rc, o = run(["go", "build", "./..."], wt)
            out["builds"] = rc == 0
            os.remove(dst)
            ok = 0
            for i in range(2):
                rc, o = run(["go", "test", "-vet=off", "-count=1", "./..."], wt, 900)
                ok += rc == 0
                if rc != 0:
                    out["suite_fail_tail"] = "\n".join([l for l in o.splitlines() if "--- FAIL" in l or "panic" in l][:10]) + "\n" + o[-300:]
            out["suite_passes_with_patch"] = f"{ok}/2"
            shutil.copy(demo, dst)
            if delay:
                rc, o = run(["git", "apply", "--whitespace=nowarn", delay], wt)
                out["delay_applies"] = rc == 0
            rc, o = run(["go", "test"] + race + ["-vet=off", "-count=1", "-timeout", "240s", "-run", runre, "./" + sub], wt, 600)
            out["demo_with_patch"] = "pass" if rc == 0 else "FAIL"
            out["demo_with_tail"] = o[-600:]
    finally:
        run(["git", "-C", "/repo", "worktree", "remove", "--force", wt], "/")
        shutil.rmtree(wt, ignore_errors=True)
        run(["git", "-C", "/repo", "worktree", "prune"], "/")
    # now the checks, on /repo itself
    rc, o = run(["git", "-C", "/repo", "status", "--porcelain"], "/")
    assert o.strip() == "", "/repo is not clean: " + o
    fired = {}
    try:
        rc, o = run(["git", "-C", "/repo", "apply", "--whitespace=nowarn", patch], "/")
        if rc == 0:
            rc, o = run(["/verif/bin/check", "-p", "all", "-json", "-no-selftest"], "/verif", 600)
            line = o.strip().splitlines()[-1] if o.strip() else "[]"
            try:
                for f in json.loads(line) or []:
                    fired.setdefault(f["property"], []).append(f"{f['rule']} {f['function']}: {f['construct']}" + (" (undecided)" if f["kind"] != "violation" else ""))
            except Exception:
                fired["_error"] = [o[-400:]]
    finally:
        run(["git", "-C", "/repo", "checkout", "--", "."], "/")
        run(["git", "-C", "/repo", "clean", "-fd"], "/")
    out["checks_fired"] = fired
    out["caught_by_own_property"] = bool(fired.get(meta.get("property")))
    out["caught_by_any"] = bool([k for k in fired if not k.startswith("_")])
    out["valid"] = bool(out.get("patch_applies") and out.get("builds") and out.get("suite_passes_with_patch") == "2/2" and out.get("demo_without_patch") == "pass" and out.get("demo_with_patch") == "FAIL")
    print(json.dumps(out, indent=1))
    if keep and out["valid"]:
        d = os.path.join("/verif/seeded", keep)
        os.makedirs(d, exist_ok=True)
        shutil.copy(patch, os.path.join(d, "patch.diff"))
        shutil.copy(demo, os.path.join(d, "demo_test.go"))
        if delay:
            shutil.copy(delay, os.path.join(d, "delay.patch"))
        if delay_base:
            shutil.copy(delay_base, os.path.join(d, "delay_baseline.patch"))
        m = dict(meta)
        m.update({"breaks_property": meta.get("property"), "needs_to_manifest": meta.get("needs_to_manifest"),
                  "what_i_ran": ["scratch worktree of /repo HEAD: demo passes without the patch; git apply; go build ./...; go test -vet=off -count=1 ./... (2x); demo fails with the patch",
                                 "git -C /repo apply patch.diff; bin/check -p all -json -no-selftest; git -C /repo checkout -- ."],
                  "needs_race_detector": bool(race), "needs_delay_patch": bool(delay),
                  "validation": {k: out[k] for k in ("demo_without_patch", "suite_passes_with_patch", "demo_with_patch")},
                  "checks_fired": fired, "caught_by_own_property": out["caught_by_own_property"], "caught_by_any": out["caught_by_any"]})
        json.dump(m, open(os.path.join(d, "meta.json"), "w"), indent=1)


if __name__ == "__main__":
    main()
