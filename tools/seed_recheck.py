#!/usr/bin/env python3
"""Re-run every check against each kept seeded change (/verif/seeded/*/patch.diff): apply to /repo, run the
static checks (no self-test), restore /repo, update meta.json, print a table."""
import json, os, subprocess, sys, glob
ENV = dict(os.environ, GOFLAGS="-mod=mod", GOPROXY="off"); ENV.pop("GOWORK", None)
def run(cmd, cwd="/"):
    p = subprocess.run(cmd, cwd=cwd, env=ENV, stdout=subprocess.PIPE, stderr=subprocess.STDOUT, text=True)
    return p.returncode, p.stdout
names = sys.argv[1:] or sorted(os.path.basename(d) for d in glob.glob("/verif/seeded/C*") if os.path.isdir(d))
rc, o = run(["git", "-C", "/repo", "status", "--porcelain"])
assert o.strip() == "", "/repo not clean: " + o
tot = own = anyc = 0
for name in names:
    d = "/verif/seeded/" + name
    meta = json.load(open(d + "/meta.json"))
    fired = {}
    try:
        rc, o = run(["git", "-C", "/repo", "apply", "--whitespace=nowarn", d + "/patch.diff"])
        assert rc == 0, o
        rc, o = run(["timeout", "400", "/verif/bin/check", "-p", "all", "-json", "-no-selftest"], "/verif")
        assert rc in (0, 1), f"check did not finish (exit {rc}) on {name}: {o.strip()[-200:]}"
        line = o.strip().splitlines()[-1] if o.strip() else "[]"
        for f in json.loads(line) or []:
            fired.setdefault(f["property"], []).append(f"{f['rule']} {f['function']}: {f['construct']}" + (" (undecided)" if f["kind"] != "violation" else ""))
    finally:
        run(["git", "-C", "/repo", "checkout", "--", "."]); run(["git", "-C", "/repo", "clean", "-fd"])
    p = meta.get("breaks_property") or meta.get("property")
    meta["checks_fired"] = fired
    meta["caught_by_own_property"] = bool(fired.get(p))
    meta["caught_by_any"] = bool(fired)
    json.dump(meta, open(d + "/meta.json", "w"), indent=1)
    tot += 1; own += meta["caught_by_own_property"]; anyc += meta["caught_by_any"]
    print(f"{name:8s} own:{'YES' if fired.get(p) else 'no '} {(fired.get(p) or [''])[0][:110]}  others:{sorted(k for k in fired if k != p)}")
print(f"{tot} seeded changes: {own} caught by their own property's check, {anyc} by some check")
