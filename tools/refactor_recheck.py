#!/usr/bin/env python3
"""Re-run every check against each kept behaviour-preserving refactoring (/verif/refactors/*/patch.diff): apply to
/repo, run the static checks (no self-test), restore /repo; any finding is a false alarm. Prints a table."""
import json, os, subprocess, sys, glob
ENV = dict(os.environ, GOFLAGS="-mod=mod", GOPROXY="off"); ENV.pop("GOWORK", None)
def run(cmd, cwd="/"):
    p = subprocess.run(cmd, cwd=cwd, env=ENV, stdout=subprocess.PIPE, stderr=subprocess.STDOUT, text=True)
    return p.returncode, p.stdout
names = sys.argv[1:] or sorted(os.path.basename(d) for d in glob.glob("/verif/refactors/C*") if os.path.isdir(d))
rc, o = run(["git", "-C", "/repo", "status", "--porcelain"])
assert o.strip() == "", "/repo not clean: " + o
bad = 0
for name in names:
    d = "/verif/refactors/" + name
    fired = {}
    try:
        rc, o = run(["git", "-C", "/repo", "apply", "--whitespace=nowarn", d + "/patch.diff"])
        assert rc == 0, o
        rc, o = run(["timeout", "400", "/verif/bin/check", "-p", "all", "-json", "-no-selftest"], "/verif")
        if rc not in (0, 1):
            fired["-"] = [f"check did not finish (exit {rc}): {o.strip()[-200:]}"]
        line = o.strip().splitlines()[-1] if o.strip() and rc in (0, 1) else "[]"
        for f in json.loads(line) or []:
            fired.setdefault(f["property"], []).append(f"{f['rule']} {f['function']}: {f['construct']}")
    finally:
        run(["git", "-C", "/repo", "checkout", "--", "."]); run(["git", "-C", "/repo", "clean", "-fd"])
    m = json.load(open(d + "/meta.json")); m["checks_fired_now"] = fired; json.dump(m, open(d + "/meta.json", "w"), indent=1)
    if fired:
        bad += 1
        first = {k: v[0][:100] for k, v in list(fired.items())[:4]}
        print(f"{name} FALSE-ALARM {len(fired)} props: {first}")
    else:
        print(f"{name} quiet")
print(f"{len(names)} refactorings: {bad} raise an alarm")
