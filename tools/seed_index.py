#!/usr/bin/env python3
"""Regenerate /verif/seeded/INDEX.md from the meta.json files (first_run is recorded once, at first evaluation)."""
import json, glob, os, re
R2_FIRST_OWN = set("C01-1 C02-3 C03-1 C03-2 C03-3 C04-2 C05-2 C08-2 C10-1 C10-2 C11-2 C12-1 C12-2 C13-1 C13-2 C13-3 C14-1 C14-3 C09-2 C15-1 C15-2 C16-2 C16-3 C17-1 C18-1 C18-2 C19-1 C19-2 C19-3".split())
R2_FIRST_NONE = set("C05-1 C06-3 C07-1 C08-3 C10-3 C12-3 C15-3 C16-1".split())
R3_FIRST_OWN = set("C01-1 C01-2 C01-3 C02-1 C02-2 C02-3 C03-1 C03-2 C03-3 C04-1 C04-3 C05-2 C05-3 C06-1 C06-2 C08-1 C08-2 C08-3 C09-1 C09-2 C11-1 C11-2 C12-1 C12-2 C13-1 C13-2 C13-3 C14-1 C14-3 C15-1 C15-3 C17-1 C17-2 C17-3 C18-2 C19-1".split())
R3_FIRST_NONE = set("C14-2 C18-1 C18-3 C19-2 C19-3".split())
R4_MISSED_OWN = set("C04-2 C06-2 C08-2 C13-2 C18-2".split())  # caught by other properties' checks only
R4_MISSED_ALL = set("C07-1 C10-2 C12-1 C14-1 C18-1".split())
R4_UNRESOLVED = set("C04-1 C11-2 C16-1".split())  # reported only as an unresolved role / an expression the evaluator could not decide
old = {}
if os.path.exists('/verif/seeded/INDEX.md'):
    for l in open('/verif/seeded/INDEX.md'):
        c = [x.strip() for x in l.split('|')]
        if len(c) > 5 and re.match(r'C\d\d-\d$', c[1]):
            old[c[1]] = c[4]
rows = []
for mp in sorted(glob.glob('/verif/seeded/*/meta.json')):
    name = os.path.basename(os.path.dirname(mp))
    m = json.load(open(mp))
    if 'first_run' not in m:
        if '-r3-' in name:
            k = name.replace('-r3-', '-')
            m['first_run'] = 'caught' if k in R3_FIRST_OWN else ('MISSED by every check' if k in R3_FIRST_NONE else 'MISSED by its own property (caught by others)')
        elif '-r4-' in name:
            k = name.replace('-r4-', '-')
            m['first_run'] = ('MISSED by every check' if k in R4_MISSED_ALL else 'MISSED by its own property (caught by others)' if k in R4_MISSED_OWN
                              else 'reported as undecided only (no rule decided it)' if k in R4_UNRESOLVED else 'caught')
        elif '-r2-' in name:
            k = name.replace('-r2-', '-')
            m['first_run'] = 'caught' if k in R2_FIRST_OWN else ('MISSED by every check' if k in R2_FIRST_NONE else 'MISSED by its own property (caught by others)')
        else:
            m['first_run'] = old.get(name, '?')
        json.dump(m, open(mp, 'w'), indent=1)
    p = m.get('breaks_property') or m.get('property')
    own = sorted({x.split()[0] for x in m['checks_fired'].get(p, [])})
    others = sorted(k for k in m['checks_fired'] if k != p)
    extra = []
    if m.get('needs_race_detector'): extra.append('demo needs -race')
    if m.get('needs_delay_patch'): extra.append('demo needs delay.patch')
    summ = (m.get('summary') or '').replace('|', '/').replace('\n', ' ')[:170]
    rows.append(f"| {name} | {p} | {summ}{' ('+', '.join(extra)+')' if extra else ''} | {m['first_run']} | {', '.join(own) or 'NOT CAUGHT'} | {', '.join(others) or '—'} |")
n = len(rows)
caught_first = sum(1 for r in rows if '| caught |' in r)
hdr = f"""# Seeded changes (written independently by sub-agents; none is committed to /repo)

Each directory holds `patch.diff` (apply with `git -C /repo apply`, undo with `git -C /repo checkout -- .`), `demo_test.go` (fails with the patch, passes without; header says where it goes), where needed `delay.patch` / `delay_baseline.patch` (a sleep that forces the schedule, on the changed and on the unchanged code) and `meta.json` (property broken, what it needs to manifest, what was run, which checks fire). Patches are kept rebased on the current /repo HEAD (the `fix:` commits); `<id>-r2-<n>`, `-r3-`, `-r4-` are the later rounds.

`first run` = did the check of the property the change targets report it when the change was first evaluated; `now` = after the checks were strengthened (tools/seed_recheck.py). {n} changes: {caught_first} caught by their own property's check on first evaluation; all {n} now. The thorough tier replays every one of them as an overlay (self-test `seeded/<id>`).

| id | property | summary | first run | now: own property's rules | other properties that fire |
|---|---|---|---|---|---|
"""
open('/verif/seeded/INDEX.md', 'w').write(hdr + "\n".join(rows) + "\n")
print(n, caught_first)
