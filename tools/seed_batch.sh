#!/bin/sh
# evaluate every complete (patch, demo, meta) triple under $SEEDROOT/<ID>/ (default /tmp/seed/out) and keep the valid ones
# in /verif/seeded/<ID>-<TAG><n>/ ; delay_<n>.diff (on top of the patch) and delay_<n>_{baseline,control,on_original}.diff
# (same delay on the unchanged code) are picked up when present
SEEDROOT=${SEEDROOT:-/tmp/seed/out}
TAG=${TAG:-}
for id in "$@"; do
  for n in 1 2 3; do
    d=$SEEDROOT/$id
    [ -f $d/patch_$n.diff ] && [ -f $d/demo_${n}_test.go ] || continue
    [ -f $d/meta_$n.json ] || echo "{\"property\": \"$id\"}" > $d/meta_$n.json
    extra=""
    [ -f $d/delay_$n.diff ] && extra="$extra --delay $d/delay_$n.diff"
    for b in baseline control on_original; do
      [ -f $d/delay_${n}_$b.diff ] && extra="$extra --delay-base $d/delay_${n}_$b.diff"
    done
    python3 /verif/tools/seed_eval.py $d $n --keep $id-$TAG$n $extra $EXTRA > $d/eval_$n.json 2>&1
    python3 - "$id" "$n" "$d" <<'PY'
import json,sys
id,n,d=sys.argv[1],sys.argv[2],sys.argv[3]
try:
    o=json.load(open(f'{d}/eval_{n}.json'))
except Exception as e:
    print(id,n,'EVAL-ERROR',open(f'{d}/eval_{n}.json').read()[-300:]); sys.exit()
own=o['checks_fired'].get(id,[])
others={k:len(v) for k,v in o['checks_fired'].items() if k!=id}
print(f"{id}-{n} {'valid' if o['valid'] else 'INVALID'} demo:{o.get('demo_without_patch')}/{o.get('demo_with_patch')} suite:{o.get('suite_passes_with_patch')} own:{'YES' if own else 'no'} {own[:2]} others:{others}")
PY
  done
done
