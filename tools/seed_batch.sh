#!/bin/sh
# evaluate every complete (patch, demo, meta) triple under /tmp/seed/out/<ID>/ and keep the valid ones in /verif/seeded/
for id in "$@"; do
  for n in 1 2 3; do
    d=/tmp/seed/out/$id
    [ -f $d/patch_$n.diff ] && [ -f $d/demo_${n}_test.go ] && [ -f $d/meta_$n.json ] || continue
    python3 /verif/tools/seed_eval.py $d $n --keep $id-$n > /tmp/seed/out/$id/eval_$n.json 2>&1
    python3 - "$id" "$n" <<'PY'
import json,sys
id,n=sys.argv[1],sys.argv[2]
try:
    o=json.load(open(f'/tmp/seed/out/{id}/eval_{n}.json'))
except Exception as e:
    print(id,n,'EVAL-ERROR',open(f'/tmp/seed/out/{id}/eval_{n}.json').read()[-300:]); sys.exit()
own=o['checks_fired'].get(id,[])
others={k:len(v) for k,v in o['checks_fired'].items() if k!=id}
print(f"{id}-{n} {'valid' if o['valid'] else 'INVALID'} demo:{o.get('demo_without_patch')}/{o.get('demo_with_patch')} suite:{o.get('suite_passes_with_patch')} own:{'YES' if own else 'no'} {own[:2]} others:{others}")
PY
  done
done
