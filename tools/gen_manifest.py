#!/usr/bin/env python3
"""Regenerates /verif/MANIFEST.json from the table below (kept in one place so
that the manifest stays valid while checks are being added)."""
import json, os, sys
here = os.path.dirname(os.path.dirname(os.path.abspath(__file__)))

CLAIMS = {
 # id: (technique, level text, level note, design ref)
 "C02": ("who-may-call + path analysis + finite-domain status propagation (lifecycle table) on the type-checked AST",
         "Static necessary conditions of the concurrency bound: the in-flight counter is raised only in the dispatcher path behind `inflight < limit` of the same iteration, net increments per step path equal hand-offs, it is lowered once per completion after the worker function, every value stored into the limit is provably >= 1, and (from the extracted lifecycle table) a dispatcher goroutine is spawned only from status Initiated, which is stored only after the old signal channel was closed and re-made. The dispatcher goroutine closes a per-run exit channel and every path that re-spawns a dispatcher waits for it after closing the old signal channel (no stale dispatcher steps next to the new one); only the dispatcher goroutine runs the step. A narrowing conversion on the way into the limit needs an established upper bound (no wrap-around to 0). Does not decide the peak under concurrent TunePool calls.",
         "Trusts go/types; the lifecycle table is a sequential semantics (one control call at a time); runtime.NumCPU() >= 1.",
         "DESIGN.md §3 C02"),
 "C03": ("path analysis + context-sensitive lockset / lock-order analysis + lifecycle table on the type-checked AST",
         "Static necessary conditions of progress: notify after every enabling state change (14 submit paths, completion, every store of Running, limit raised, 'enqueued' announcement, purge); signal/error sends are select-with-default under the worker lock, closed once under the write lock; lock-order graph acyclic, no blocking operation under a lock; the dispatcher re-evaluates running/capacity/pending each iteration and survives step errors; every completion path keeps or retires its node; pool-node ownership typestate. Does not decide sufficiency of the wake-up protocol as a whole.",
         "Trusts go/types, sync.Cond/channel/RWMutex semantics; lock identity is per (type, field).",
         "DESIGN.md §3 C03"),
 "C04": ("table extraction of the heap comparator over all order types + who-may-call + path rules on the queue implementations",
         "Decides the finite, structural part of the dispatch order: the heap comparator equals (priority ascending, insertion index ascending) on all order types incl. int64 extremes; heap methods are reached only through container/heap; Enqueue reads-then-increments the tie index once before heap.Push; Chunk.Push/Pop and Queue.Enqueue/Dequeue keep the slot/index/link/advance discipline behind correct full/empty tests; one consumer. Every AddAll enqueues by ranging over the caller's slice itself (not a sorted or copied one); one dispatcher at a time, also across Restart (joined before re-spawn). Neither the dispatcher goroutine nor the completion callback can reach an Enqueue (a dequeued job is never put back behind later ones); the comparator is evaluated through helper methods, shifts and wrapping conversions. It does not decide that these pieces compose to FIFO/heap order for every length.",
         "Trusts container/heap; int is 64 bit; adapters excluded.",
         "DESIGN.md §3 C04"),
 "C05": ("path analysis + who-may-call + job-status table (finite-domain propagation)",
         "Decides who can release a handle's waiters and in which order: completion order worker function → Finished → Close; WaitGroup/counter releases only in the Close methods; one Add(1) per single-job constructor and consistent batch sizing; every Close implementation x 5 job states follows the reference (ack → compare-and-swap to Closed → one release → response closed); Response stores before it sends. Under interference every Close performs its once-only effects (WaitGroup.Done, batch count-off, stream close) only after its own won compare-and-swap; a submit function closes exactly the job whose Enqueue was refused. Does not decide interleavings of waiters.",
         "Trusts sync.WaitGroup; the job table is sequential per job.",
         "DESIGN.md §3 C05"),
 "C06": ("table extraction of the wait/release predicates over the abstract state space + lockset + path rules + lifecycle table",
         "Structural necessary conditions of exact barriers: the wait predicate equals the reference over status x pending x in-flight and is re-evaluated in a loop; the release evaluation reaches Broadcast wherever the wait predicate is false (Running/Paused); Broadcast runs under the Cond's mutex; every in-flight decrement, every drain of the queue and Purge re-evaluate the release; the in-flight counter is raised before the dequeue; Stop/PauseAndWait/WaitAndStop wait before they act. The release is a Broadcast (never Signal); the step reserves its slot before it reads the status; the completion lowers the in-flight counter only after the job's Close. Every store of Paused is followed by a release evaluation (callers parked on the running worker are woken); the signal send is attempted under the blocking read lock. Every completion path gives the in-flight slot back exactly once (the count is a term of every barrier condition). Does not decide concurrent barrier callers or the protocol's sufficiency as a whole.",
         "Trusts sync.Cond and sequentially consistent atomics.",
         "DESIGN.md §3 C06"),
 "C07": ("lexical containment + path analysis + sibling agreement over the three worker-function wrappers",
         "The user function runs only inside a literal passed to WithSafe, which recovers into its named result and calls its argument once; each wrapper counts exactly one of Failed/Successful behind the matching error test and reports failures to worker and job; fresh response per single job, results tagged with the receiver's id; id/data written only in constructors; id = generator then options, WithJobId(\"\") no-op. sendError reaches its send on every path; job options are applied only by loadJobConfigs, each job gets configs loaded for it, from the bound worker's configuration (not a default one, also through helpers). A batch member's id is a fixed constant decoration of the configured id on every path; WithJobId never rewrites the id it was given. Does not decide 'exactly one of sendResult/sendError' (value correlation) nor payload values.",
         "Trusts recover() semantics.",
         "DESIGN.md §3 C07"),
 "C08": ("atomic check-then-act analysis (interference-mode propagation on the batch counter) + job-status table + path rules",
         "WgCounter.Done decrements by compare-and-swap, releases once per won swap and reports true exactly for 1→0 (enumerated under interference); group Close closes the shared stream only when its own Done reported true; stream capacity = counter = len(items); rejected items closed; empty batch closes its stream at construction, non-empty never. Close effects only after a won transition (interference); Values() lists every stored item (segment bounds of the segment itself); per-item job configs. Success and failure results are both tagged with the receiver's own id. Does not decide one-result-per-item (C07).",
         "Trusts sync/atomic CAS.",
         "DESIGN.md §3 C08"),
 "C09": ("path analysis with status propagation + synchronous call-graph reachability + lifecycle table",
         "The dispatcher loop tests running; the step raises the in-flight counter, then re-tests the status, then dequeues, and with status Paused/Stopped never dequeues, gives the slot back and re-evaluates the barrier (Dekker handshake with Pause+wait); no lifecycle method synchronously reaches Dequeue/Purge/Enqueue/Unregister; submit paths ignore the worker status; Resume/Restart notify; Stop tears down after the wait. The previous dispatcher is joined before a new one is spawned (queue order across Restart); the previous context is cancelled inside the write-locked section that replaces it (the old listener cannot stop the restarted worker); from Paused/Stopped only Resume/Restart end Running. Assumes sequentially consistent atomics; does not decide restarts racing submissions.",
         "Trusts sync/atomic sequential consistency.",
         "DESIGN.md §3 C09"),
 "C10": ("atomic check-then-act analysis (interference-mode status propagation) + job-status table + path rules",
         "Decides the structural part of cancel/purge/close: plain status stores only where the job is exclusively owned, all other transitions compare-and-swap whose attempted transitions (every Load may return any state) go to Closed only from Created/Queued/Finished and to Processing never from Closed; Close result table over 5 states x 6 implementations; closed test precedes every mutation in both Enqueue implementations; Purge closes what it removes. Every Close performs its effects and returns nil only after its own won compare-and-swap (enumerated under interference). No Close of a queue can reach Purge, Dequeue or a job's Close (pending jobs still run). One known finding (Purge = Values()+Purge(), two critical sections).",
         "Trusts sync/atomic CAS; adapters excluded.",
         "DESIGN.md §3 C10"),
 "C11": ("who-may-call + def-use value flow + path analysis + job-status table",
         "Library side of at-least-once: Acknowledge only in job.ack, ack only in Close, Close on dequeued jobs only in the completion callback after the worker function; the receipt attached is the third result of this delivery's DequeueWithAckId and is what Acknowledge receives, on the queue the item came from, both attached before the hand-off; ack at most once, never for an empty id or closed job, refusal is an error before any release; the dispatcher path never acknowledges; persistent/distributed Add is true only when the adapter accepted. The dispatcher keeps draining after a failed step and no wake-up is lost (recovery without further prompting). The wrappers run the user's function synchronously, so the completion (and the acknowledgement) follows its return. Does not decide the adapter's bookkeeping or crash points inside it.",
         "Trusts the adapter to re-deliver unacknowledged items.",
         "DESIGN.md §3 C11"),
 "C12": ("table extraction (status writer/reader tables, wire struct) + path analysis",
         "Status writer and reader tables are inverse bijections with an erroring default; one wire struct with distinct JSON names, id/payload wired through both directions; encode error ⇒ false and nothing enqueued, the bytes enqueued are Json()'s; decode/cast failures are non-nil error returns that the dispatcher reports without leaving its loop; decoded jobs get their queue before the hand-off. No wire field carries a dropping/re-typing JSON option (omitempty, string). Id and data are written only in the constructors and WithJobId stores its argument unchanged. Does not decide encoding/json round-trip equality for payload values.",
         "Trusts encoding/json to honour struct tags.",
         "DESIGN.md §3 C12"),
 "C13": ("sibling agreement of the distributed binders + path analysis of the subscription handler",
         "Each distributed binder performs exactly one Register(adapter) and one Subscribe(own handler), both before exactly one start; the handler counts one submission and notifies per 'enqueued' and nothing otherwise; producer-side Add touches no worker; a lost dequeue race is an error return, not a loop exit; completion re-notifies. Binders subscribe before they start; a bind on an already running worker wakes the dispatcher. The wake-up send is attempted under the blocking read lock on every call (never skipped for a busy lock). Does not decide that exactly one of k consumers runs an item (the adapter's atomic dequeue).",
         "Trusts the adapter's Dequeue and notification delivery.",
         "DESIGN.md §3 C13"),
 "C14": ("finite-domain status propagation: lifecycle and bind methods extracted as a sequential transition table, compared with the documented machine",
         "Every (method, initial state) cell of Pause, PauseAndWait, Resume, Stop, WaitAndStop, Restart, TunePool, start and all 16 public bind methods equals the documented machine (error, final state, required/forbidden effects); closed channels are final or re-made; the context listener stops only its own run; Status()/Is* tables. The previous context is cancelled inside the same write-locked section that replaces it. The context listener is spawned only after Running is stored; a bind on a running worker has exactly one effect, the wake-up; every option handed to a constructor is applied on every path. Every path of the context listener calls Stop unless its context was found not to be the current one (cancellation stops the worker in every state). Sequential semantics: concurrent control calls are not decided.",
         "One control call at a time.",
         "DESIGN.md §3 C14"),
 "C15": ("path counting over the bind methods + table extraction of the strategy switch and comparators + lockset",
         "Every public bind method registers the bound queue exactly once; strategy switch table; round-robin cursor discipline (write lock, +1 mod n, pre-increment item, non-empty, one cycle); MaxLen comparator sign and MinLen update condition on all order types; item list append-only, nothing unregisters. The cursor is reset only where an item is removed; structs holding a mutex/atomic (the queue manager with its cursor) are never copied by value. The cursor arithmetic is followed symbolically (offsets from the entry cursor): an item handed out from position c+k leaves the cursor at c+k+1, however the scan is written; MinLen is evaluated for every order type of up to three lengths; the strategy dispatch for every declared constant and an undeclared value. Does not decide long-run fairness under concurrent submission.",
         "Trusts slices.MaxFunc.",
         "DESIGN.md §3 C15"),
 "C16": ("path analysis of the submit family + status-writer inventory + interference-mode CAS analysis",
         "Queued is stored before the publishing Enqueue in all 12 handle-returning submit paths and never after; plain status stores only at construction, as Queued before publication and as Finished in the completion callback; all other transitions are forward-only compare-and-swaps. Every Wait of the job family returns only through its WaitGroup/counter (or after reading Closed). The wrappers run the user's function synchronously (Finished is stored after it returned). Together with the completion order this excludes backward moves of a handle's status.",
         "Trusts sync/atomic.",
         "DESIGN.md §3 C16"),
 "C17": ("lockset over atomic counter reads + path analysis of submit/completion/wrappers + who-may-call",
         "No function combines two separately loaded counters without the writers' lock; Submitted once per accepted submission / announcement, never on rejection; one Completed per completion, one of Successful/Failed per invocation; queues registered once and Manager.Len sums them under the lock; in-flight inc/dec pairing; Purge resets both counters under the write lock. Persistent binds never subscribe (Submitted once per job); one dispatcher at a time, joined across Restart. Completed is counted before the in-flight slot (and the barrier) is released. Does not decide transient bounds between atomics of different objects.",
         "Lock identity per (type, field).",
         "DESIGN.md §3 C17"),
 "C18": ("goroutine inventory + lifecycle table + path rules + table extraction",
         "Every go statement is classified with its blocking receives and the event that releases them, each performed by every Stop outcome (a ticker loop needs a done case closed by stopTickers); Stop's full tear-down after the wait, Restart removes idle nodes first; nodes created only on the empty-idle-list branch and once in start; snapshot slices bounded by the snapshot's own length; minimum idle = max(limit*ratio/100,1) on sample points, kept by freePoolNode and by TunePool's strict shrink guard; node ownership typestate. Restart stops the previous run's tickers before it spawns a new reaper; TunePool stores the limit before it wakes the dispatcher. A node taken out of the idle list is stopped, recycled, re-inserted or used on every path (no leak); freePoolNode retires only after establishing idle >= minimum. The dispatcher re-reads the limit before every hand-off; with an expiry configured a node is stamped before it enters the idle list. Does not decide expiry timing.",
         "time.Ticker.Stop does not close C.",
         "DESIGN.md §3 C18"),
 "C19": ("context-sensitive static lockset over every struct field of the library (abstract interpretation, CHA, instantiation-aware)",
         "For every struct field reachable from the public API, goroutine bodies and callbacks: never written after publication, or one common lock (writers in write mode), or a listed hand-off whose structural side conditions are re-checked. No library struct holding a mutex/WaitGroup/atomic is copied by value. Fields of configs/jobConfigs are assigned only through locals or parameters; no whole-struct overwrite of an object holding atomics. A static over-approximation of data-race freedom for lock/atomic/channel-hand-off synchronisation; other happens-before idioms are reported, never silently accepted.",
         "Trusts go/types, sync/atomic/channels; internal packages are not user-callable; mocks and user adapters excluded.",
         "DESIGN.md §3 C19"),
 "C01": ("who-may-call + path/typestate analysis on the type-checked AST (abstract interpretation, callee inlining)",
         "Static necessary conditions of exactly-once execution, decided for all paths and call sites: single dequeue site and single dispatcher, one hand-off per dequeued job behind the closed test, one worker-function invocation per payload, pool-node ownership typestate, side-effect-free reject paths that close exactly the refused job, segment discipline of the in-memory queues, a dispatcher loop that survives step errors, the previous dispatcher joined before a re-spawn, Queued stored before publication (a late store cannot let Close() succeed on a running job), notify after every enabling change. It does not decide that these local rules are sufficient as a protocol.",
         "Trusts go/types, the adapter's Dequeue semantics, sync.Pool/channel semantics; sequentially reasons per path, no interleaving model.",
         "DESIGN.md §3 C01"),
}
PENDING_REASON = "no check registered in this revision yet (static rule set under construction, see DESIGN.md §3)"

props = [json.loads(l)["id"] for l in open(os.path.join(here, "properties.jsonl"))]
checks, na = [], []
for pid in props:
    if pid in CLAIMS:
        tech, text, note, ref = CLAIMS[pid]
        checks.append({
            "property_id": pid,
            "quick_cmd": f"bin/check -p {pid} -tier quick",
            "thorough_cmd": f"bin/check -p {pid} -tier thorough",
            "evidence_file": f"evidence/{pid}.json",
            "replay_cmd_template": f"bin/check -p {pid} -explain {{path}}",
            "engine": "varmqlint",
            "level_claimed": {"category": "other", "text": text, "design_ref": ref},
            "level_note": note,
            "technique": tech,
        })
    else:
        na.append({"property_id": pid, "reason": PENDING_REASON})
m = {
 "version": 1,
 "setup_cmd": "cd checker && GOFLAGS=-mod=mod GOPROXY=off GOWORK=off go build -o ../bin/varmqlint .",
 "hooks": {
   "guard": "verif",
   "enable": "none needed: static analysis reads /repo's sources; no instrumentation is compiled in",
   "baseline_off_cmd": "cd /repo && GOFLAGS=-mod=mod GOPROXY=off go test -vet=off -count=1 ./...",
   "source_commits": [],
   "add_only": True,
 },
 "engines": [{"name": "varmqlint", "path": "checker", "serves_properties": [c["property_id"] for c in checks],
              "kind_free_text": "repository-specific static analyser: go/packages + go/types, abstract interpreter over the AST (path, typestate, lockset, finite-domain status propagation), who-may-call, table extraction"}],
 "checks": checks,
 "not_applicable": na,
 "notes": "Static analysis only. Every check loads /repo's current working tree (go/packages, full syntax + types) on each run; nothing executes varmq code. Known findings: known_findings.json.",
}
json.dump(m, open(os.path.join(here, "MANIFEST.json"), "w"), indent=1)
print("claimed:", [c["property_id"] for c in checks], "n/a:", len(na))
