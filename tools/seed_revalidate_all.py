#!/usr/bin/env python3
"""Re-validate every kept seeded change on the current /repo HEAD, in parallel, WITHOUT touching /repo's working tree:
for each change a scratch worktree (removed afterwards): demo passes without the patch (with delay_baseline.patch when
there is one), patch applies, builds, suite passes once, demo fails with the patch (plus delay.patch when there is one).
Writes the result into meta.json ("revalidated") and prints a table."""
import json, os, re, shutil, subprocess, sys, tempfile, glob
from concurrent.futures import ThreadPoolExecutor
ENV = dict(os.environ, GOFLAGS="-mod=mod", GOPROXY="off"); ENV.pop("GOWORK", None)
PKGDIR = {"varmq": ".", "helpers": "internal/helpers", "queues": "internal/queues", "linkedlist": "internal/linkedlist",
          "linkedbuffer": "internal/linkedbuffer", "pool": "internal/pool", "utils": "utils", "mocks": "mocks"}
def run(cmd, cwd, timeout=900):
    try:
        p = subprocess.run(cmd, cwd=cwd, env=ENV, stdout=subprocess.PIPE, stderr=subprocess.STDOUT, text=True, timeout=timeout)
        return p.returncode, p.stdout
    except subprocess.TimeoutExpired as e:
        return 124, "TIMEOUT"
head = subprocess.run(["git", "-C", "/repo", "rev-parse", "--short", "HEAD"], capture_output=True, text=True).stdout.strip()
def one(name):
    d = "/verif/seeded/" + name
    meta = json.load(open(d + "/meta.json"))
    demo_src = open(d + "/demo_test.go").read()
    pkg = re.search(r"^package (\w+)", demo_src, re.M).group(1)
    pkg = pkg[:-5] if pkg.endswith("_test") else pkg
    sub = PKGDIR.get(pkg, ".")
    tests = re.findall(r"^func (Test\w+)\(", demo_src, re.M)
    runre = "^(" + "|".join(tests) + ")$"
    race = ["-race"] if meta.get("needs_race_detector") else []
    wt = tempfile.mkdtemp(prefix="reval-", dir="/tmp"); os.rmdir(wt)
    out = {"head": head}
    try:
        rc, o = run(["git", "-C", "/repo", "worktree", "add", "--detach", wt, "HEAD"], "/")
        if rc != 0:
            return name, {"error": o[-200:]}
        dst = os.path.join(wt, sub, "zz_seed_demo_test.go")
        shutil.copy(d + "/demo_test.go", dst)
        db = d + "/delay_baseline.patch"
        if os.path.exists(db):
            out["delay_base_applies"] = run(["git", "apply", "--whitespace=nowarn", db], wt)[0] == 0
        rc, o = run(["go", "test"] + race + ["-vet=off", "-count=1", "-timeout", "240s", "-run", runre, "./" + sub], wt)
        out["without"] = "pass" if rc == 0 else "FAIL"
        if os.path.exists(db) and out.get("delay_base_applies"):
            run(["git", "apply", "-R", "--whitespace=nowarn", db], wt)
        rc, o = run(["git", "apply", "--whitespace=nowarn", d + "/patch.diff"], wt)
        out["applies"] = rc == 0
        if rc == 0:
            os.remove(dst)
            out["builds"] = run(["go", "build", "./..."], wt)[0] == 0
            rc, o = run(["go", "test", "-vet=off", "-count=1", "./..."], wt)
            out["suite"] = "pass" if rc == 0 else "FAIL: " + " ".join(l.strip() for l in o.splitlines() if "--- FAIL" in l)[:200]
            shutil.copy(d + "/demo_test.go", dst)
            dp = d + "/delay.patch"
            if os.path.exists(dp):
                out["delay_applies"] = run(["git", "apply", "--whitespace=nowarn", dp], wt)[0] == 0
            rc, o = run(["go", "test"] + race + ["-vet=off", "-count=1", "-timeout", "240s", "-run", runre, "./" + sub], wt)
            out["with"] = "pass" if rc == 0 else "FAIL"
    finally:
        run(["git", "-C", "/repo", "worktree", "remove", "--force", wt], "/")
        shutil.rmtree(wt, ignore_errors=True)
    out["valid"] = bool(out.get("applies") and out.get("builds") and out.get("suite") == "pass" and out.get("without") == "pass" and out.get("with") == "FAIL")
    meta["revalidated"] = out
    json.dump(meta, open(d + "/meta.json", "w"), indent=1)
    return name, out
names = sys.argv[1:] or sorted(os.path.basename(x) for x in glob.glob("/verif/seeded/C*") if os.path.isdir(x))
bad = 0
with ThreadPoolExecutor(max_workers=4) as ex:
    for name, out in ex.map(one, names):
        if not out.get("valid"):
            bad += 1
        print(name, "valid" if out.get("valid") else "INVALID", {k: v for k, v in out.items() if k not in ("head",)}, flush=True)
subprocess.run(["git", "-C", "/repo", "worktree", "prune"])
print(f"{len(names)} re-validated on {head}, {bad} not valid")
