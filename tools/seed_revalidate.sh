#!/bin/sh
# re-validate kept seeded changes (demo passes without / fails with the patch, suite passes with it) on the current /repo HEAD
for id in "$@"; do
  d=/verif/seeded/$id
  extra=""
  grep -q '"needs_race_detector": true' $d/meta.json && extra="--race"
  python3 /verif/tools/seed_eval.py $d - $extra > /tmp/reval_$id.json 2>&1
  python3 - "$id" <<'PY'
import json,sys
id=sys.argv[1]
t=open(f'/tmp/reval_{id}.json').read()
try:
    o=json.loads(t[t.index('{'):])
    print(f"{id} {'valid' if o['valid'] else 'INVALID'} demo:{o.get('demo_without_patch')}/{o.get('demo_with_patch')} suite:{o.get('suite_passes_with_patch')} delay:{o.get('delay_applies')}/{o.get('delay_base_applies')}")
except Exception as e:
    print(id,'ERROR',t[-300:])
PY
done
