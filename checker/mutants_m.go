package main

// mutants derived from the defects D19 (stale dispatcher after Restart) and D20 (reaper accumulation over Restart)
// and from the second round of seeded changes
func init() {
	restartTear := "\tw.stopTickers()\n\tw.closeChannels()\n\tw.waitForEventLoop()\n\n\tw.mx.Lock()"
	addMutants(
		mutant{ID: "C02-restart-no-join", Prop: "C02", File: "worker.go", Expect: "R02.5", Quick: true,
			Old: restartTear, New: "\tw.stopTickers()\n\tw.closeChannels()\n\n\tw.mx.Lock()",
			Why: "re-introduces D19: Restart does not wait for the previous dispatcher goroutine; a buffered signal survives the close and the old loop makes a pass next to the new one"},
		mutant{ID: "C01-restart-no-join", Prop: "C01", File: "worker.go", Expect: "R01.8",
			Old: restartTear, New: "\tw.stopTickers()\n\tw.closeChannels()\n\n\tw.mx.Lock()",
			Why: "same change seen from C01 (two consumers)"},
		mutant{ID: "C09-restart-no-join", Prop: "C09", File: "worker.go", Expect: "R09.6",
			Old: restartTear, New: "\tw.stopTickers()\n\tw.closeChannels()\n\n\tw.mx.Lock()",
			Why: "same change seen from C09 (queue order after Restart)"},
		mutant{ID: "C02-join-before-close", Prop: "C02", File: "worker.go", Expect: "R02.5",
			Old: restartTear, New: "\tw.stopTickers()\n\tw.waitForEventLoop()\n\tw.closeChannels()\n\n\tw.mx.Lock()",
			Why: "the join is placed before the signal channel is closed: it waits for a goroutine that has not been told to end"},
		mutant{ID: "C02-dispatcher-no-exit-announcement", Prop: "C02", File: "worker.go", Expect: "R02.5",
			Old: "\t\tdefer close(done)\n\n\t\tfor range signal {", New: "\t\tfor range signal {",
			Why: "the dispatcher goroutine no longer closes its exit channel: the join in Stop/Restart would block for ever, or (with the nil guard) be skipped"},
		mutant{ID: "C02-done-field-reset", Prop: "C02", File: "worker.go", Expect: "R02.5",
			Old: "\tif w.eventLoopSignal != nil {\n\t\tclose(w.eventLoopSignal)\n\t\tw.eventLoopSignal = nil\n\t}", New: "\tif w.eventLoopSignal != nil {\n\t\tclose(w.eventLoopSignal)\n\t\tw.eventLoopSignal = nil\n\t\tw.eventLoopDone = nil\n\t}",
			Why: "closeChannels also clears the exit channel field: the join that follows finds nil and is skipped"},
		mutant{ID: "C18-restart-keeps-tickers", Prop: "C18", File: "worker.go", Expect: "R18.2", Quick: true,
			Old: restartTear, New: "\tw.closeChannels()\n\tw.waitForEventLoop()\n\n\tw.mx.Lock()",
			Why: "re-introduces D20: Restart starts a new reaper without stopping the previous run's ticker and reaper"},
	)
}

// mutants that re-introduce the defects D21–D26 (found by seeding sub-agents on the unchanged tree, see DESIGN 9.3)
func init() {
	addMutants(
		mutant{ID: "C06-pause-no-release", Prop: "C06", File: "worker.go", Expect: "R06.4", Quick: true,
			Old: "\t\tw.status.Store(paused)\n\t\t// callers parked in WaitUntilFinished on the running worker were waiting\n\t\t// for the queue to empty as well; on a paused worker only the in-flight\n\t\t// jobs count, so their condition may hold from now on\n\t\tw.releaseWaiters(w.curProcessing.Load())\n", New: "\t\tw.status.Store(paused)\n",
			Why: "re-introduces D21: Pause stores Paused without re-evaluating the barrier release"},
		mutant{ID: "C17-completed-after-release", Prop: "C17", File: "worker.go", Expect: "R17.3", Quick: true,
			Old: "\t\tw.metrics.incCompleted()\n\t\tw.freePoolNode(node)\n\t\tw.releaseWaiters(w.curProcessing.Add(^uint32(0)))\n", New: "\t\tw.freePoolNode(node)\n\t\tw.releaseWaiters(w.curProcessing.Add(^uint32(0)))\n\t\tw.metrics.incCompleted()\n",
			Why: "re-introduces D22: Completed is counted after the slot (and the barrier) was released"},
		mutant{ID: "C14-listener-before-running", Prop: "C14", File: "worker.go", Expect: "R14.3", Quick: true,
			Old: "\tdefer w.goListenToContext()\n\tdefer w.notifyToPullNextJobs()\n\tdefer w.status.Store(running)\n\n\tw.goEventLoop()\n\tw.goRemoveIdleWorkers()\n", New: "\tdefer w.notifyToPullNextJobs()\n\tdefer w.status.Store(running)\n\n\tw.goEventLoop()\n\tw.goRemoveIdleWorkers()\n\tw.goListenToContext()\n",
			Why: "re-introduces D23: the context listener is spawned before the status is Running"},
		mutant{ID: "C13-bind-running-no-notify", Prop: "C13", File: "worker.go", Expect: "R13.4",
			Old: "\t\tw.notifyToPullNextJobs()\n\t\treturn ErrRunningWorker\n", New: "\t\treturn ErrRunningWorker\n",
			Why: "re-introduces D24: a queue bound to a running worker is not announced to the dispatcher"},
		mutant{ID: "C14-bind-running-no-notify", Prop: "C14", File: "worker.go", Expect: "R14.1",
			Old: "\t\tw.notifyToPullNextJobs()\n\t\treturn ErrRunningWorker\n", New: "\t\treturn ErrRunningWorker\n",
			Why: "same change seen from C14 (the documented effect of a bind on a running worker is the wake-up)"},
		mutant{ID: "C13-subscribe-after-start", Prop: "C13", File: "worker_binder.go", Expect: "R13.1", Quick: true,
			Old: "\tdefer wb.start()\n\tdefer dq.Subscribe(wb.handleQueueSubscription)\n\tdefer wb.queues.Register(dq)\n", New: "\tdefer dq.Subscribe(wb.handleQueueSubscription)\n\tdefer wb.start()\n\tdefer wb.queues.Register(dq)\n",
			Why: "re-introduces D25: the subscription becomes active after the start-up pass"},
		mutant{ID: "C02-concurrency-wraps", Prop: "C02", File: "config.go", Expect: "R02.3", Quick: true,
			Old: "\tif uint64(concurrency) > math.MaxUint32 {\n\t\treturn math.MaxUint32\n\t}\n\n", New: "\t_ = math.MaxUint32\n\n",
			Why: "re-introduces D26: the int → uint32 conversion of the limit is unbounded"},
	)
}
