package main

// mutants derived from the defects D19 (stale dispatcher after Restart) and D20 (reaper accumulation over Restart)
// and from the second round of seeded changes
func init() {
	restartTear := "\tw.stopTickers()\n\tw.closeChannels()\n\tw.waitForEventLoop()\n\n\tw.mx.Lock()"
	addMutants(
		mutant{ID: "C02-restart-no-join", Prop: "C02", File: "worker.go", Expect: "R02.5", Quick: true,
			Old: restartTear, New: "\tw.stopTickers()\n\tw.closeChannels()\n\n\tw.mx.Lock()",
			Why: "re-introduces D19: Restart does not wait for the previous dispatcher goroutine; a buffered signal survives the close and the old loop makes a pass next to the new one"},
		mutant{ID: "C01-restart-no-join", Prop: "C01", File: "worker.go", Expect: "R01.8",
			Old: restartTear, New: "\tw.stopTickers()\n\tw.closeChannels()\n\n\tw.mx.Lock()",
			Why: "same change seen from C01 (two consumers)"},
		mutant{ID: "C09-restart-no-join", Prop: "C09", File: "worker.go", Expect: "R09.6",
			Old: restartTear, New: "\tw.stopTickers()\n\tw.closeChannels()\n\n\tw.mx.Lock()",
			Why: "same change seen from C09 (queue order after Restart)"},
		mutant{ID: "C02-join-before-close", Prop: "C02", File: "worker.go", Expect: "R02.5",
			Old: restartTear, New: "\tw.stopTickers()\n\tw.waitForEventLoop()\n\tw.closeChannels()\n\n\tw.mx.Lock()",
			Why: "the join is placed before the signal channel is closed: it waits for a goroutine that has not been told to end"},
		mutant{ID: "C02-dispatcher-no-exit-announcement", Prop: "C02", File: "worker.go", Expect: "R02.5",
			Old: "\t\tdefer close(done)\n\n\t\tfor range signal {", New: "\t\tfor range signal {",
			Why: "the dispatcher goroutine no longer closes its exit channel: the join in Stop/Restart would block for ever, or (with the nil guard) be skipped"},
		mutant{ID: "C02-done-field-reset", Prop: "C02", File: "worker.go", Expect: "R02.5",
			Old: "\tif w.eventLoopSignal != nil {\n\t\tclose(w.eventLoopSignal)\n\t\tw.eventLoopSignal = nil\n\t}", New: "\tif w.eventLoopSignal != nil {\n\t\tclose(w.eventLoopSignal)\n\t\tw.eventLoopSignal = nil\n\t\tw.eventLoopDone = nil\n\t}",
			Why: "closeChannels also clears the exit channel field: the join that follows finds nil and is skipped"},
		mutant{ID: "C18-restart-keeps-tickers", Prop: "C18", File: "worker.go", Expect: "R18.2", Quick: true,
			Old: restartTear, New: "\tw.closeChannels()\n\tw.waitForEventLoop()\n\n\tw.mx.Lock()",
			Why: "re-introduces D20: Restart starts a new reaper without stopping the previous run's ticker and reaper"},
	)
}
