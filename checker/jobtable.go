package main

// E3 for the job status: every Close implementation of the job family is
// walked once per initial job status (Created, Queued, Processing, Finished,
// Closed) with constant propagation through the status field. A cell is the
// set of reachable (returned error, final status, ordered effects).

import (
	"go/types"
	"sort"
	"strings"
)

type jobCloseTable struct {
	Impls  []*Func
	States []string
	Cells  map[string][]cellOutcome // "impl key|state"
}

// closeImpls: methods named Close whose receiver is a job-family struct.
func (c *Ctx) closeImpls() []*Func {
	var out []*Func
	for _, f := range c.P.pkgFuncs(modPath) {
		if f.Obj == nil || f.Decl.Recv == nil || f.Obj.Name() != "Close" {
			continue
		}
		rt := f.Obj.Type().(*types.Signature).Recv().Type()
		if isJobFamily(rt) {
			out = append(out, f)
		}
	}
	sort.Slice(out, func(i, j int) bool { return out[i].Key < out[j].Key })
	return out
}

func (c *Ctx) jobCloseTable() *jobCloseTable {
	if c.cache == nil {
		c.cache = map[string]any{}
	}
	if t, ok := c.cache["jobclose"]; ok {
		return t.(*jobCloseTable)
	}
	js := c.jobStatus()
	t := &jobCloseTable{Cells: map[string][]cellOutcome{}, Impls: c.closeImpls()}
	for _, n := range []string{"Created", "Queued", "Processing", "Finished", "Closed"} {
		if _, ok := js.ByName[n]; ok {
			t.States = append(t.States, n)
		}
	}
	for _, f := range t.Impls {
		for _, sn := range t.States {
			v := c.vocab([]string{"ack", "status:", "statuscas:", "wgdone", "wgcdone", "last=", "respclose"}, map[string]bool{"ack": true})
			v.also = map[string]bool{"status?": true}
			sr := v.seq("jobclose", false)
			sr.trackField = c.R.FJobStatus
			sr.init = kv("").set("T", js.ByName[sn])
			var outs []cellOutcome
			for _, sg := range sr.segments(f) {
				if sg.Kind != "path" {
					continue
				}
				errv := "void"
				if len(sg.Ret) > 0 {
					errv = errName(sg.Ret[len(sg.Ret)-1])
				}
				final := js.ByVal[sg.T]
				if final == "" {
					final = "?" + sg.T
				}
				var eff []string
				for _, s := range sg.Syms {
					if !strings.HasPrefix(s, "loop@") {
						eff = append(eff, s)
					}
				}
				outs = append(outs, cellOutcome{Err: errv, Final: final, Effects: eff, End: sg.End})
			}
			t.Cells[f.Key+"|"+sn] = outs
		}
	}
	c.cache["jobclose"] = t
	return t
}

func (t *jobCloseTable) cell(f *Func, s string) []cellOutcome { return t.Cells[f.Key+"|"+s] }

func (t *jobCloseTable) dump() []string {
	var out []string
	for _, f := range t.Impls {
		for _, s := range t.States {
			for _, o := range t.cell(f, s) {
				out = append(out, f.Short()+" from "+s+": "+o.String())
			}
		}
	}
	return out
}
