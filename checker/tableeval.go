package main

// E7 table extraction: small pure functions (comparators, predicates,
// status/strategy switches) are evaluated on a finite set of representative
// operand assignments — the order types of the integers they compare and the
// finite status domains — and the resulting table is compared with a
// reference. The evaluator understands if/return, switch, local assignments,
// == != < <= > >=, && || !, + - (with Go's wrap-around on int64), and calls of
// parameterless library predicates (inlined); anything else makes the table
// undecided and the run fails rather than guesses.

import (
	"fmt"
	"go/ast"
	"go/constant"
	"go/token"
	"go/types"
)

type tval struct {
	IsBool bool
	B      bool
	I      int64
	Obj    string // identity of a non-numeric value (package-level object), if any
	IsNil  bool
}

func (v tval) String() string {
	switch {
	case v.IsNil:
		return "nil"
	case v.Obj != "":
		return v.Obj
	case v.IsBool:
		return fmt.Sprint(v.B)
	}
	return fmt.Sprint(v.I)
}

type tableEval struct {
	c       *Ctx
	leaf    func(f *Func, e ast.Expr) (tval, bool)           // rule-specific operands
	effect  func(f *Func, call *ast.CallExpr) bool           // statement-level calls the rule knows about (recorded or ignored)
	field   func(base tval, name string) (tval, bool)        // field of a symbolic object produced by leaf
	leafEnv func(f *Func, e ast.Expr, env tenv) (tval, bool) // the same with the locals in reach
	br      string                                           // "continue"/"break" left a block early (loop bodies evaluated by a rule)
	why     string                                           // set when undecided
	depth   int
}

func (t *tableEval) fail(f *Func, n ast.Node, what string) {
	if t.why == "" {
		t.why = fmt.Sprintf("%s: %s", t.c.P.pos(n), what)
	}
}

type tenv map[types.Object]tval

// call evaluates f's body; args are bound to its parameters.
func (t *tableEval) call(f *Func, args []tval) ([]tval, bool) {
	return t.callRecv(f, nil, args)
}

// callRecv is call with the receiver bound as well (methods of symbolic objects).
func (t *tableEval) callRecv(f *Func, recv *tval, args []tval) ([]tval, bool) {
	if t.depth > 4 {
		t.fail(f, f.Body, "inlining too deep")
		return nil, false
	}
	t.depth++
	defer func() { t.depth-- }()
	env := tenv{}
	if recv != nil && f.Decl != nil && f.Decl.Recv != nil && len(f.Decl.Recv.List) == 1 && len(f.Decl.Recv.List[0].Names) == 1 {
		env[f.Info().ObjectOf(f.Decl.Recv.List[0].Names[0])] = *recv
	}
	if f.Type.Params != nil {
		i := 0
		for _, fld := range f.Type.Params.List {
			for _, nm := range fld.Names {
				if i < len(args) {
					env[f.Info().ObjectOf(nm)] = args[i]
				}
				i++
			}
		}
	}
	res, returned, ok := t.block(f, f.Body.List, env)
	if !ok {
		return nil, false
	}
	if !returned {
		return nil, true
	}
	return res, true
}

func (t *tableEval) block(f *Func, list []ast.Stmt, env tenv) (res []tval, returned, ok bool) {
	for _, s := range list {
		res, returned, ok = t.stmt(f, s, env)
		if !ok || returned {
			return
		}
	}
	return nil, false, true
}

func (t *tableEval) stmt(f *Func, s ast.Stmt, env tenv) ([]tval, bool, bool) {
	info := f.Info()
	switch s := s.(type) {
	case *ast.BlockStmt:
		return t.block(f, s.List, env)
	case *ast.ReturnStmt:
		var out []tval
		for _, r := range s.Results {
			v, ok := t.expr(f, r, env)
			if !ok {
				return nil, false, false
			}
			out = append(out, v)
		}
		return out, true, true
	case *ast.IfStmt:
		if s.Init != nil {
			if _, _, ok := t.stmt(f, s.Init, env); !ok {
				return nil, false, false
			}
		}
		c, ok := t.expr(f, s.Cond, env)
		if !ok || !c.IsBool {
			t.fail(f, s.Cond, "condition not evaluable")
			return nil, false, false
		}
		if c.B {
			return t.block(f, s.Body.List, env)
		}
		if s.Else != nil {
			return t.stmt(f, s.Else, env)
		}
		return nil, false, true
	case *ast.AssignStmt:
		if len(s.Lhs) != len(s.Rhs) {
			t.fail(f, s, "multi-value assignment")
			return nil, false, false
		}
		for i, l := range s.Lhs {
			id, ok := l.(*ast.Ident)
			if !ok {
				t.fail(f, s, "assignment to a non-local")
				return nil, false, false
			}
			v, ok := t.expr(f, s.Rhs[i], env)
			if !ok {
				return nil, false, false
			}
			if s.Tok != token.ASSIGN && s.Tok != token.DEFINE {
				t.fail(f, s, "compound assignment")
				return nil, false, false
			}
			if id.Name != "_" {
				env[info.ObjectOf(id)] = v
			}
		}
		return nil, false, true
	case *ast.SwitchStmt:
		if s.Init != nil {
			if _, _, ok := t.stmt(f, s.Init, env); !ok {
				return nil, false, false
			}
		}
		var tag tval
		hasTag := s.Tag != nil
		if hasTag {
			v, ok := t.expr(f, s.Tag, env)
			if !ok {
				return nil, false, false
			}
			tag = v
		}
		var def *ast.CaseClause
		for _, cc := range s.Body.List {
			clause := cc.(*ast.CaseClause)
			if clause.List == nil {
				def = clause
				continue
			}
			for _, ce := range clause.List {
				v, ok := t.expr(f, ce, env)
				if !ok {
					return nil, false, false
				}
				match := false
				if hasTag {
					match = v.IsBool == tag.IsBool && v.B == tag.B && v.I == tag.I && v.Obj == tag.Obj
				} else {
					match = v.IsBool && v.B
				}
				if match {
					return t.block(f, clause.Body, env)
				}
			}
		}
		if def != nil {
			return t.block(f, def.Body, env)
		}
		return nil, false, true
	case *ast.DeclStmt:
		gd, ok := s.Decl.(*ast.GenDecl)
		if !ok || gd.Tok != token.VAR {
			return nil, false, true
		}
		for _, sp := range gd.Specs {
			vs := sp.(*ast.ValueSpec)
			for i, nm := range vs.Names {
				v := tval{}
				if i < len(vs.Values) {
					var ok bool
					if v, ok = t.expr(f, vs.Values[i], env); !ok {
						return nil, false, false
					}
				} else if b, ok := info.TypeOf(nm).Underlying().(*types.Basic); ok && b.Info()&types.IsBoolean != 0 {
					v.IsBool = true
				}
				env[info.ObjectOf(nm)] = v
			}
		}
		return nil, false, true
	case *ast.EmptyStmt:
		return nil, false, true
	case *ast.BranchStmt:
		if s.Label == nil && (s.Tok == token.CONTINUE || s.Tok == token.BREAK) {
			// leaves the enclosing block sequence; the rule that evaluates a loop body reads t.br
			t.br = s.Tok.String()
			return nil, true, true
		}
	case *ast.ExprStmt:
		if call, ok := ast.Unparen(s.X).(*ast.CallExpr); ok {
			if t.effect != nil && t.effect(f, call) {
				return nil, false, true
			}
			// a call of a library function evaluated for its effects
			ce := resolveCallee(info, call)
			if g := t.c.P.byObj[ce.Key]; g != nil && g.Lib && !ce.Iface {
				var args []tval
				for _, a := range call.Args {
					v, ok := t.expr(f, a, env)
					if !ok {
						return nil, false, false
					}
					args = append(args, v)
				}
				if _, ok := t.call(g, args); ok {
					return nil, false, true
				}
				return nil, false, false
			}
		}
	case *ast.DeferStmt:
		if t.effect != nil && t.effect(f, s.Call) {
			return nil, false, true
		}
	}
	t.fail(f, s, fmt.Sprintf("statement %T not supported by the table evaluator", s))
	return nil, false, false
}

func (t *tableEval) expr(f *Func, e ast.Expr, env tenv) (tval, bool) {
	info := f.Info()
	e = ast.Unparen(e)
	if t.leaf != nil {
		if v, ok := t.leaf(f, e); ok {
			return v, true
		}
	}
	if t.leafEnv != nil {
		if v, ok := t.leafEnv(f, e, env); ok {
			return v, true
		}
	}
	if tv, ok := info.Types[e]; ok {
		if tv.Value != nil {
			switch tv.Value.Kind() {
			case constant.Bool:
				return tval{IsBool: true, B: constant.BoolVal(tv.Value)}, true
			case constant.Int:
				if i, ok := constant.Int64Val(tv.Value); ok {
					return tval{I: i}, true
				}
				if u, ok := constant.Uint64Val(tv.Value); ok {
					return tval{I: int64(u)}, true
				}
			case constant.String:
				return tval{Obj: tv.Value.ExactString()}, true
			}
		}
		if tv.IsNil() {
			return tval{IsNil: true}, true
		}
	}
	switch x := e.(type) {
	case *ast.Ident:
		obj := info.ObjectOf(x)
		if v, ok := env[obj]; ok {
			return v, true
		}
		if vr, ok := obj.(*types.Var); ok && vr.Pkg() != nil && vr.Parent() == vr.Pkg().Scope() {
			return tval{Obj: vr.Pkg().Path() + "." + vr.Name()}, true
		}
	case *ast.SelectorExpr:
		if _, isSel := info.Selections[x]; !isSel {
			if vr, ok := info.Uses[x.Sel].(*types.Var); ok && vr.Pkg() != nil {
				return tval{Obj: vr.Pkg().Path() + "." + vr.Name()}, true
			}
		} else if t.field != nil {
			saved := t.why
			if base, ok := t.expr(f, x.X, env); ok && base.Obj != "" {
				if v, ok := t.field(base, x.Sel.Name); ok {
					return v, true
				}
			}
			t.why = saved
		}
	case *ast.UnaryExpr:
		v, ok := t.expr(f, x.X, env)
		if !ok {
			return tval{}, false
		}
		switch x.Op {
		case token.NOT:
			if v.IsBool {
				return tval{IsBool: true, B: !v.B}, true
			}
		case token.SUB:
			if !v.IsBool {
				return tval{I: -v.I}, true
			}
		}
	case *ast.BinaryExpr:
		l, ok := t.expr(f, x.X, env)
		if !ok {
			return tval{}, false
		}
		if x.Op == token.LAND && l.IsBool && !l.B {
			return tval{IsBool: true, B: false}, true
		}
		if x.Op == token.LOR && l.IsBool && l.B {
			return tval{IsBool: true, B: true}, true
		}
		r, ok := t.expr(f, x.Y, env)
		if !ok {
			return tval{}, false
		}
		b := func(v bool) (tval, bool) { return tval{IsBool: true, B: v}, true }
		switch x.Op {
		case token.LAND:
			return b(l.B && r.B)
		case token.LOR:
			return b(l.B || r.B)
		case token.EQL:
			return b(l.IsBool == r.IsBool && l.B == r.B && l.I == r.I && l.Obj == r.Obj && l.IsNil == r.IsNil)
		case token.NEQ:
			return b(!(l.IsBool == r.IsBool && l.B == r.B && l.I == r.I && l.Obj == r.Obj && l.IsNil == r.IsNil))
		}
		if l.IsBool || r.IsBool || l.Obj != "" || r.Obj != "" {
			break
		}
		// unsigned operands compare as unsigned
		unsigned := false
		if bt, ok := info.TypeOf(x.X).Underlying().(*types.Basic); ok && bt.Info()&types.IsUnsigned != 0 {
			unsigned = true
		}
		switch x.Op {
		case token.LSS:
			if unsigned {
				return b(uint64(l.I) < uint64(r.I))
			}
			return b(l.I < r.I)
		case token.LEQ:
			if unsigned {
				return b(uint64(l.I) <= uint64(r.I))
			}
			return b(l.I <= r.I)
		case token.GTR:
			if unsigned {
				return b(uint64(l.I) > uint64(r.I))
			}
			return b(l.I > r.I)
		case token.GEQ:
			if unsigned {
				return b(uint64(l.I) >= uint64(r.I))
			}
			return b(l.I >= r.I)
		case token.ADD:
			return tval{I: l.I + r.I}, true
		case token.SUB:
			return tval{I: l.I - r.I}, true
		case token.MUL:
			return tval{I: l.I * r.I}, true
		case token.QUO:
			if r.I != 0 {
				if unsigned {
					return tval{I: int64(uint64(l.I) / uint64(r.I))}, true
				}
				return tval{I: l.I / r.I}, true
			}
		case token.REM:
			if r.I != 0 {
				return tval{I: l.I % r.I}, true
			}
		case token.SHL:
			if r.I >= 0 && r.I < 64 {
				return tval{I: int64(uint64(l.I) << uint(r.I))}, true
			}
			if r.I >= 64 {
				return tval{I: 0}, true
			}
		case token.SHR:
			if r.I >= 0 {
				sh := uint(min(r.I, 63))
				if unsigned {
					if r.I >= 64 {
						return tval{I: 0}, true
					}
					return tval{I: int64(uint64(l.I) >> sh)}, true
				}
				return tval{I: l.I >> sh}, true
			}
		case token.AND:
			return tval{I: l.I & r.I}, true
		case token.OR:
			return tval{I: l.I | r.I}, true
		case token.XOR:
			return tval{I: l.I ^ r.I}, true
		case token.AND_NOT:
			return tval{I: l.I &^ r.I}, true
		}
	case *ast.CallExpr:
		ce := resolveCallee(info, x)
		if ce.Conv && len(x.Args) == 1 {
			v, ok := t.expr(f, x.Args[0], env)
			if !ok || v.IsBool || v.Obj != "" || v.IsNil {
				return v, ok
			}
			// integer conversions wrap to the size of the target type
			if bt, isBasic := info.TypeOf(x).Underlying().(*types.Basic); isBasic && bt.Info()&types.IsInteger != 0 {
				bits := uint(64)
				if f.Pkg.TypesSizes != nil {
					bits = uint(f.Pkg.TypesSizes.Sizeof(bt)) * 8
				}
				if bits < 64 {
					u := uint64(v.I) & (1<<bits - 1)
					if bt.Info()&types.IsUnsigned == 0 && u&(1<<(bits-1)) != 0 {
						u |= ^uint64(0) << bits
					}
					v.I = int64(u)
				}
			}
			return v, true
		}
		if (ce.Builtin == "max" || ce.Builtin == "min") && len(x.Args) >= 1 {
			var best tval
			for i, a := range x.Args {
				v, ok := t.expr(f, a, env)
				if !ok || v.IsBool {
					return tval{}, false
				}
				if i == 0 || (ce.Builtin == "max" && v.I > best.I) || (ce.Builtin == "min" && v.I < best.I) {
					best = v
				}
			}
			return best, true
		}
		if g := t.c.P.byObj[ce.Key]; g != nil && g.Lib && !ce.Iface {
			var args []tval
			for _, a := range x.Args {
				v, ok := t.expr(f, a, env)
				if !ok {
					return tval{}, false
				}
				args = append(args, v)
			}
			var recv *tval
			if ce.Recv != nil {
				saved := t.why
				if rv, ok := t.expr(f, ce.Recv, env); ok {
					recv = &rv
				} else {
					t.why = saved
				}
			}
			res, ok := t.callRecv(g, recv, args)
			if ok && len(res) == 1 {
				return res[0], true
			}
			return tval{}, false
		}
	}
	t.fail(f, e, "expression not supported by the table evaluator: "+types.ExprString(e))
	return tval{}, false
}
