package main

import (
	"fmt"
	"go/ast"
	"go/token"
	"go/types"
	"strings"
)

func init() {
	register(&propDef{
		ID: "C05",
		Info: propInfo{
			Technique:   "path analysis + who-may-call + job-status table (finite-domain propagation) on the type-checked AST",
			Explanation: "Decides who can release a handle's waiters and in which order: (R05.1) in the completion callback the worker function call precedes the Finished store, which precedes exactly one Close; (R05.2) the job's WaitGroup is released only in job.Close, the batch counter only in the group Close methods, the counter's inner WaitGroup only in WgCounter.Done; Close on a job is called only from the completion callback, reject branches, Purge and sibling Close methods; (R05.3) each single-job constructor arms the WaitGroup with exactly one Add(1); NewWgCounter adds the same n to counter and WaitGroup; every AddAll passes len(items) of the slice it ranges over to the group constructor, which passes it on to counter and stream; (R05.4) every Close implementation, from each of the five job states: success only from Created/Queued/Finished, with ack before the (compare-and-swap) transition to Closed and exactly one release after it; ErrJobProcessing / ErrJobAlreadyClosed leave status and waiters untouched; a result/error job closes its response only after a successful close; (R05.5) Response.Send stores the value before sending it, Response() falls back to the stored value only when the channel is closed, per-job responses have capacity 1.",
			NotDecided:  []string{"interleavings of several waiters (sync.WaitGroup is trusted)", "that Wait cannot block for ever under every interleaving of Close/Purge with dispatch (needs a model)", "user code that never returns"},
			Assumptions: []string{"sync.WaitGroup semantics", "the job status table is a sequential semantics per job"},
		},
		Run: runC05,
	})
}

func runC05(c *Ctx) {
	c.ruleCompletionOrder("R05.1")
	c.ruleWhoReleases("R05.2")
	c.ruleWhoArms("R05.3")
	c.ruleCloseSiblings("R05.4", false)
	c.ruleResponse("R05.5")
	c.ruleLastFinisher("R05.6")
	// Wait is released, and the outcome stream closed, only by the Close that won its transition
	c.ruleCloseEffectsNeedWin("R05.7")
	// a batch's Wait returns only if every refused item is counted off
	c.ruleSubmitPaths("R05.8", submitChecks{reject: true})
	// purged jobs' waiters are released: Purge closes every job it removes
	c.rulePurge("R05.9")
}

func (c *Ctx) ruleCompletionOrder(rule string) {
	R := c.R
	c.Rep.rule(rule, "E2 path", "completion callback: worker function, then status Finished, then exactly one Close", 1)
	if R.Completion == nil {
		return
	}
	v := c.vocab([]string{"wf", "status:", "close"}, map[string]bool{"close": true})
	for _, sg := range v.seq(rule, false).segments(R.Completion) {
		good := sg.count("wf") == 1 && sg.count("close") == 1 && sg.count("status:Finished") == 1 &&
			sg.index("wf") < sg.index("status:Finished") && sg.index("status:Finished") < sg.index("close")
		c.Rep.check(good, rule, R.Completion.Short(), "completion order", sg.End, "worker function → Finished → Close (once)",
			"the completion callback must call the worker function, then store Finished, then Close the job exactly once (a Close before the function returns releases waiters and acknowledges early): ["+strings.Join(sg.Syms, " ")+"]")
	}
}

func (c *Ctx) ruleWhoReleases(rule string) {
	R := c.R
	c.Rep.rule(rule, "E1", "WaitGroup/counter releases only in the Close methods; Close only from completion, reject branches, Purge and sibling Close", 8)
	closeImpls := c.closeImpls()
	isClose := func(f *Func) bool {
		for _, g := range closeImpls {
			if g == f {
				return true
			}
		}
		return false
	}
	jobClose := c.methodOf(R.JobT, "Close")
	// job.wg.Done only in job.Close
	c.whoMayCall(rule, "Done on the job's WaitGroup", func(cs CallSite) bool {
		return cs.Callee.Key == kWgDone && selField(cs.In.Info(), cs.Callee.Recv) == R.FJobWg
	}, isFunc(jobClose), "job.Close")
	// WgCounter.Done only in group Close methods
	c.whoMayCall(rule, "WgCounter.Done", keyIn(kWgcDone), func(f *Func) bool { return isClose(f) && f != jobClose }, "a group Close method")
	// inner wg.Done only in WgCounter.Done
	wgcDone := c.P.byObj[kWgcDone]
	c.whoMayCall(rule, "Done on the counter's WaitGroup", func(cs CallSite) bool {
		return cs.Callee.Key == kWgDone && strings.HasSuffix(selField(cs.In.Info(), cs.Callee.Recv), "helpers.WgCounter.wg")
	}, isFunc(wgcDone), "WgCounter.Done")
	// any other WaitGroup.Done in the library is suspicious for this rule only if it targets these fields (covered above)
	// callers of Close on a job-family value
	submit := c.submitFuncs()
	purge := c.P.FuncByKey("externalBaseQueue.Purge")
	allowed := func(f *Func) bool {
		if f == R.Completion || f == purge || isClose(f) {
			return true
		}
		for _, s := range submit {
			if s == f {
				return true
			}
		}
		return false
	}
	c.whoMayCall(rule, "Close on a job", func(cs CallSite) bool {
		if jobMethod(cs.In.Info(), cs.Call, cs.Callee) == "Close" {
			return true
		}
		// Purge closes values through io.Closer
		return cs.Callee.Key == kCloserI && cs.In == purge
	}, allowed, "the completion callback, a submit function's reject branch, Purge or a sibling Close")
	// the counter and its WaitGroup change together, only in NewWgCounter and Done
	newWgc := c.P.byObj[kNewWgc]
	c.whoMayCall(rule, "modification of the batch counter", func(cs CallSite) bool {
		fk, m := atomicOp(cs.In.Info(), cs.Call)
		return strings.HasSuffix(fk, "helpers.WgCounter.count") && m != "Load"
	}, isFunc(newWgc, wgcDone), "NewWgCounter / WgCounter.Done")
	c.whoMayCall(rule, "Add on the counter's WaitGroup", func(cs CallSite) bool {
		return cs.Callee.Key == kWgAdd && strings.HasSuffix(selField(cs.In.Info(), cs.Callee.Recv), "helpers.WgCounter.wg")
	}, isFunc(newWgc), "NewWgCounter")
}

func (c *Ctx) ruleWhoArms(rule string) {
	R := c.R
	c.Rep.rule(rule, "E1+E2", "one wg.Add(1) per single-job constructor; NewWgCounter adds n to both views; AddAll sizes the batch with len(items) of the ranged slice; group constructors pass the size on to counter and stream", 8)
	// constructors: functions containing wg.Add on the job WaitGroup field
	var ctors []*Func
	for _, cs := range c.P.allCalls(false) {
		if cs.Callee.Key == kWgAdd && selField(cs.In.Info(), cs.Callee.Recv) == R.FJobWg {
			ctors = appendUnique(ctors, cs.In)
		}
	}
	for _, f := range ctors {
		sr := &seqRule{c: c, rule: rule}
		sr.classify = func(fr *Frame, call *ast.CallExpr, ce *Callee, args []Value) *callEvent {
			if ce.Key == kWgAdd && selField(fr.Fn.Info(), ce.Recv) == R.FJobWg {
				if len(args) == 1 && args[0].S == "1" {
					return &callEvent{Name: "add1", Atomic: true}
				}
				return &callEvent{Name: "add?", Atomic: true}
			}
			return nil
		}
		for _, sg := range sr.segments(f) {
			if sg.Kind != "path" {
				continue
			}
			c.Rep.check(sg.count("add1") == 1 && !sg.has("add?") && c.isConstructor(f), rule, f.Short(), "job WaitGroup not armed exactly once", sg.End, "fresh job, exactly one wg.Add(1)",
				"a job constructor must arm the job's WaitGroup with exactly one Add(1) on a fresh job: ["+strings.Join(sg.Syms, " ")+"]")
		}
	}
	// every single-job type (Wait == job.Wait) is built only by such a constructor
	jobWait := c.methodOf(R.JobT, "Wait")
	for _, f := range c.P.pkgFuncs(modPath) {
		if f.Body == nil {
			continue
		}
		info := f.Info()
		ast.Inspect(f.Body, func(n ast.Node) bool {
			cl, ok := n.(*ast.CompositeLit)
			if !ok {
				return true
			}
			t := info.TypeOf(cl)
			if t == nil || !isJobFamily(t) {
				return true
			}
			obj, _, _ := types.LookupFieldOrMethod(types.NewPointer(t), true, c.P.ByPath[modPath].Types, "Wait")
			fn, _ := obj.(*types.Func)
			if fn == nil || jobWait == nil || funcKey(fn) != jobWait.Key {
				return false // a group type: its Wait waits on the batch counter (the embedded job's WaitGroup is unused)
			}
			// nested literal of an embedded job inside an outer single-job literal is covered by the outer one
			armed := false
			for _, g := range ctors {
				if g == f {
					armed = true
				}
			}
			c.Rep.check(armed, rule, f.Short(), "single job built without arming its WaitGroup", c.P.pos(cl), "built in a constructor that arms the WaitGroup",
				"a job whose Wait() waits on its own WaitGroup is constructed in "+f.Short()+", which never calls wg.Add(1): Wait() would return at once")
			return false
		})
	}
	// NewWgCounter(n): count.Add(uint32(n)) and wg.Add(n) with the same parameter
	if f := c.P.byObj[kNewWgc]; f != nil && f.Type.Params != nil && len(f.Type.Params.List) == 1 && len(f.Type.Params.List[0].Names) == 1 {
		info := f.Info()
		p := info.ObjectOf(f.Type.Params.List[0].Names[0])
		cnt, wg := 0, 0
		for _, cs := range c.P.calls(f) {
			if fk, m := atomicOp(info, cs.Call); strings.HasSuffix(fk, "WgCounter.count") && (m == "Add" || m == "Store") && len(cs.Call.Args) == 1 && rootIdentThroughConv(info, cs.Call.Args[0]) == p {
				cnt++
			}
			if cs.Callee.Key == kWgAdd && len(cs.Call.Args) == 1 && rootIdentThroughConv(info, cs.Call.Args[0]) == p {
				wg++
			}
		}
		c.Rep.check(cnt == 1 && wg == 1, rule, f.Short(), "counter and WaitGroup not armed with the same size", c.P.pos(f.Body), "count and WaitGroup both receive the size parameter once",
			fmt.Sprintf("NewWgCounter must add its size parameter exactly once to the counter (%d) and once to the WaitGroup (%d)", cnt, wg))
	} else {
		c.Rep.undecided(rule, "helpers.NewWgCounter", "missing", "", "NewWgCounter not found")
	}
	// group constructors pass their size to NewWgCounter and NewResponse
	for _, f := range c.P.pkgFuncs(modPath) {
		if f.Body == nil || f.Obj == nil || !c.P.containsCall(f, kNewWgc) {
			continue
		}
		info := f.Info()
		var p types.Object
		if f.Type.Params != nil && len(f.Type.Params.List) == 1 && len(f.Type.Params.List[0].Names) == 1 {
			p = info.ObjectOf(f.Type.Params.List[0].Names[0])
		}
		for _, cs := range c.P.calls(f) {
			if cs.Callee.Key == kNewWgc || cs.Callee.Key == kNewResp {
				good := p != nil && len(cs.Call.Args) == 1 && rootIdentThroughConv(info, cs.Call.Args[0]) == p
				c.Rep.check(good, rule, f.Short(), shortKey(cs.Callee.Key)+" not sized with the batch size", c.P.pos(cs.Call), shortKey(cs.Callee.Key)+" receives the batch size",
					"the group constructor must pass its batch size unchanged to "+shortKey(cs.Callee.Key)+" (a smaller stream blocks the last finishers; a different count never reaches zero)")
			}
		}
		// callers: AddAll passes len(items) of the slice it ranges over
		for _, cs := range c.P.allCalls(false) {
			if cs.Callee.Key != f.Key {
				continue
			}
			ci := cs.In.Info()
			good := false
			if len(cs.Call.Args) == 1 {
				if lc, ok := ast.Unparen(cs.Call.Args[0]).(*ast.CallExpr); ok && resolveCallee(ci, lc).Builtin == "len" && len(lc.Args) == 1 {
					slice := rootIdent(ci, lc.Args[0])
					ast.Inspect(cs.In.Body, func(n ast.Node) bool {
						if rs, ok := n.(*ast.RangeStmt); ok && rootIdent(ci, rs.X) == slice && slice != nil {
							if _, isIdent := ast.Unparen(rs.X).(*ast.Ident); isIdent {
								good = true
							}
						}
						// the index form: for i := 0; i < len(items); i++ { ... items[i] ... }
						if fs, ok := n.(*ast.ForStmt); ok && slice != nil && indexLoopOver(ci, fs, slice) {
							good = true
						}
						return true
					})
				}
			}
			c.Rep.check(good, rule, cs.In.Short(), "batch not sized with len of the ranged slice", c.P.pos(cs.Call), "batch size = len(items) of the slice the loop ranges over",
				"the batch must be created with len(items) of exactly the slice whose items are then submitted (otherwise the batch never completes or completes early)")
		}
	}
}

func rootIdentThroughConv(info *types.Info, e ast.Expr) types.Object {
	e = ast.Unparen(e)
	if call, ok := e.(*ast.CallExpr); ok && len(call.Args) == 1 {
		if resolveCallee(info, call).Conv {
			return rootIdentThroughConv(info, call.Args[0])
		}
	}
	if id, ok := e.(*ast.Ident); ok {
		return info.ObjectOf(id)
	}
	return nil
}

// ruleCloseSiblings checks every Close implementation against the reference
// shape, from each of the five job states. lastOnly restricts the report to
// the last-finisher decision (used by C08).
func (c *Ctx) ruleCloseSiblings(rule string, lastOnly bool) {
	c.Rep.rule(rule, "E3 job table + E6 siblings", "every Close implementation x 5 job states follows the reference: success only from Created/Queued/Finished with ack → compare-and-swap to Closed → exactly one release (→ response closed); errors leave status and waiters untouched", 25)
	t := c.jobCloseTable()
	if len(t.Impls) < 1 {
		c.Rep.undecided(rule, "-", "no Close implementation found", "", "no Close method on a job-family type")
		return
	}
	for _, f := range t.Impls {
		for _, s := range t.States {
			outs := t.cell(f, s)
			if len(outs) == 0 {
				c.Rep.undecided(rule, f.Short(), "no outcome from "+s, c.P.pos(f.Body), "the walker found no path")
				continue
			}
			sawSuccess := false
			for _, o := range outs {
				rel := countOf(o.Effects, "wgdone") + countOf(o.Effects, "wgcdone")
				desc := fmt.Sprintf("%s from %s: %s", f.Short(), s, o)
				switch {
				case o.Final == "Closed" && s != "Closed":
					sawSuccess = true
					ti := -1
					for i, e := range o.Effects {
						if strings.HasPrefix(e, "statuscas:") && strings.HasSuffix(e, ">Closed") {
							ti = i
						}
					}
					good := (s == "Created" || s == "Queued" || s == "Finished") && (o.Err == "nil" || o.Err == "?") && ti >= 0 && rel == 1 &&
						o.idx("ack") >= 0 && o.idx("ack") < ti && !o.has("status:Closed")
					ri := o.idx("wgdone")
					if ri < 0 {
						ri = o.idx("wgcdone")
					}
					good = good && ri > ti
					if o.has("respclose") {
						good = good && o.idx("respclose") > ri && countOf(o.Effects, "respclose") == 1
						if o.has("wgcdone") {
							good = good && o.has("last=true") // a shared stream is closed only by the last finisher
						}
					} else if o.has("wgcdone") && c.sharesResponse(f) {
						good = good && o.has("last=false")
					}
					c.Rep.check(good, rule, f.Short(), "successful Close from "+s+" deviates from the reference", o.End, desc,
						"a successful Close must acknowledge, then win the compare-and-swap to Closed, then release the waiters exactly once, then (result/error kinds) close the response — a shared batch stream only by the finisher that took the counter to zero: "+desc)
				case s == "Processing":
					c.Rep.check(o.Err == "ErrJobProcessing" && o.Final == "Processing" && rel == 0 && !o.has("respclose") && !o.has("ack"), rule, f.Short(), "Close of a processing job", o.End, desc,
						"Close on a processing job must return ErrJobProcessing and touch nothing: "+desc)
				case s == "Closed":
					c.Rep.check(o.Err == "ErrJobAlreadyClosed" && o.Final == "Closed" && rel == 0 && !o.has("respclose") && !o.has("ack"), rule, f.Short(), "Close of a closed job", o.End, desc,
						"Close on a closed job must return ErrJobAlreadyClosed and touch nothing (a second release panics): "+desc)
				default:
					// failed close (refused acknowledgement): nothing released, status unchanged
					c.Rep.check(o.Final == s && rel == 0 && !o.has("respclose") && o.Err != "nil", rule, f.Short(), "failed Close from "+s+" has effects", o.End, desc,
						"a Close that does not reach Closed must leave status and waiters untouched and return an error: "+desc)
				}
			}
			if s == "Created" || s == "Queued" || s == "Finished" {
				c.Rep.check(sawSuccess, rule, f.Short(), "Close cannot succeed from "+s, c.P.pos(f.Body), f.Short()+" from "+s+" can reach Closed", "Close never reaches Closed from "+s+": the handle's waiters would never be released")
			}
		}
	}
}

// sharesResponse: the Close method belongs to a type whose response is shared by a batch (it calls WgCounter.Done and Response.Close).
func (c *Ctx) sharesResponse(f *Func) bool {
	return c.emits(f)["respclose"] && c.emits(f)["wgcdone"]
}

func (c *Ctx) ruleResponse(rule string) {
	c.Rep.rule(rule, "E2", "Response.Send stores before it sends; Response() returns the stored value only on the closed branch; per-job responses have capacity 1", 3)
	resp := modPath + "/internal/helpers.Response"
	fRes, fCh := resp+".res", resp+".ch"
	if send := c.P.byObj[kRespSend]; send != nil {
		sr := &seqRule{c: c, rule: rule}
		sr.visit = func(fr *Frame, n ast.Node) string {
			switch x := n.(type) {
			case *ast.AssignStmt:
				for _, l := range x.Lhs {
					if selField(fr.Fn.Info(), l) == fRes {
						return "store"
					}
				}
			case *ast.SendStmt:
				if selField(fr.Fn.Info(), x.Chan) == fCh {
					return "send"
				}
			}
			return ""
		}
		for _, sg := range sr.segments(send) {
			c.Rep.check(sg.count("store") == 1 && sg.count("send") == 1 && sg.index("store") < sg.index("send"), rule, send.Short(), "Send does not store before sending", sg.End, "value stored, then sent",
				"Response.Send must store the value before sending it (a reader woken by the close would otherwise read a stale stored value): ["+strings.Join(sg.Syms, " ")+"]")
		}
		// both use the parameter
		info := send.Info()
		if send.Type.Params != nil && len(send.Type.Params.List) == 1 && len(send.Type.Params.List[0].Names) == 1 {
			p := info.ObjectOf(send.Type.Params.List[0].Names[0])
			same := true
			ast.Inspect(send.Body, func(n ast.Node) bool {
				switch x := n.(type) {
				case *ast.AssignStmt:
					if len(x.Lhs) == 1 && selField(info, x.Lhs[0]) == fRes && rootIdent(info, x.Rhs[0]) != p {
						same = false
					}
				case *ast.SendStmt:
					if selField(info, x.Chan) == fCh && rootIdent(info, x.Value) != p {
						same = false
					}
				}
				return true
			})
			c.Rep.check(same, rule, send.Short(), "Send stores or sends something other than its argument", c.P.pos(send.Body), "stores and sends its argument", "Response.Send must store and send its own argument")
		}
	} else {
		c.Rep.undecided(rule, "helpers.Response.Send", "missing", "", "Response.Send not found")
	}
	if rf := c.P.byObj[kRespResp]; rf != nil {
		// the value received from the stream is the token "received" (its comma-ok result "receivedok"), a read of the
		// remembered field is the token "stored": Response() returns "received" exactly on the paths where the receive
		// succeeded and "stored" exactly where the channel was found closed — however the branches and helpers are arranged
		sr := &seqRule{c: c, rule: rule}
		sr.exprVal = func(fr *Frame, e ast.Expr) (Value, bool) {
			info := fr.Fn.Info()
			switch x := ast.Unparen(e).(type) {
			case *ast.UnaryExpr:
				if x.Op.String() == "<-" && selField(info, x.X) == fCh {
					return Value{Kind: VTok, S: "received"}, true
				}
			case *ast.SelectorExpr:
				if selField(info, x) == fRes {
					return Value{Kind: VTok, S: "stored"}, true
				}
			}
			return Value{}, false
		}
		sr.condSym = func(fr *Frame, token, rel string) string {
			if token == "receivedok" {
				return "open=" + rel
			}
			return ""
		}
		sr.relevant = func(f *Func) bool { return true }
		n := 0
		for _, sg := range sr.segments(rf) {
			if sg.Kind != "path" {
				continue
			}
			n++
			ret := "other"
			if len(sg.Ret) == 1 && sg.Ret[0].Kind == VTok {
				ret = sg.Ret[0].S
			}
			good := (sg.has("open=true") && ret == "received") || (sg.has("open=false") && ret == "stored")
			c.Rep.check(good, rule, rf.Short(), "Response() returns the wrong value for the channel state", sg.End, "received value while open, stored value once closed",
				"Response() must return the received value when the receive succeeded and the stored value only when the channel is closed: returns "+ret+" ["+strings.Join(sg.Syms, " ")+"]")
		}
		if n == 0 {
			c.Rep.undecided(rule, rf.Short(), "shape", c.P.pos(rf.Body), "Response() has no path")
		}
	}
	// per-job responses: NewResponse(1) in the single-job constructors
	for _, cs := range c.P.allCalls(false) {
		if cs.Callee.Key != kNewResp || cs.In.Pkg.PkgPath != modPath || len(cs.Call.Args) != 1 {
			continue
		}
		if tv := cs.In.Info().Types[cs.Call.Args[0]]; tv.Value != nil {
			c.Rep.check(tv.Value.ExactString() == "1", rule, cs.In.Short(), "per-job response capacity", c.P.pos(cs.Call), "capacity 1: the one result of the job never blocks its sender",
				"a per-job response must have capacity 1 (0 blocks the pool goroutine until somebody reads; it would hold its slot for ever)")
		}
	}
}

// indexLoopOver: fs is `for i := 0; i < len(s); i++ { ... }` over the slice variable s (ascending, every index once).
func indexLoopOver(info *types.Info, fs *ast.ForStmt, s types.Object) bool {
	init, ok := fs.Init.(*ast.AssignStmt)
	if !ok || len(init.Lhs) != 1 || len(init.Rhs) != 1 {
		return false
	}
	iv := rootIdent(info, init.Lhs[0])
	if tv := info.Types[init.Rhs[0]]; iv == nil || tv.Value == nil || tv.Value.ExactString() != "0" {
		return false
	}
	cond, ok := ast.Unparen(fs.Cond).(*ast.BinaryExpr)
	if !ok || cond.Op != token.LSS || rootIdent(info, cond.X) != iv {
		return false
	}
	lc, ok := ast.Unparen(cond.Y).(*ast.CallExpr)
	if !ok || resolveCallee(info, lc).Builtin != "len" || len(lc.Args) != 1 || rootIdent(info, lc.Args[0]) != s {
		// the bound may be a local holding len(s)
		id, isId := ast.Unparen(cond.Y).(*ast.Ident)
		if !isId {
			return false
		}
		_ = id
		return false
	}
	post, ok := fs.Post.(*ast.IncDecStmt)
	return ok && post.Tok == token.INC && rootIdent(info, post.X) == iv
}

// indexLoopVar recognises `for i := 0; i < len(<slice>); i++ {…}` where isSlice accepts the sliced expression (the
// bound may also be a local assigned only from len(<slice>)), and returns i. The body must not assign i.
func indexLoopVar(f *Func, fs *ast.ForStmt, isSlice func(ast.Expr) bool) types.Object {
	info := f.Info()
	init, ok := fs.Init.(*ast.AssignStmt)
	if !ok || len(init.Lhs) != 1 || len(init.Rhs) != 1 || fs.Cond == nil {
		return nil
	}
	iv := rootIdent(info, init.Lhs[0])
	if tv := info.Types[init.Rhs[0]]; iv == nil || tv.Value == nil || tv.Value.ExactString() != "0" {
		return nil
	}
	cond, ok := ast.Unparen(fs.Cond).(*ast.BinaryExpr)
	if !ok || cond.Op != token.LSS || rootIdent(info, cond.X) != iv {
		return nil
	}
	isLen := func(e ast.Expr) bool {
		lc, ok := ast.Unparen(e).(*ast.CallExpr)
		return ok && resolveCallee(info, lc).Builtin == "len" && len(lc.Args) == 1 && isSlice(lc.Args[0])
	}
	if !isLen(cond.Y) {
		id, isId := ast.Unparen(cond.Y).(*ast.Ident)
		if !isId || info.ObjectOf(id) == nil {
			return nil
		}
		all, n := assignedOnlyFrom(f, info.ObjectOf(id), func(r ast.Expr, idx, cnt int) bool { return isLen(r) })
		if !all || n == 0 {
			return nil
		}
	}
	post, ok := fs.Post.(*ast.IncDecStmt)
	if !ok || post.Tok != token.INC || rootIdent(info, post.X) != iv {
		return nil
	}
	clean := true
	ast.Inspect(fs.Body, func(n ast.Node) bool {
		switch x := n.(type) {
		case *ast.AssignStmt:
			for _, l := range x.Lhs {
				if id, ok := ast.Unparen(l).(*ast.Ident); ok && info.ObjectOf(id) == iv {
					clean = false
				}
			}
		case *ast.IncDecStmt:
			if id, ok := ast.Unparen(x.X).(*ast.Ident); ok && info.ObjectOf(id) == iv {
				clean = false
			}
		}
		return true
	})
	if !clean {
		return nil
	}
	return iv
}
