package main

import (
	"fmt"
	"go/ast"
	"go/constant"
	"go/token"
	"go/types"
	"strings"
)

func init() {
	register(&propDef{
		ID: "C07",
		Info: propInfo{
			Technique:   "lexical containment + path analysis + sibling agreement over the three worker-function wrappers",
			Explanation: "Decides the structural part of 'own outcome per handle, panics contained': (R07.1) the user function of NewWorker/NewErrWorker/NewResultWorker is called only lexically inside a function literal passed to utils.WithSafe; WithSafe has a named error result, a deferred literal that calls recover() and assigns that result when the recovered value is non-nil, and calls its argument exactly once; Func/ErrFunc/ResultFunc call the job's function value only behind a nil test; (R07.2) in each wrapper, after WithSafe every path counts exactly one of Failed/Successful; Failed only where the selected error was tested non-nil, together with the worker-level sendError (and the job-level sendError for the error/result kinds); SelectError returns its first non-nil argument; (R07.3) single-job constructors give each job a fresh NewResponse; sendResult/sendError tag the Result with the receiver's own id; Result() returns Data, Err of the value read from the receiver's own response; (R07.4) job id and data are written only in constructors' composite literals; loadJobConfigs seeds the id from the generator and applies the options afterwards; WithJobId(\"\") is a no-op; batch ids go through generateGroupId.",
			NotDecided:  []string{"exactly one of sendResult/sendError per job (needs value correlation between err==nil and the branch inside the closure)", "values: that the payload delivered equals what the user function returned"},
			Assumptions: []string{"recover() semantics"},
		},
		Run: runC07,
	})
}

func runC07(c *Ctx) {
	c.ruleRecoverWrapper("R07.1")
	c.ruleWrapperAccounting("R07.2")
	c.ruleOwnResponse("R07.3")
	c.ruleIdentityImmutable("R07.4")
	c.ruleNoSharedCaptures("R07.5")
	c.ruleErrorAlwaysOffered("R07.6")
	// the outcome is remembered by the sender before it is sent: every reader, however many, sees it
	c.ruleResponse("R07.7")
	// what is stored for a persistent/distributed job is what the worker function later sees
	c.ruleWireType("R07.8")
	// a batch's outcomes never block the pool: its stream holds one slot per item
	c.ruleWhoArms("R07.9")
	// a failure is counted where a job failed — in the worker-function wrappers — and nowhere else (an error that is
	// merely offered on Errs(), e.g. a refused acknowledgement or a dispatcher error, is not a failed job)
	c.Rep.rule("R07.10", "E1 who-may-call", "Failed/Successful are counted only by the worker-function wrappers", 2)
	c.ruleWhoCounts("R07.10")
}

// publicWorkerCtors: exported functions of package varmq whose first parameter is a function (the user's worker function).
func (c *Ctx) publicWorkerCtors() []*Func {
	var out []*Func
	for _, f := range c.P.pkgFuncs(modPath) {
		if f.Obj == nil || !f.Obj.Exported() || f.Decl.Recv != nil || !strings.HasSuffix(f.Obj.Name(), "Worker") {
			continue
		}
		sig := f.Obj.Type().(*types.Signature)
		if sig.Params().Len() == 0 {
			continue
		}
		if _, ok := sig.Params().At(0).Type().Underlying().(*types.Signature); ok {
			out = append(out, f)
		}
	}
	return out
}

// enclosingChain returns the nodes enclosing pos inside root, outermost first.
func enclosingChain(root ast.Node, target ast.Node) []ast.Node {
	var chain, best []ast.Node
	var walk func(n ast.Node) bool
	walk = func(n ast.Node) bool {
		if n == nil {
			return false
		}
		chain = append(chain, n)
		if n == target {
			best = append([]ast.Node(nil), chain...)
		}
		return true
	}
	ast.Inspect(root, func(n ast.Node) bool {
		if n == nil {
			chain = chain[:len(chain)-1]
			return false
		}
		return walk(n)
	})
	return best
}

func (c *Ctx) ruleRecoverWrapper(rule string) {
	c.Rep.rule(rule, "E1 lexical", "user function called only inside a literal passed to WithSafe; WithSafe recovers into its named result and calls its argument once; Func helpers nil-check the job's function", 7)
	ctors := c.publicWorkerCtors()
	if len(ctors) == 0 {
		c.Rep.undecided(rule, "-", "no public worker constructor", "", "no exported New*Worker(fn, ...) found")
	}
	for _, f := range ctors {
		info := f.Info()
		wf := info.ObjectOf(f.Type.Params.List[0].Names[0])
		n := 0
		ast.Inspect(f.Body, func(x ast.Node) bool {
			call, ok := x.(*ast.CallExpr)
			if !ok {
				return true
			}
			id, ok := ast.Unparen(call.Fun).(*ast.Ident)
			if !ok || info.ObjectOf(id) != wf {
				return true
			}
			n++
			chain := enclosingChain(f.Body, call)
			safe := false
			for i := len(chain) - 1; i > 0; i-- {
				lit, ok := chain[i].(*ast.FuncLit)
				if !ok {
					continue
				}
				// the literal must be an argument of a WithSafe call
				if pc, ok := chain[i-1].(*ast.CallExpr); ok && resolveCallee(info, pc).Key == kWithSafe {
					for _, a := range pc.Args {
						if ast.Unparen(a) == lit {
							safe = true
						}
					}
				}
				break // only the innermost literal counts
			}
			c.Rep.check(safe, rule, f.Short(), "user function called outside WithSafe", c.P.pos(call), "user function invoked inside a literal passed to utils.WithSafe",
				"the user's worker function is called outside the recover wrapper: a panic in it kills the pool goroutine (and the process)")
			return true
		})
		// the user function must not escape elsewhere (stored, passed on) except by being called
		uses := 0
		ast.Inspect(f.Body, func(x ast.Node) bool {
			if id, ok := x.(*ast.Ident); ok && info.ObjectOf(id) == wf {
				uses++
			}
			return true
		})
		c.Rep.check(n >= 1 && uses == n, rule, f.Short(), "user function used other than by a guarded call", c.P.pos(f.Body), "every use of the user function is a guarded call",
			fmt.Sprintf("the user's worker function is referenced %d time(s) but called (under WithSafe) %d time(s): it escapes the recover wrapper", uses, n))
	}
	// WithSafe itself
	ws := c.P.byObj[kWithSafe]
	if ws == nil {
		c.Rep.undecided(rule, "utils.WithSafe", "missing", "", "utils.WithSafe not found")
	} else {
		info := ws.Info()
		var named types.Object
		if ws.Type.Results != nil && len(ws.Type.Results.List) == 1 && len(ws.Type.Results.List[0].Names) == 1 {
			named = info.ObjectOf(ws.Type.Results.List[0].Names[0])
		}
		c.Rep.check(named != nil, rule, ws.Short(), "WithSafe has no named error result", c.P.pos(ws.Body), "named error result",
			"WithSafe must have a named error result (a deferred function can only change a named result)")
		recoveredPaths := 0
		// the deferred functions of WithSafe: a literal (assigns the named result) or a named function that is handed the
		// result's address (assigns through that parameter). recover() only stops the panic when the deferred function
		// itself calls it. The error result is assigned on EVERY path of the recovered branch (a type switch without
		// default, an early return, would turn some panics into a nil error: the job is then counted as successful)
		type deferred struct {
			f      *Func
			target func(info *types.Info, lhs ast.Expr) bool
		}
		var ds []deferred
		ast.Inspect(ws.Body, func(x ast.Node) bool {
			if _, ok := x.(*ast.FuncLit); ok {
				return false
			}
			d, ok := x.(*ast.DeferStmt)
			if !ok || named == nil {
				return true
			}
			if lit, ok := ast.Unparen(d.Call.Fun).(*ast.FuncLit); ok {
				if lf := c.P.byLit[lit]; lf != nil {
					ds = append(ds, deferred{lf, func(li *types.Info, lhs ast.Expr) bool {
						id, ok := ast.Unparen(lhs).(*ast.Ident)
						return ok && li.ObjectOf(id) == named
					}})
				}
				return false
			}
			g := c.P.byObj[resolveCallee(info, d.Call).Key]
			if g == nil || g.Body == nil || g.Type.Params == nil {
				return true
			}
			var params []types.Object
			for _, fld := range g.Type.Params.List {
				for _, nm := range fld.Names {
					params = append(params, g.Info().ObjectOf(nm))
				}
			}
			for i, a := range d.Call.Args {
				if u, ok := ast.Unparen(a).(*ast.UnaryExpr); ok && u.Op == token.AND && rootIdent(info, u.X) == named && i < len(params) {
					p := params[i]
					ds = append(ds, deferred{g, func(li *types.Info, lhs ast.Expr) bool {
						st, ok := ast.Unparen(lhs).(*ast.StarExpr)
						if !ok {
							return false
						}
						id, ok := ast.Unparen(st.X).(*ast.Ident)
						return ok && li.ObjectOf(id) == p
					}})
				}
			}
			return true
		})
		for _, d := range ds {
			sr := &seqRule{c: c, rule: rule}
			sr.classify = func(fr *Frame, call *ast.CallExpr, ce *Callee, args []Value) *callEvent {
				if ce.Builtin == "recover" {
					if fr.Caller != nil {
						// called by a function the deferred function calls: returns nil, stops nothing
						return &callEvent{Name: "recover-nested", Atomic: true}
					}
					return &callEvent{Name: "recover", Atomic: true, Results: tok("recovered")}
				}
				return nil
			}
			sr.condSym = func(fr *Frame, token, rel string) string { return token + "=" + rel }
			sr.visit = func(fr *Frame, n ast.Node) string {
				if as, ok := n.(*ast.AssignStmt); ok && fr.Caller == nil {
					for i, l := range as.Lhs {
						if d.target(fr.Fn.Info(), l) && i < len(as.Rhs) && !isNilExpr(fr.Fn.Info(), as.Rhs[i]) {
							return "set-result"
						}
					}
				}
				return ""
			}
			for _, sg := range sr.segments(d.f) {
				if sg.Kind != "path" || !sg.has("recover") {
					continue
				}
				if sg.has("recovered=nonnil") {
					recoveredPaths++
					c.Rep.check(sg.has("set-result"), rule, ws.Short(), "a recovered panic leaves the error result nil on some path", sg.End, "recovered panic ⇒ error result assigned on this path",
						"a path of WithSafe's deferred function recovers a panic (non-nil value) and does not assign the error result: that panic is reported as success ["+strings.Join(sg.Syms, " ")+"]")
				}
			}
		}
		c.Rep.check(recoveredPaths > 0, rule, ws.Short(), "WithSafe does not recover", c.P.pos(ws.Body), "a deferred function literal calls recover() and tests the value",
			"WithSafe has no deferred function literal that calls recover() and distinguishes a recovered panic: a panic in the user function propagates (or is swallowed as success)")
		// fn called exactly once, not inside the deferred literal
		var fnParam types.Object
		for _, fld := range ws.Type.Params.List {
			for _, nm := range fld.Names {
				if _, ok := info.TypeOf(nm).Underlying().(*types.Signature); ok {
					fnParam = info.ObjectOf(nm)
				}
			}
		}
		sr := &seqRule{c: c, rule: rule}
		sr.classify = func(fr *Frame, call *ast.CallExpr, ce *Callee, args []Value) *callEvent {
			if ce.Var != nil && ce.Var == fnParam {
				if fr.Caller == nil {
					return &callEvent{Name: "fn", Atomic: true}
				}
				return &callEvent{Name: "fn-in-defer", Atomic: true}
			}
			return nil
		}
		for _, sg := range sr.segments(ws) {
			if sg.Kind == "path" {
				c.Rep.check(sg.count("fn") == 1 && !sg.has("fn-in-defer"), rule, ws.Short(), "WithSafe does not call its argument exactly once", sg.End, "argument called exactly once", "WithSafe must call its argument exactly once: ["+strings.Join(sg.Syms, " ")+"]")
			}
		}
	}
	// Func / ErrFunc / ResultFunc
	for _, name := range []string{"Func", "ErrFunc", "ResultFunc"} {
		f := c.P.FuncByKey(name)
		if f == nil {
			continue
		}
		for _, lit := range c.P.Funcs {
			if lit.Parent != f || lit.Lit == nil {
				continue
			}
			sr := &seqRule{c: c, rule: rule}
			sr.classify = func(fr *Frame, call *ast.CallExpr, ce *Callee, args []Value) *callEvent {
				if ce.Fn != nil && ce.Fn.Name() == "Data" && ce.Iface {
					return &callEvent{Atomic: true, Results: tok("datafn")}
				}
				if ce.Var != nil && ce.Field == "" {
					return &callEvent{Name: "callfn", Atomic: true}
				}
				return nil
			}
			sr.condSym = func(fr *Frame, token, rel string) string { return token + "=" + rel }
			calls := 0
			for _, sg := range sr.segments(lit) {
				if !sg.has("callfn") {
					continue
				}
				calls++
				c.Rep.check(sg.before("datafn=nonnil", "callfn"), rule, lit.Short(), "job function called without a nil test", sg.End, "function value called behind `fn != nil`",
					name+"() calls the job's function value without testing it for nil first (a nil function panics inside the worker) ["+strings.Join(sg.Syms, " ")+"]")
			}
			if calls == 0 {
				c.Rep.undecided(rule, lit.Short(), "no call of the job's function", c.P.pos(lit.Body), name+"() never calls the function carried by the job")
			}
		}
	}
}

func (c *Ctx) ruleWrapperAccounting(rule string) {
	R := c.R
	c.Rep.rule(rule, "E2+E6", "each wrapper: exactly one of Failed/Successful per invocation; Failed only behind a non-nil error test, with worker-level (and, for error/result jobs, job-level) sendError; SelectError returns its first non-nil argument", 6)
	wrappers := c.fieldFuncTargets(R.FWorkerFn)
	if len(wrappers) == 0 {
		c.Rep.undecided(rule, "-", "no wrapper", "", "cannot find the literals stored in the worker-function field")
	}
	for _, w := range wrappers {
		v := c.vocab([]string{"withsafe", "Failed", "Successful", "senderr", "jobsenderr", "safeerr=", "selerr="}, map[string]bool{"withsafe": true})
		sr := v.seq(rule, false)
		base := sr.classify
		sr.classify = func(fr *Frame, call *ast.CallExpr, ce *Callee, args []Value) *callEvent {
			switch ce.Key {
			case kWithSafe:
				return &callEvent{Name: "withsafe", Atomic: true, Results: tok("safeerr")}
			case kSelectErr:
				return &callEvent{Atomic: true, Results: tok("selerr")}
			}
			return base(fr, call, ce, args)
		}
		// does the job kind of this wrapper have a job-level sendError?
		hasJobErr := false
		if w.Type.Params != nil && len(w.Type.Params.List) == 1 {
			t := w.Info().TypeOf(w.Type.Params.List[0].Type)
			if t != nil {
				ms := types.NewMethodSet(t)
				for i := 0; i < ms.Len(); i++ {
					if ms.At(i).Obj().Name() == "sendError" {
						hasJobErr = true
					}
				}
			}
		}
		n := 0
		for _, sg := range sr.segments(w) {
			if sg.Kind != "path" {
				continue
			}
			n++
			desc := "[" + strings.Join(sg.Syms, " ") + "]"
			failed, succ := sg.count("Failed"), sg.count("Successful")
			c.Rep.check(sg.count("withsafe") == 1 && failed+succ == 1 && sg.index("withsafe") < sg.index("Failed")+sg.index("Successful")+1, rule, w.Short(), "not exactly one of Failed/Successful after WithSafe", sg.End,
				"one WithSafe, then exactly one of Failed/Successful", "every invocation must run the user function under WithSafe once and then count exactly one of Failed/Successful: "+desc)
			if failed == 1 {
				good := (sg.has("safeerr=nonnil") || sg.has("selerr=nonnil")) && sg.has("senderr") && (!hasJobErr || sg.has("jobsenderr"))
				c.Rep.check(good, rule, w.Short(), "failed branch incomplete", sg.End, "Failed behind a non-nil error test, error reported to the worker (and the job)",
					"the Failed branch must be the one where the (selected) error is non-nil and must report it through the worker's sendError (and the job's sendError for error/result jobs): "+desc)
			}
			if succ == 1 {
				c.Rep.check((sg.has("safeerr=nil") || sg.has("selerr=nil")) && !sg.has("senderr") && !sg.has("jobsenderr"), rule, w.Short(), "successful branch wrong", sg.End, "Successful behind a nil error test, no error reported",
					"the Successful branch must be the one where the (selected) error is nil, and must not report an error: "+desc)
			}
		}
		if n == 0 {
			c.Rep.undecided(rule, w.Short(), "no path", c.P.pos(w.Body), "the walker found no path through the wrapper")
		}
	}
	// SelectError: for _, e := range errs { if e != nil { return e } }; return nil
	if se := c.P.byObj[kSelectErr]; se != nil {
		info := se.Info()
		good := false
		if len(se.Body.List) == 2 {
			rs, ok1 := se.Body.List[0].(*ast.RangeStmt)
			ret, ok2 := se.Body.List[1].(*ast.ReturnStmt)
			if ok1 && ok2 && len(ret.Results) == 1 && isNilExpr(info, ret.Results[0]) && len(rs.Body.List) == 1 && rs.Value != nil {
				if ifs, ok := rs.Body.List[0].(*ast.IfStmt); ok && ifs.Else == nil && len(ifs.Body.List) == 1 {
					be, op := binOp(ifs.Cond)
					v := rootIdent(info, rs.Value)
					if be != nil && op == token.NEQ && rootIdent(info, be.X) == v && isNilExpr(info, be.Y) {
						if r, ok := ifs.Body.List[0].(*ast.ReturnStmt); ok && len(r.Results) == 1 && rootIdent(info, r.Results[0]) == v {
							if p := rootIdent(info, rs.X); p != nil && isParamOf(se, p) {
								good = true
							}
						}
					}
				}
			}
		}
		c.Rep.check(good, rule, se.Short(), "SelectError does not return its first non-nil argument", c.P.pos(se.Body), "range over the arguments, return the first non-nil, else nil",
			"SelectError must return the first non-nil of its arguments (the panic error first), else nil")
	}
}

func (c *Ctx) ruleOwnResponse(rule string) {
	R := c.R
	c.Rep.rule(rule, "E2", "fresh response per single job; results tagged with the receiver's own id; Result() reads the receiver's own response", 5)
	// single-job constructors: composite literals whose Response key is set in a function that also arms the job WaitGroup
	for _, f := range c.P.pkgFuncs(modPath) {
		if f.Body == nil {
			continue
		}
		info := f.Info()
		arms := false
		for _, cs := range c.P.calls(f) {
			if cs.Callee.Key == kWgAdd && selField(info, cs.Callee.Recv) == R.FJobWg {
				arms = true
			}
		}
		ast.Inspect(f.Body, func(n ast.Node) bool {
			cl, ok := n.(*ast.CompositeLit)
			if !ok {
				return true
			}
			for _, el := range cl.Elts {
				kvx, ok := el.(*ast.KeyValueExpr)
				if !ok {
					continue
				}
				key, _ := kvx.Key.(*ast.Ident)
				if key == nil || key.Name != "Response" || !isNamed(info.TypeOf(kvx.Value), modPath+"/internal/helpers.Response") {
					continue
				}
				isNew := func(e ast.Expr) bool {
					call, isCall := ast.Unparen(e).(*ast.CallExpr)
					return isCall && resolveCallee(info, call).Key == kNewResp
				}
				fresh := isNew(kvx.Value)
				if id, ok := ast.Unparen(kvx.Value).(*ast.Ident); ok && !fresh {
					// a local of this function that only ever holds a response created here
					if v, ok := info.ObjectOf(id).(*types.Var); ok && !isParamOf(f, v) && v.Pos() > f.Body.Pos() && v.Pos() < f.Body.End() {
						all, n := assignedOnlyFrom(f, v, func(r ast.Expr, idx, cnt int) bool { return isNew(r) })
						fresh = all && n > 0
					}
				}
				if arms {
					c.Rep.check(fresh, rule, f.Short(), "single job without a fresh response", c.P.pos(kvx), "Response: NewResponse(...) per job", "a single job must get its own fresh response (a shared one delivers another job's outcome)")
				} else if !fresh {
					// batch member: shares the batch's stream, which must be the receiver's
					c.Rep.check(c.isReceiverField(f, kvx.Value), rule, f.Short(), "batch member's stream is not the batch's own", c.P.pos(kvx), "batch member shares its own batch's stream", "a batch member must share the stream of the batch it belongs to")
				}
			}
			return true
		})
	}
	// Result{JobId: rj.id}
	n := 0
	for _, f := range c.P.pkgFuncs(modPath) {
		if f.Body == nil || f.Decl == nil || f.Decl.Recv == nil {
			continue
		}
		info := f.Info()
		ast.Inspect(f.Body, func(x ast.Node) bool {
			cl, ok := x.(*ast.CompositeLit)
			if !ok || qualTypeName(info.TypeOf(cl)) != modPath+".Result" {
				return true
			}
			n++
			good := false
			for _, el := range cl.Elts {
				if kvx, ok := el.(*ast.KeyValueExpr); ok {
					if key, _ := kvx.Key.(*ast.Ident); key != nil && key.Name == "JobId" {
						good = selField(info, kvx.Value) == R.FJobId && c.isReceiverField(f, kvx.Value)
					}
				}
			}
			c.Rep.check(good, rule, f.Short(), "result not tagged with the job's own id", c.P.pos(cl), "Result.JobId = receiver's id", "a Result must carry the id of the job that produced it (JobId taken from the receiver's own id field)")
			return true
		})
	}
	if n == 0 {
		c.Rep.undecided(rule, "-", "no Result literal", "", "no Result{...} literal found in the job methods")
	}
	// Result(): value read from the receiver's own response
	for _, f := range c.P.pkgFuncs(modPath) {
		if f.Obj == nil || f.Obj.Name() != "Result" || f.Decl.Recv == nil {
			continue
		}
		info := f.Info()
		var v types.Object
		ast.Inspect(f.Body, func(x ast.Node) bool {
			if as, ok := x.(*ast.AssignStmt); ok && len(as.Lhs) == 1 && len(as.Rhs) == 1 {
				if call, ok := ast.Unparen(as.Rhs[0]).(*ast.CallExpr); ok && resolveCallee(info, call).Key == kRespResp {
					if sel, ok := ast.Unparen(call.Fun).(*ast.SelectorExpr); ok && c.isReceiverField(f, sel.X) {
						v = rootIdent(info, as.Lhs[0])
					}
				}
			}
			return true
		})
		good := false
		ast.Inspect(f.Body, func(x ast.Node) bool {
			if ret, ok := x.(*ast.ReturnStmt); ok && len(ret.Results) == 2 && v != nil {
				s0, ok0 := ast.Unparen(ret.Results[0]).(*ast.SelectorExpr)
				s1, ok1 := ast.Unparen(ret.Results[1]).(*ast.SelectorExpr)
				if ok0 && ok1 && rootIdent(info, s0.X) == v && rootIdent(info, s1.X) == v && s0.Sel.Name == "Data" && s1.Sel.Name == "Err" {
					good = true
				}
			}
			return true
		})
		c.Rep.check(good, rule, f.Short(), "Result() does not return Data, Err of its own response", c.P.pos(f.Body), "returns Data, Err of the value read from the receiver's response", "Result() must return the Data and Err of the value read from the receiver's own response")
	}
}

// isReceiverField: e is a selector chain rooted at the method's receiver.
func (c *Ctx) isReceiverField(f *Func, e ast.Expr) bool {
	if f.Decl == nil || f.Decl.Recv == nil || len(f.Decl.Recv.List) != 1 || len(f.Decl.Recv.List[0].Names) != 1 {
		return false
	}
	recv := f.Info().ObjectOf(f.Decl.Recv.List[0].Names[0])
	return rootIdent(f.Info(), e) == recv
}

func (c *Ctx) ruleIdentityImmutable(rule string) {
	R := c.R
	c.Rep.rule(rule, "E4 field table + E2", "job id/data written only in constructors' literals; id = generator then options; WithJobId(\"\") no-op; batch ids through generateGroupId", 5)
	lf := c.lockFacts()
	for _, fk := range []string{R.FJobId, R.FJobData} {
		bad := 0
		for _, a := range lf.Accesses {
			if a.Field == fk && a.Write && !a.Private {
				bad++
				c.Rep.fail(rule, a.Fn.Short(), "write to "+shortKey(fk)+" after construction", c.P.posOf(a.Pos), shortKey(fk)+" is assigned outside a constructor: a handle could report another job's identity/payload")
			}
		}
		if bad == 0 {
			c.Rep.ok(rule, shortKey(fk)+" is written only in composite literals of fresh jobs", "", "field access table", true)
		}
	}
	// loadJobConfigs: Id seeded from the generator, options applied afterwards
	if f := c.P.FuncByKey("loadJobConfigs"); f != nil {
		sr := &seqRule{c: c, rule: rule}
		sr.classify = func(fr *Frame, call *ast.CallExpr, ce *Callee, args []Value) *callEvent {
			if ce.Field == modPath+".configs.jobIdGenerator" {
				return &callEvent{Name: "generate", Atomic: true}
			}
			if qualTypeName(fr.Fn.Info().TypeOf(call.Fun)) == modPath+".JobConfigFunc" {
				return &callEvent{Name: "option", Atomic: true}
			}
			return nil
		}
		for _, sg := range sr.segments(f) {
			if sg.Kind == "path" {
				c.Rep.check(sg.count("generate") == 1 && sg.index("generate") == 0, rule, f.Short(), "id not seeded from the generator first", sg.End, "generator first, options after", "loadJobConfigs must seed the id from the worker's generator before applying the job options ["+strings.Join(sg.Syms, " ")+"]")
			} else if sg.has("option") {
				c.Rep.ok(rule, f.Short()+": options applied in the loop after the generator", sg.End, "iteration applies one option", true)
			}
		}
	} else {
		c.Rep.undecided(rule, "loadJobConfigs", "missing", "", "loadJobConfigs not found")
	}
	// job configs are built only by loadJobConfigs (generator, then options) and by the decoder
	parseF := c.P.FuncByKey("parseToJob")
	loadF := c.P.FuncByKey("loadJobConfigs")
	for _, f := range c.P.pkgFuncs(modPath) {
		if f.Body == nil {
			continue
		}
		ast.Inspect(f.Body, func(x ast.Node) bool {
			cl, ok := x.(*ast.CompositeLit)
			if !ok || qualTypeName(f.Info().TypeOf(cl)) != modPath+".jobConfigs" {
				return true
			}
			c.Rep.check(f == loadF || f == parseF, rule, f.Short(), "job configs built outside loadJobConfigs", c.P.pos(cl), "jobConfigs literal in loadJobConfigs / the decoder",
				"a jobConfigs value is built by hand in "+f.Short()+": the worker's id generator (and the WithJobId rule) are bypassed, so jobs without an explicit id lose the generated one")
			return true
		})
	}
	// job options are applied only inside loadJobConfigs, and every job gets its own freshly loaded configs, loaded
	// from the configuration of the worker the queue is bound to
	c.ruleJobConfigsPerJob(rule, loadF)
	c.ruleDefaultConfigsUnreachable(rule, loadF)
	// WithJobId: assignment behind id != ""
	if f := c.P.FuncByKey("WithJobId"); f != nil {
		for _, lit := range c.P.Funcs {
			if lit.Parent != f || lit.Lit == nil {
				continue
			}
			info := lit.Info()
			idParam := f.Info().ObjectOf(f.Type.Params.List[0].Names[0])
			// the id stored is the id given: the parameter is never rewritten (trimmed, lower-cased, defaulted) on the way
			rewritten := ""
			ast.Inspect(f.Body, func(x ast.Node) bool {
				switch st := x.(type) {
				case *ast.AssignStmt:
					for _, l := range st.Lhs {
						if id, ok := ast.Unparen(l).(*ast.Ident); ok && f.Info().ObjectOf(id) == idParam {
							rewritten = c.P.pos(st)
						}
					}
				case *ast.UnaryExpr:
					if st.Op == token.AND && rootIdent(f.Info(), st.X) == idParam {
						rewritten = c.P.pos(st)
					}
				}
				return true
			})
			c.Rep.check(rewritten == "", rule, f.Short(), "WithJobId rewrites the id it was given", c.P.pos(f.Body), "the id parameter is never assigned",
				"WithJobId changes the id it was given before storing it (at "+rewritten+"): the job does not carry the ID chosen with WithJobId, and what the consumer of a persistent or distributed queue receives differs from what was submitted")
			sr := &seqRule{c: c, rule: rule}
			sr.visit = func(fr *Frame, n ast.Node) string {
				if as, ok := n.(*ast.AssignStmt); ok {
					for i, l := range as.Lhs {
						if selField(info, l) == modPath+".jobConfigs.Id" {
							if i < len(as.Rhs) {
								if id, ok := ast.Unparen(as.Rhs[i]).(*ast.Ident); ok && info.ObjectOf(id) == idParam {
									return "set-id"
								}
							}
							return "set-other"
						}
					}
				}
				return ""
			}
			sr.condExpr = func(fr *Frame, e ast.Expr, branch bool, ip *Interp, st *State) string {
				be, op := binOp(e)
				if be == nil || (op != token.EQL && op != token.NEQ) {
					return ""
				}
				x, y := be.X, be.Y
				if rootIdent(info, y) == idParam {
					x, y = y, x
				}
				if rootIdent(info, x) != idParam {
					return ""
				}
				if tv := info.Types[y]; tv.Value == nil || tv.Value.ExactString() != `""` {
					return ""
				}
				return fmt.Sprintf("empty=%v", (op == token.EQL) == branch)
			}
			for _, sg := range sr.segments(lit) {
				if sg.Kind != "path" {
					continue
				}
				good := !sg.has("set-other") && (!sg.has("set-id") || sg.before("empty=false", "set-id")) && (!sg.has("empty=true") || !sg.has("set-id")) && (!sg.has("empty=false") || sg.has("set-id"))
				c.Rep.check(good, rule, lit.Short(), "WithJobId does not set exactly a non-empty id", sg.End, "non-empty id assigned, empty id ignored", "WithJobId must assign the given id when it is non-empty and leave the generated id alone when it is empty ["+strings.Join(sg.Syms, " ")+"]")
			}
		}
	}
	// job literals: id from configs.Id or generateGroupId(config.Id); data from the data parameter
	n := 0
	for _, f := range c.P.pkgFuncs(modPath) {
		if f.Body == nil {
			continue
		}
		info := f.Info()
		ast.Inspect(f.Body, func(x ast.Node) bool {
			cl, ok := x.(*ast.CompositeLit)
			if !ok || namedOf(info.TypeOf(cl)) == nil || namedOf(info.TypeOf(cl)).Origin() != R.JobT {
				return true
			}
			for _, el := range cl.Elts {
				kvx, ok := el.(*ast.KeyValueExpr)
				if !ok {
					continue
				}
				key, _ := kvx.Key.(*ast.Ident)
				if key == nil {
					continue
				}
				switch R.JobT.Obj().Pkg().Path() + "." + R.JobT.Obj().Name() + "." + key.Name {
				case R.FJobId:
					n++
					src := ast.Unparen(kvx.Value)
					if call, ok := src.(*ast.CallExpr); ok && len(call.Args) == 1 {
						// a batch member's id is the configured id decorated by a helper: the helper must map distinct ids
						// to distinct ids, the same way for every input (constant text around its argument)
						if g := c.P.byObj[resolveCallee(info, call).Key]; g != nil && g.Lib && g.Body != nil {
							shape, why := c.idDecoration(g)
							c.Rep.check(shape != "", rule, g.Short(), "batch id is not a fixed decoration of the item's id", c.P.pos(g.Body), "returns constant text around its argument on every path",
								g.Short()+" derives a batch member's job id from the configured id, but not as the same constant decoration of it on every path ("+why+"): some ids are rewritten differently from others, so the job does not carry the id chosen for it and two items can end up with one id")
							src = ast.Unparen(call.Args[0])
						}
					}
					good := selField(info, src) == modPath+".jobConfigs.Id" && isParamOf(f, rootIdent(info, src))
					c.Rep.check(good, rule, f.Short(), "job id not taken from the job configs", c.P.pos(kvx), "id = configs.Id (of the constructor's parameter)", "a job's id must come from the jobConfigs passed to its constructor (WithJobId / generator)")
				case R.FJobData:
					n++
					o := rootIdent(info, kvx.Value)
					c.Rep.check(o != nil && isParamOf(f, o), rule, f.Short(), "job data not taken from the constructor's parameter", c.P.pos(kvx), "data = the constructor's data parameter", "a job's data must be the value passed to its constructor")
				}
			}
			return true
		})
	}
	if n == 0 {
		c.Rep.undecided(rule, "-", "no job literal", "", "no composite literal of the job struct sets id or data")
	}
}

// ruleErrorAlwaysOffered: every failure that reaches sendError is offered on the error channel: every path of the
// function reaches the (non-blocking) send. A path that returns early on some condition (the worker's status, a
// counter) silently drops failures in that condition.
func (c *Ctx) ruleErrorAlwaysOffered(rule string) {
	R := c.R
	c.Rep.rule(rule, "E2 must-pass-through", "every path of sendError reaches the send on the error channel", 1)
	if R.SendErr == nil {
		return
	}
	v := c.vocab([]string{"send(err)"}, nil)
	n := 0
	for _, sg := range v.seq(rule, false).segments(R.SendErr) {
		if sg.Kind != "path" {
			continue
		}
		n++
	}
	// the select is non-blocking: paths through its default clause do not perform the send but did offer it. What has
	// to be excluded is a return that is not preceded by the select statement at all.
	var sel *ast.SelectStmt
	ast.Inspect(R.SendErr.Body, func(nd ast.Node) bool {
		if s, ok := nd.(*ast.SelectStmt); ok && sel == nil {
			for _, cl := range s.Body.List {
				if cc, ok := cl.(*ast.CommClause); ok {
					if snd, ok := cc.Comm.(*ast.SendStmt); ok && selField(R.SendErr.Info(), snd.Chan) == R.FErr {
						sel = s
					}
				}
			}
		}
		return true
	})
	if !c.Rep.check(sel != nil, rule, R.SendErr.Short(), "no send on the error channel", c.P.pos(R.SendErr.Body), "a select offers the error on the error channel", "sendError has no select that sends on the error channel") {
		return
	}
	// the select is a top-level statement of the body and no return statement precedes it
	top := false
	for _, st := range R.SendErr.Body.List {
		if st == ast.Stmt(sel) {
			top = true
			break
		}
		early := false
		if is, ok := st.(*ast.IfStmt); ok && is.Else == nil {
			// `if w.errorChan == nil { return }`: nothing to offer to
			if be, ok := ast.Unparen(is.Cond).(*ast.BinaryExpr); ok && be.Op == token.EQL {
				info := R.SendErr.Info()
				if (selField(info, be.X) == R.FErr && info.Types[be.Y].IsNil()) || (selField(info, be.Y) == R.FErr && info.Types[be.X].IsNil()) {
					continue
				}
			}
		}
		ast.Inspect(st, func(nd ast.Node) bool {
			switch nd.(type) {
			case *ast.FuncLit:
				return false
			case *ast.ReturnStmt:
				early = true
			}
			return true
		})
		if es, ok := st.(*ast.ExprStmt); ok {
			if call, ok := es.X.(*ast.CallExpr); ok && resolveCallee(R.SendErr.Info(), call).Builtin == "panic" {
				early = true
			}
		}
		c.Rep.check(!early, rule, R.SendErr.Short(), "sendError returns before offering the error", c.P.pos(st), "no return before the select",
			"sendError returns on some condition before it offers the error on the channel: failures that occur in that condition (e.g. while the worker is pausing or stopping, when jobs are still in flight) never appear on Errs()")
	}
	c.Rep.check(top, rule, R.SendErr.Short(), "the send is conditional", c.P.pos(sel), "the select is reached on every path", "the select that offers the error is nested in a conditional: some failures are not offered on Errs()")
	_ = n
}

// ruleJobConfigsPerJob: (a) a JobConfigFunc is only ever invoked by loadJobConfigs; (b) wherever a jobConfigs value is
// passed on (to a job constructor), it is the result of a loadJobConfigs call made for that job: the call itself, or a
// variable assigned from such a call inside the same loop iteration; (c) in a method of a queue that is bound to a
// worker, the configuration handed to loadJobConfigs is that worker's (its id generator), not a default one.
func (c *Ctx) ruleJobConfigsPerJob(rule string, loadF *Func) {
	if loadF == nil {
		return
	}
	R := c.R
	isLoad := func(info *types.Info, e ast.Expr) *ast.CallExpr {
		call, ok := ast.Unparen(e).(*ast.CallExpr)
		if ok && resolveCallee(info, call).Key == loadF.Key {
			return call
		}
		return nil
	}
	for _, f := range c.P.pkgFuncs(modPath) {
		if f.Body == nil || f == loadF {
			continue
		}
		info := f.Info()
		// loops of f, to find the innermost one around a node
		type span struct{ lo, hi token.Pos }
		var loops []span
		ast.Inspect(f.Body, func(n ast.Node) bool {
			switch x := n.(type) {
			case *ast.ForStmt:
				loops = append(loops, span{x.Body.Pos(), x.Body.End()})
			case *ast.RangeStmt:
				loops = append(loops, span{x.Body.Pos(), x.Body.End()})
			}
			return true
		})
		inner := func(p token.Pos) span {
			best := span{}
			for _, l := range loops {
				if l.lo <= p && p < l.hi && (best.lo == 0 || l.lo > best.lo) {
					best = l
				}
			}
			return best
		}
		ast.Inspect(f.Body, func(n ast.Node) bool {
			call, ok := n.(*ast.CallExpr)
			if !ok {
				return true
			}
			if tv, ok := info.Types[call.Fun]; ok && !tv.IsType() && qualTypeName(tv.Type) == modPath+".JobConfigFunc" {
				c.Rep.fail(rule, f.Short(), "job option applied outside loadJobConfigs", c.P.pos(call), f.Short()+" applies a job option itself: options are applied by loadJobConfigs to the fresh configs of one job (a configs value patched in place carries the previous job's id over when the option is a no-op, e.g. WithJobId(\"\"))")
				return true
			}
			if call2 := isLoad(info, call); call2 != nil && len(call2.Args) >= 1 {
				// (c) source of the configuration
				if recvW := c.boundWorkerOf(f); recvW {
					src := ast.Unparen(call2.Args[0])
					good := false
					if sc, ok := src.(*ast.CallExpr); ok {
						if ce := resolveCallee(info, sc); ce.Fn != nil && ce.Fn.Name() == "configs" && ce.Recv != nil && c.isWorkerType(info.TypeOf(ce.Recv)) {
							good = true
						}
					}
					if selField(info, src) == R.FConfigs && R.FConfigs != "" {
						good = true
					}
					// cfg := q.w.configs() read once into a local (the configuration never changes after construction)
					if id, ok := src.(*ast.Ident); ok && !good {
						if obj := info.ObjectOf(id); obj != nil {
							all, n := assignedOnlyFrom(f, obj, func(rhs ast.Expr, idx, cnt int) bool {
								if sc, ok := ast.Unparen(rhs).(*ast.CallExpr); ok {
									ce := resolveCallee(info, sc)
									return ce.Fn != nil && ce.Fn.Name() == "configs" && ce.Recv != nil && c.isWorkerType(info.TypeOf(ce.Recv))
								}
								return selField(info, rhs) == R.FConfigs && R.FConfigs != ""
							})
							good = all && n > 0
						}
					}
					c.Rep.check(good, rule, f.Short(), "job configs not loaded from the bound worker's configuration", c.P.pos(call2), "loadJobConfigs(<bound worker>.configs(), ...)",
						f.Short()+" belongs to a queue that is bound to a worker but loads the job configs from "+types.ExprString(src)+": the worker's job id generator is not consulted, jobs without an explicit id get the default (empty) one")
				}
				return true
			}
			if ce := resolveCallee(info, call); ce.Builtin != "" {
				return true
			}
			for _, a := range call.Args {
				if qualTypeName(info.TypeOf(a)) != modPath+".jobConfigs" {
					continue
				}
				if _, isLit := ast.Unparen(a).(*ast.CompositeLit); isLit {
					continue // who may build a literal is checked above
				}
				if isLoad(info, a) != nil {
					c.Rep.ok(rule, f.Short()+": job configs loaded for this job", c.P.pos(a), "argument is a loadJobConfigs call", true)
					continue
				}
				good := false
				if id, ok := ast.Unparen(a).(*ast.Ident); ok {
					if obj := info.ObjectOf(id); obj != nil {
						here := inner(call.Pos())
						all, cnt := true, 0
						ast.Inspect(f.Body, func(m ast.Node) bool {
							as, ok := m.(*ast.AssignStmt)
							if !ok {
								return true
							}
							for i, l := range as.Lhs {
								if lid, ok := l.(*ast.Ident); ok && info.ObjectOf(lid) == obj {
									cnt++
									if len(as.Rhs) != len(as.Lhs) || isLoad(info, as.Rhs[i]) == nil || inner(as.Pos()) != here {
										all = false
									}
								}
							}
							return true
						})
						if p, isParam := obj.(*types.Var); isParam && cnt == 0 && p.Pos() < f.Body.Pos() {
							good = true // a parameter: the caller is checked at its own call site
						} else {
							good = all && cnt > 0
						}
					}
				}
				c.Rep.check(good, rule, f.Short(), "job configs not loaded per job", c.P.pos(a), "configs variable assigned from loadJobConfigs in the same iteration",
					f.Short()+" passes a jobConfigs value that was not loaded for this job (loaded once outside the loop, or built elsewhere): the id generator runs once per batch and ids leak from one item to the next")
			}
			return true
		})
	}
}

// ruleDefaultConfigsUnreachable: a function that loads job configs from a default configuration (legitimate for a
// distributed producer, which has no worker) is not reachable from a method of a queue that is bound to a worker.
func (c *Ctx) ruleDefaultConfigsUnreachable(rule string, loadF *Func) {
	if loadF == nil {
		return
	}
	R := c.R
	defaults := map[*Func]bool{}
	for _, cs := range c.P.allCalls(false) {
		if cs.Callee.Key != loadF.Key || len(cs.Call.Args) == 0 || cs.In.Pkg.PkgPath != modPath {
			continue
		}
		info := cs.In.Info()
		src := ast.Unparen(cs.Call.Args[0])
		fromWorker := selField(info, src) == R.FConfigs && R.FConfigs != ""
		if sc, ok := src.(*ast.CallExpr); ok {
			if ce := resolveCallee(info, sc); ce.Fn != nil && ce.Fn.Name() == "configs" && ce.Recv != nil && c.isWorkerType(info.TypeOf(ce.Recv)) {
				fromWorker = true
			}
		}
		if !fromWorker {
			defaults[cs.In.Root()] = true
		}
	}
	// propagate to callers
	for changed := true; changed; {
		changed = false
		for _, cs := range c.P.allCalls(false) {
			if cs.In.Pkg.PkgPath != modPath {
				continue
			}
			g := c.P.byObj[cs.Callee.Key]
			if g == nil || !defaults[g] {
				continue
			}
			in := cs.In.Root()
			if c.boundWorkerOf(in) {
				c.Rep.fail(rule, in.Short(), "job built from a default configuration", c.P.pos(cs.Call),
					in.Short()+" belongs to a queue bound to a worker but builds its job through "+g.Short()+", which loads the job configs from a default configuration: the worker's job id generator is not consulted")
				continue
			}
			if !defaults[in] {
				defaults[in] = true
				changed = true
			}
		}
	}
}

// isWorkerType: the worker struct (possibly behind a pointer) or the library's Worker interface.
func (c *Ctx) isWorkerType(t types.Type) bool {
	n := namedOf(t)
	if n == nil {
		return false
	}
	return n.Obj() == c.R.WorkerT.Obj() || qualTypeName(n) == modPath+".Worker"
}

// boundWorkerOf: f is a method whose receiver (through embedded structs) has a field of type *worker.
func (c *Ctx) boundWorkerOf(f *Func) bool {
	if f.Obj == nil {
		return false
	}
	sig, _ := f.Obj.Type().(*types.Signature)
	if sig == nil || sig.Recv() == nil {
		return false
	}
	var has func(t types.Type, depth int) bool
	has = func(t types.Type, depth int) bool {
		if depth > 4 {
			return false
		}
		if p, ok := t.Underlying().(*types.Pointer); ok {
			t = p.Elem()
		}
		if c.isWorkerType(t) {
			return true
		}
		st, ok := t.Underlying().(*types.Struct)
		if !ok {
			return false
		}
		for i := 0; i < st.NumFields(); i++ {
			fl := st.Field(i)
			ft := fl.Type()
			if p, ok := ft.Underlying().(*types.Pointer); ok {
				ft = p.Elem()
			}
			if c.isWorkerType(ft) {
				return true
			}
			if fl.Embedded() && has(fl.Type(), depth+1) {
				return true
			}
		}
		return false
	}
	return has(sig.Recv().Type(), 0)
}

// idDecoration: g(id string) string returns, on every path, the concatenation of constant strings and its parameter
// (exactly once), the same on every path. Returns the shape ("g:" + «id») or "" and the reason.
func (c *Ctx) idDecoration(g *Func) (string, string) {
	info := g.Info()
	var param types.Object
	if g.Type.Params != nil && len(g.Type.Params.List) == 1 && len(g.Type.Params.List[0].Names) == 1 {
		param = info.ObjectOf(g.Type.Params.List[0].Names[0])
	}
	if param == nil {
		return "", "not a function of one named parameter"
	}
	var leaves func(e ast.Expr, depth int) ([]string, bool)
	leaves = func(e ast.Expr, depth int) ([]string, bool) {
		e = ast.Unparen(e)
		if tv := info.Types[e]; tv.Value != nil && tv.Value.Kind() == constant.String {
			return []string{constant.StringVal(tv.Value)}, true
		}
		switch x := e.(type) {
		case *ast.Ident:
			obj := info.ObjectOf(x)
			if obj == param {
				return []string{"\x00"}, true
			}
			if v, ok := obj.(*types.Var); ok && depth > 0 && !v.IsField() {
				var only ast.Expr
				cnt := 0
				all, n := assignedOnlyFrom(g, v, func(r ast.Expr, idx, total int) bool { only = r; cnt++; return true })
				if all && n == 1 && cnt == 1 {
					return leaves(only, depth-1)
				}
			}
		case *ast.BinaryExpr:
			if x.Op == token.ADD {
				l, ok1 := leaves(x.X, depth)
				r, ok2 := leaves(x.Y, depth)
				if ok1 && ok2 {
					return append(l, r...), true
				}
			}
		case *ast.CallExpr:
			ce := resolveCallee(info, x)
			if ce.Conv && len(x.Args) == 1 {
				return leaves(x.Args[0], depth)
			}
			if ce.Key == "fmt.Sprintf" && len(x.Args) >= 1 {
				tv := info.Types[x.Args[0]]
				if tv.Value == nil || tv.Value.Kind() != constant.String {
					return nil, false
				}
				format := constant.StringVal(tv.Value)
				var out []string
				arg := 1
				for i := 0; i < len(format); i++ {
					if format[i] != '%' {
						out = append(out, string(format[i]))
						continue
					}
					if i+1 >= len(format) {
						return nil, false
					}
					i++
					switch format[i] {
					case '%':
						out = append(out, "%")
					case 's', 'v':
						if arg >= len(x.Args) {
							return nil, false
						}
						l, ok := leaves(x.Args[arg], depth)
						if !ok {
							return nil, false
						}
						out = append(out, l...)
						arg++
					default:
						return nil, false
					}
				}
				if arg != len(x.Args) {
					return nil, false
				}
				return out, true
			}
		}
		return nil, false
	}
	shape := ""
	why := ""
	nret := 0
	ast.Inspect(g.Body, func(n ast.Node) bool {
		if _, ok := n.(*ast.FuncLit); ok {
			return false
		}
		ret, ok := n.(*ast.ReturnStmt)
		if !ok {
			return true
		}
		nret++
		if len(ret.Results) != 1 {
			why = "a return without exactly one result"
			return true
		}
		l, ok := leaves(ret.Results[0], 2)
		if !ok {
			why = "`return " + types.ExprString(ret.Results[0]) + "` is not a concatenation of constant text and the parameter"
			return true
		}
		sh := strings.Join(l, "")
		if strings.Count(sh, "\x00") != 1 {
			why = "`return " + types.ExprString(ret.Results[0]) + "` does not contain the parameter exactly once"
			return true
		}
		sh = strings.Replace(sh, "\x00", "«id»", 1)
		if shape != "" && shape != sh {
			why = "paths return differently decorated ids (" + shape + " / " + sh + ")"
			return true
		}
		shape = sh
		return true
	})
	if why != "" || nret == 0 {
		if why == "" {
			why = "no return"
		}
		return "", why
	}
	return shape, ""
}

// ruleWorkerFuncSynchronous: the completion of a job (Finished, Close → acknowledge, Wait released, slot freed) runs
// when the function stored as the worker function returns. That function is the library's wrapper around the user's
// function, so "after the worker function has returned" holds only if the wrapper runs the user's function
// synchronously: every function literal between the wrapper and the call of the user's function is handed to a callee
// that calls it before returning (utils.WithSafe), never started with `go` or handed to a callee that runs it in a
// goroutine, and the user's function is not referenced otherwise.
func (c *Ctx) ruleWorkerFuncSynchronous(rule string) {
	c.Rep.rule(rule, "E1 lexical + callee summary", "the wrappers run the user's worker function synchronously: it has returned when the wrapper returns", 3)
	ctors := c.publicWorkerCtors()
	if len(ctors) == 0 {
		c.Rep.undecided(rule, "-", "no public worker constructor", "", "no exported New*Worker(fn, ...) found")
	}
	// does g call its parameter number idx synchronously on every use (directly, not under go / in a literal)?
	callsParamSync := func(g *Func, idx int) bool {
		var params []types.Object
		if g.Type.Params != nil {
			for _, fld := range g.Type.Params.List {
				for _, nm := range fld.Names {
					params = append(params, g.Info().ObjectOf(nm))
				}
			}
		}
		if idx >= len(params) || g.Body == nil {
			return false
		}
		p := params[idx]
		calls, others := 0, 0
		var walk func(n ast.Node, async bool)
		walk = func(n ast.Node, async bool) {
			ast.Inspect(n, func(x ast.Node) bool {
				switch y := x.(type) {
				case *ast.GoStmt:
					walk(y.Call, true)
					return false
				case *ast.FuncLit:
					if x != n {
						walk(y.Body, true) // when the literal runs is not known here
						return false
					}
				case *ast.CallExpr:
					if id, ok := ast.Unparen(y.Fun).(*ast.Ident); ok && g.Info().ObjectOf(id) == p {
						if async {
							others++
						} else {
							calls++
						}
						for _, a := range y.Args {
							walk(a, async)
						}
						return false
					}
				case *ast.Ident:
					if g.Info().ObjectOf(y) == p {
						others++
					}
				}
				return true
			})
		}
		walk(g.Body, false)
		return calls >= 1 && others == 0
	}
	for _, f := range ctors {
		info := f.Info()
		wf := info.ObjectOf(f.Type.Params.List[0].Names[0])
		n := 0
		ast.Inspect(f.Body, func(x ast.Node) bool {
			call, ok := x.(*ast.CallExpr)
			if !ok {
				return true
			}
			id, ok := ast.Unparen(call.Fun).(*ast.Ident)
			if !ok || info.ObjectOf(id) != wf {
				return true
			}
			n++
			chain := enclosingChain(f.Body, call)
			why := ""
			lits := 0
			for i := len(chain) - 1; i > 0; i-- {
				if _, isGo := chain[i].(*ast.GoStmt); isGo {
					why = "it is called in a goroutine started at " + c.P.pos(chain[i])
				}
				lit, ok := chain[i].(*ast.FuncLit)
				if !ok {
					continue
				}
				lits++
				pc, isArg := chain[i-1].(*ast.CallExpr)
				if !isArg {
					if _, isGo := chain[i-1].(*ast.GoStmt); isGo || i-1 == 0 {
						continue
					}
					// a literal bound to a variable or stored: when it runs is not known
					why = "the literal around it (at " + c.P.pos(lit) + ") is not handed directly to the function that runs it"
					continue
				}
				idx := -1
				for k, a := range pc.Args {
					if ast.Unparen(a) == ast.Expr(lit) {
						idx = k
					}
				}
				if idx < 0 {
					continue // the literal is the function being called: runs here
				}
				g := c.P.byObj[resolveCallee(info, pc).Key]
				if g != nil && g.Lib && callsParamSync(g, idx) {
					continue
				}
				if g != nil && g.Lib && !callsParamSync(g, idx) {
					// the outermost literal is the wrapper itself, stored as the worker function by the constructor
					if c.storesParamAsWorkerFunc(g, idx) {
						continue
					}
					why = "the literal around it is handed to " + g.Short() + ", which does not simply call it before returning (it runs it in a goroutine or keeps it)"
				}
			}
			c.Rep.check(why == "", rule, f.Short(), "user function not run synchronously by the wrapper", c.P.pos(call), "the wrapper returns only after the user's function returned",
				"the wrapper that "+f.Short()+" installs as the worker function can return before the user's function has returned ("+why+"): the job is marked Finished/Closed, acknowledged to the adapter and its Wait released while its function is still running")
			return true
		})
		if n == 0 {
			c.Rep.undecided(rule, f.Short(), "no call of the user function", c.P.pos(f.Body), "the constructor never calls its function argument")
		}
	}
}

// storesParamAsWorkerFunc: g (or a constructor it forwards to) stores its parameter number idx in the worker-function
// field.
func (c *Ctx) storesParamAsWorkerFunc(g *Func, idx int) bool {
	R := c.R
	seen := map[*Func]bool{}
	var visit func(g *Func, idx int, depth int) bool
	visit = func(g *Func, idx int, depth int) bool {
		if g == nil || g.Body == nil || seen[g] || depth < 0 {
			return false
		}
		seen[g] = true
		var params []types.Object
		if g.Type.Params != nil {
			for _, fld := range g.Type.Params.List {
				for _, nm := range fld.Names {
					params = append(params, g.Info().ObjectOf(nm))
				}
			}
		}
		if idx >= len(params) {
			return false
		}
		p := params[idx]
		found := false
		ast.Inspect(g.Body, func(n ast.Node) bool {
			switch x := n.(type) {
			case *ast.KeyValueExpr:
				if key, ok := x.Key.(*ast.Ident); ok && R.FWorkerFn != "" && strings.HasSuffix(R.FWorkerFn, "."+key.Name) && rootIdent(g.Info(), x.Value) == p {
					found = true
				}
			case *ast.AssignStmt:
				for i, l := range x.Lhs {
					if selField(g.Info(), l) == R.FWorkerFn && i < len(x.Rhs) && rootIdent(g.Info(), x.Rhs[i]) == p {
						found = true
					}
				}
			case *ast.CallExpr:
				for k, a := range x.Args {
					if id, ok := ast.Unparen(a).(*ast.Ident); ok && g.Info().ObjectOf(id) == p {
						if h := c.P.byObj[resolveCallee(g.Info(), x).Key]; h != nil && h.Lib && visit(h, k, depth-1) {
							found = true
						}
					}
				}
			}
			return true
		})
		return found
	}
	return visit(g, idx, 3)
}
