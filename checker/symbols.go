package main

// Common vocabulary: maps resolved calls and nodes to role symbols shared by
// the path rules. Everything is keyed on resolved callees, struct fields and
// constant values, never on source text.

import (
	"go/ast"
	"go/constant"
	"go/token"
	"go/types"
	"strings"
)

// statusTable maps the exported status strings of a Status() method to the
// constant values its switch associates with them (and back).
type statusTable struct {
	ByName map[string]string // "Queued" -> "1"
	ByVal  map[string]string // "1" -> "Queued"
	Func   *Func
}

// extractStatusTable reads `switch x.Load() { case c: return "Name" ... }`.
func extractStatusTable(f *Func) *statusTable {
	t := &statusTable{ByName: map[string]string{}, ByVal: map[string]string{}, Func: f}
	if f == nil {
		return t
	}
	ast.Inspect(f.Body, func(n ast.Node) bool {
		sw, ok := n.(*ast.SwitchStmt)
		if !ok {
			return true
		}
		for _, cc := range sw.Body.List {
			clause := cc.(*ast.CaseClause)
			if len(clause.Body) != 1 {
				continue
			}
			ret, ok := clause.Body[0].(*ast.ReturnStmt)
			if !ok || len(ret.Results) != 1 {
				continue
			}
			tv := f.Info().Types[ret.Results[0]]
			if tv.Value == nil || tv.Value.Kind() != constant.String {
				continue
			}
			name := constant.StringVal(tv.Value)
			for _, ce := range clause.List {
				if cv := f.Info().Types[ce].Value; cv != nil {
					t.ByName[name] = cv.ExactString()
					t.ByVal[cv.ExactString()] = name
				}
			}
		}
		return false
	})
	return t
}

func (c *Ctx) methodOf(t *types.Named, name string) *Func {
	for _, f := range c.P.pkgFuncs(modPath) {
		if f.Obj == nil || f.Obj.Name() != name || f.Decl.Recv == nil {
			continue
		}
		if n := namedOf(f.Obj.Type().(*types.Signature).Recv().Type()); n != nil && n.Origin() == t {
			return f
		}
	}
	return nil
}

func (c *Ctx) jobStatus() *statusTable {
	if c.jobSt == nil {
		c.jobSt = extractStatusTable(c.methodOf(c.R.JobT, "Status"))
	}
	return c.jobSt
}

func (c *Ctx) workerStatus() *statusTable {
	if c.workerSt == nil {
		c.workerSt = extractStatusTable(c.methodOf(c.R.WorkerT, "Status"))
	}
	return c.workerSt
}

// isJobFamily reports whether t is one of the job kinds: a type (or type
// parameter / interface) whose method set contains the package's unexported
// changeStatus method.
func isJobFamily(t types.Type) bool {
	if t == nil {
		return false
	}
	if tp, ok := t.(*types.TypeParam); ok {
		t = tp.Constraint()
	}
	for _, tt := range []types.Type{t, types.NewPointer(t)} {
		ms := types.NewMethodSet(tt)
		for i := 0; i < ms.Len(); i++ {
			o := ms.At(i).Obj()
			if o.Name() == "changeStatus" && o.Pkg() != nil && o.Pkg().Path() == modPath {
				return true
			}
		}
	}
	return false
}

func recvType(info *types.Info, call *ast.CallExpr) types.Type {
	if sel, ok := ast.Unparen(call.Fun).(*ast.SelectorExpr); ok {
		if s, ok := info.Selections[sel]; ok {
			return s.Recv()
		}
	}
	return nil
}

// jobMethod returns the method name if call is a method call on a job-family
// receiver (concrete, interface or type parameter).
func jobMethod(info *types.Info, call *ast.CallExpr, c *Callee) string {
	if c.Fn == nil {
		return ""
	}
	if rt := recvType(info, call); rt != nil && isJobFamily(rt) {
		return c.Fn.Name()
	}
	return ""
}

// sym classifies a call into the shared vocabulary ("" = not in it). atomic
// reports whether the callee should be treated as a primitive.
func (c *Ctx) sym(fr *Frame, call *ast.CallExpr, ce *Callee, args []Value) (string, bool) {
	info := fr.Fn.Info()
	R := c.R
	if ce.Key != "" && ce.Key == c.jsonKey() {
		return "json", true
	}
	if pf := c.P.FuncByKey("parseToJob"); pf != nil && ce.Key == pf.Key {
		return "parse", true
	}
	if nk := c.queueNextKey(); nk != "" && ce.Key == nk {
		return "nextq", true
	}
	switch ce.Key {
	case kDequeue, kDequeueAck:
		return "deq", true
	case kEnqueueQ, kEnqueuePQ:
		return "enq", true
	case kAck:
		return "Acknowledge", true
	case kPurgeI:
		return "qpurge", true
	case kValuesI:
		return "qvalues", true
	case kSubscribe:
		return "subscribe", true
	case kRegister:
		return "register", true
	case kNodeSend:
		return "send", true
	case kNodeStop:
		return "stop", true
	case kNodeServe:
		return "serve", true
	case kPopBack, kPopFront:
		return "pop", true
	case kPushNode:
		return "push", true
	case kRemove:
		return "remove", true
	case kNodeSlice:
		return "nodeslice", true
	case kPoolGet:
		return "cacheget", true
	case kPoolPut:
		return "cacheput", true
	case kBroadcast, kSignal:
		return "broadcast", true
	case kCondWait:
		return "condwait", true
	case kWgcDone:
		return "wgcdone", true
	case kWgcCount:
		return "wgccount", true
	case kRespClose:
		return "respclose", true
	case kRespSend:
		return "respsend", true
	case kWgDone:
		return "wgdone", true
	case kWgAdd:
		return "wgadd", true
	case kWithSafe:
		return "withsafe", false
	case "time.Ticker.Stop":
		return "tickerstop", true
	}
	if R.NotifyKeys[ce.Key] {
		return "notify", true
	}
	if R.SendErrKeys[ce.Key] {
		return "senderr", true
	}
	for m, keys := range R.MetricKeys {
		if keys[ce.Key] {
			return strings.TrimPrefix(m, "inc"), true // Submitted, Completed, Successful, Failed
		}
	}
	if ce.Field == R.FWorkerFn && ce.Field != "" {
		return "wf", true
	}
	if ce.Field == R.FCancel && ce.Field != "" {
		return "cancel", true
	}
	if ce.Var != nil && ce.Field == "" && R.FCancel != "" && isNamed(ce.Var.Type(), "context.CancelFunc") {
		// a local copy of the worker's cancel function (read under the lock)
		if f := c.P.enclosing(ce.Var.Pos()); f != nil {
			if ok, n := assignedOnlyFrom(f, ce.Var, func(rhs ast.Expr, idx, cnt int) bool {
				return selField(f.Info(), rhs) == R.FCancel || c.isAccessorCall(f.Info(), rhs, R.FCancel)
			}); ok && n > 0 {
				return "cancel", true
			}
		}
	}
	if fk, m := atomicOp(info, call); fk != "" {
		switch fk {
		case R.FInflight:
			if m == "Add" && len(args) == 1 {
				if args[0].S == "1" {
					return "inflight+", true
				}
				return "inflight-", true
			}
			if m == "Load" {
				return "inflight?", true
			}
			return "inflight:" + m, true
		case R.FLimit:
			if m == "Store" {
				return "limit=", true
			}
		case R.FStatus:
			if m == "Store" && len(args) == 1 {
				return "wstatus:" + c.workerStatus().ByVal[args[0].S], true
			}
			if m == "Load" {
				return "wstatus?", true
			}
			return "wstatus:" + m, true
		case R.FJobStatus:
			if m == "Store" && len(args) == 1 {
				return "status:" + c.jobStatus().ByVal[args[0].S], true
			}
			if m == "CompareAndSwap" && len(args) == 2 {
				return "statuscas:" + c.jobStatus().ByVal[args[0].S] + ">" + c.jobStatus().ByVal[args[1].S], true
			}
			if m == "Load" {
				return "status?", true
			}
			return "status:" + m, true
		}
	}
	if m := jobMethod(info, call, ce); m != "" {
		switch m {
		case "Close":
			return "close", false
		case "IsClosed":
			return "isclosed", false
		case "changeStatus":
			if len(args) == 1 {
				return "status:" + c.jobStatus().ByVal[args[0].S], true
			}
			return "status:?", true
		case "ack":
			return "ack", false
		case "setAckId":
			return "setack", true
		case "setInternalQueue":
			return "setqueue", true
		case "sendError":
			return "jobsenderr", true
		case "sendResult":
			return "jobsendresult", true
		case "isCloseable":
			return "iscloseable", false
		}
		if c.isGate(m) {
			return "gate", true
		}
	}
	if ce.Builtin == "close" && len(call.Args) == 1 {
		switch selField(info, call.Args[0]) {
		case R.FSignal:
			return "close(signal)", true
		case R.FErr:
			return "close(err)", true
		}
		return "close(chan)", true
	}
	if f := c.P.byObj[ce.Key]; f != nil {
		switch f {
		case R.HandOff:
			return "handoff", false
		case R.Release:
			return "release", false
		case R.Step:
			return "step", false
		case R.NodeFactory:
			return "newnode", false
		case R.FreeNode:
			return "freenode", false
		case R.CloseChans:
			return "closechans", false
		case R.StopTickers:
			return "stoptickers", false
		case R.StopAll:
			return "stopall", false
		case R.WaitFn:
			return "wait", false
		case R.Start:
			return "start", false
		case R.SpawnDisp:
			return "spawn:dispatcher", false
		case R.SpawnReaper:
			return "spawn:reaper?", false
		case R.SpawnListen:
			return "spawn:listener?", false
		}
	}
	return "", false
}

// visitSym classifies non-call nodes: sends, assignments to the worker's
// channels/context, go statements of the known goroutines.
func (c *Ctx) visitSym(fr *Frame, n ast.Node) string {
	info := fr.Fn.Info()
	R := c.R
	switch x := n.(type) {
	case *ast.SendStmt:
		switch selField(info, x.Chan) {
		case R.FSignal:
			return "send(signal)"
		case R.FErr:
			return "send(err)"
		}
	case *ast.AssignStmt:
		for i, l := range x.Lhs {
			fk := selField(info, l)
			if fk == "" {
				continue
			}
			var rhs ast.Expr
			if len(x.Rhs) == len(x.Lhs) {
				rhs = x.Rhs[i]
			} else if len(x.Rhs) == 1 {
				rhs = x.Rhs[0]
			}
			kind := "set"
			if rhs != nil {
				if tv, ok := info.Types[rhs]; ok && tv.IsNil() {
					kind = "nil"
				} else if call, ok := ast.Unparen(rhs).(*ast.CallExpr); ok {
					if ce := resolveCallee(info, call); ce.Builtin == "make" {
						kind = "make"
					} else if ce.Key == "context.WithCancel" {
						kind = "withcancel"
					}
				}
			}
			switch fk {
			case R.FSignal:
				return kind + "(signal)"
			case R.FErr:
				return kind + "(err)"
			case R.FCtx, R.FCancel:
				return kind + "(ctx)"
			case R.FTickers:
				return kind + "(tickers)"
			}
		}
	case *ast.UnaryExpr:
		// a receive from the dispatcher's exit channel (directly or through a local copy of the field) joins it
		if x.Op == token.ARROW && R.FDispDone != "" {
			if selField(info, x.X) == R.FDispDone {
				return "joindisp"
			}
			if id, ok := ast.Unparen(x.X).(*ast.Ident); ok {
				if obj := info.ObjectOf(id); obj != nil {
					if all, n := assignedOnlyFrom(fr.Fn, obj, func(rhs ast.Expr, idx, cnt int) bool { return selField(info, rhs) == R.FDispDone }); all && n > 0 {
						return "joindisp"
					}
				}
			}
		}
	case *ast.GoStmt:
		if lit, ok := ast.Unparen(x.Call.Fun).(*ast.FuncLit); ok {
			switch c.P.byLit[lit] {
			case R.DispLoop:
				return "go:dispatcher"
			case R.Reaper:
				return "go:reaper"
			case R.Listener:
				return "go:listener"
			}
			return "go:literal"
		}
		ce := resolveCallee(info, x.Call)
		if ce.Key == kNodeServe {
			return "go:serve"
		}
		for name, f := range map[string]*Func{"go:dispatcher": R.DispLoop, "go:reaper": R.Reaper, "go:listener": R.Listener} {
			if f != nil && f.Lit == nil && ce.Key == f.Key {
				return name
			}
		}
		return "go:" + ce.String()
	}
	return ""
}

// standard classifier built from sym with an atomicity override.
func (c *Ctx) classifier(atomic map[string]bool, drop map[string]bool) func(fr *Frame, call *ast.CallExpr, ce *Callee, args []Value) *callEvent {
	return func(fr *Frame, call *ast.CallExpr, ce *Callee, args []Value) *callEvent {
		s, at := c.sym(fr, call, ce, args)
		if s == "" || drop[s] {
			return nil
		}
		if v, ok := atomic[s]; ok {
			at = v
		}
		ev := &callEvent{Name: s, Atomic: at}
		switch s {
		case "deq":
			ev.Results = []Value{{Kind: VTok, S: "deqval"}, {Kind: VTok, S: "deqok"}, {Kind: VTok, S: "ackid"}}
		case "enq":
			ev.Results = tok("enqok")
		case "json":
			ev.Results = []Value{{Kind: VTok, S: "jsonval"}, {Kind: VTok, S: "jsonerr"}}
		case "nextq":
			ev.Results = []Value{{Kind: VTok, S: "nextq"}, {Kind: VTok, S: "nexterr"}}
		case "parse":
			// the decoded job is "this delivery" only if what was decoded is this delivery's value
			res := "parsed:other"
			if len(args) == 1 && args[0].Kind == VTok && args[0].S == "deqval" {
				res = "parsed"
			}
			ev.Results = []Value{{Kind: VTok, S: res}, {Kind: VTok, S: "perr"}}
		case "isclosed":
			if at {
				ev.Results = tok("closed")
			}
		case "remove":
			ev.Results = tok("removed")
		case "pop":
			ev.Results = tok("popped")
		case "wgcdone":
			ev.Results = tok("last")
		case "gate":
			ev.Results = tok("gate")
		}
		return ev
	}
}

func isNilExpr(info *types.Info, e ast.Expr) bool {
	tv, ok := info.Types[e]
	return ok && tv.IsNil()
}

func binOp(e ast.Expr) (*ast.BinaryExpr, token.Token) {
	if be, ok := ast.Unparen(e).(*ast.BinaryExpr); ok {
		return be, be.Op
	}
	return nil, token.ILLEGAL
}

// isGate: the named job method moves the status to Processing with a
// compare-and-swap and reports whether it won (the atomic form of "skip the
// job if it was closed, else mark it processing").
func (c *Ctx) isGate(name string) bool {
	if c.cache == nil {
		c.cache = map[string]any{}
	}
	if v, ok := c.cache["gate:"+name]; ok {
		return v.(bool)
	}
	res := false
	if f := c.methodOf(c.R.JobT, name); f != nil && f.Obj.Type().(*types.Signature).Results().Len() == 1 {
		procVal := c.jobStatus().ByName["Processing"]
		ast.Inspect(f.Body, func(n ast.Node) bool {
			call, ok := n.(*ast.CallExpr)
			if !ok {
				return true
			}
			if fk, m := atomicOp(f.Info(), call); fk == c.R.FJobStatus && m == "CompareAndSwap" && len(call.Args) == 2 {
				if tv := f.Info().Types[call.Args[1]]; tv.Value != nil && tv.Value.ExactString() == procVal {
					res = true
				}
			}
			return true
		})
	}
	c.cache["gate:"+name] = res
	return res
}

func coarse(sym string) string {
	if i := strings.Index(sym, ":"); i >= 0 {
		return sym[:i+1]
	}
	return sym
}

// emits returns the (coarse) symbols f may perform, transitively through
// library callees and its own function literals (MAY summary).
func (c *Ctx) emits(f *Func) map[string]bool { return c.emitsMode(f, false) }

// emitsSync is emits without spawn edges: bodies that only run in a goroutine
// started by f (go statements) are not followed.
func (c *Ctx) emitsSync(f *Func) map[string]bool { return c.emitsMode(f, true) }

func (c *Ctx) emitsMode(f *Func, sync bool) map[string]bool {
	if c.cache == nil {
		c.cache = map[string]any{}
	}
	ck := "emits:"
	if sync {
		ck = "emitsSync:"
	}
	if m, ok := c.cache[ck+f.Key]; ok {
		return m.(map[string]bool)
	}
	out := map[string]bool{}
	c.cache[ck+f.Key] = out // cycle guard: partial result
	goLits := map[*ast.FuncLit]bool{}
	goCalls := map[*ast.CallExpr]bool{}
	if sync {
		for _, g := range c.P.Funcs {
			if g.Body == nil {
				continue
			}
			ast.Inspect(g.Body, func(n ast.Node) bool {
				if gs, ok := n.(*ast.GoStmt); ok {
					goCalls[gs.Call] = true
					if lit, ok := ast.Unparen(gs.Call.Fun).(*ast.FuncLit); ok {
						goLits[lit] = true
					}
					for _, a := range gs.Call.Args {
						if lit, ok := ast.Unparen(a).(*ast.FuncLit); ok {
							goLits[lit] = true
						} else if id, ok := ast.Unparen(a).(*ast.Ident); ok {
							// a local bound to a function literal and handed to the goroutine
							if obj := g.Info().ObjectOf(id); obj != nil {
								assignedOnlyFrom(g, obj, func(rhs ast.Expr, idx, cnt int) bool {
									if l, ok := ast.Unparen(rhs).(*ast.FuncLit); ok {
										goLits[l] = true
									}
									return true
								})
							}
						}
					}
				}
				return true
			})
		}
	}
	var bodies []*Func
	bodies = append(bodies, f)
	for _, g := range c.P.Funcs {
		skip := false
		for p := g; p != nil && p != f; p = p.Parent {
			if p.Lit != nil && goLits[p.Lit] {
				skip = true
			}
		}
		if skip {
			continue
		}
		for p := g.Parent; p != nil; p = p.Parent {
			if p == f {
				bodies = append(bodies, g)
				break
			}
		}
	}
	for _, g := range bodies {
		fr := &Frame{Fn: g}
		ast.Inspect(g.Body, func(n ast.Node) bool {
			switch x := n.(type) {
			case *ast.FuncLit:
				return false
			case *ast.CallExpr:
				if goCalls[x] {
					return false
				}
				ce := resolveCallee(g.Info(), x)
				var args []Value
				for _, a := range x.Args {
					v := unknown
					if tv, ok := g.Info().Types[a]; ok && tv.Value != nil {
						v = constValue(tv.Value)
					}
					args = append(args, v)
				}
				if s, _ := c.sym(fr, x, ce, args); s != "" {
					out[s] = true
					out[coarse(s)] = true
				}
				var targets []*Func
				if ce.Iface {
					targets = c.P.implementationsIn(g, ce)
				} else if t := c.P.byObj[ce.Key]; t != nil && t.Lib {
					targets = []*Func{t}
				}
				for _, t := range targets {
					if t == f {
						continue
					}
					for s := range c.emitsMode(t, sync) {
						out[s] = true
					}
				}
			case *ast.SendStmt, *ast.AssignStmt, *ast.GoStmt, *ast.UnaryExpr:
				if s := c.visitSym(fr, x); s != "" {
					out[s] = true
					out[coarse(s)] = true
				}
			}
			return true
		})
	}
	return out
}

// vocab builds the classifier, visit function and relevance filter of a rule
// that cares about the given symbols only (full symbols or coarse "x:"
// prefixes). atomic overrides the default atomicity of a symbol.
type vocab struct {
	c      *Ctx
	keep   map[string]bool
	atomic map[string]bool
	also   map[string]bool // symbols that make a callee worth inlining without being recorded
}

func (c *Ctx) vocab(keep []string, atomic map[string]bool) *vocab {
	v := &vocab{c: c, keep: map[string]bool{}, atomic: atomic}
	for _, k := range keep {
		v.keep[k] = true
	}
	// a rule that records conditions on result tokens ("ackid=", "popped=nil", ...) needs the calls producing them
	// to be seen even when they sit in a helper the rule has no other interest in
	producers := map[string]string{"ackid": "deq", "deqval": "deq", "deqok": "deq", "enqok": "enq", "closed": "isclosed", "removed": "remove", "popped": "pop", "jsonerr": "json", "jsonval": "json", "perr": "parse", "parsed": "parse"}
	for _, k := range keep {
		if i := strings.Index(k, "="); i > 0 {
			if p := producers[k[:i]]; p != "" && !v.keep[p] {
				if v.also == nil {
					v.also = map[string]bool{}
				}
				v.also[p] = true
			}
		}
	}
	return v
}

func (v *vocab) wants(s string) bool { return v.keep[s] || v.keep[coarse(s)] }

func (v *vocab) classify(fr *Frame, call *ast.CallExpr, ce *Callee, args []Value) *callEvent {
	ev := v.c.classifier(v.atomic, nil)(fr, call, ce, args)
	if ev == nil {
		return nil
	}
	if !v.wants(ev.Name) {
		if ev.Atomic {
			// an irrelevant primitive: nothing to record, nothing inside; its
			// result tokens are still produced so that later conditions on
			// them can be recognised
			if _, forced := v.atomic[ev.Name]; forced || ev.Results != nil {
				return &callEvent{Atomic: true, Results: ev.Results}
			}
		}
		return nil
	}
	return ev
}

func (v *vocab) visit(fr *Frame, n ast.Node) string {
	if s := v.c.visitSym(fr, n); s != "" && v.wants(s) {
		return s
	}
	return ""
}

func (v *vocab) relevant(f *Func) bool {
	for s := range v.c.emits(f) {
		if v.keep[s] || v.also[s] {
			return true
		}
	}
	// a pure leaf helper (closeErrorOf(status), statusFromName(name), ...) computes a value from its arguments:
	// inlining it costs nothing and keeps the value known
	return v.c.isPureLeaf(f)
}

// isPureLeaf: a small function of the library that calls nothing (but builtins, conversions and error constructors),
// touches no field, channel or goroutine: its result depends on its arguments only.
func (c *Ctx) isPureLeaf(f *Func) bool {
	if c.cache == nil {
		c.cache = map[string]any{}
	}
	if v, ok := c.cache["pureleaf:"+f.Key]; ok {
		return v.(bool)
	}
	pure := f.Body != nil && f.Lib && f.Decl != nil
	if pure {
		info := f.Info()
		ast.Inspect(f.Body, func(n ast.Node) bool {
			switch x := n.(type) {
			case *ast.CallExpr:
				ce := resolveCallee(info, x)
				switch {
				case ce.Builtin != "", ce.Conv:
				case ce.Key == "errors.New" || ce.Key == "fmt.Errorf" || ce.Key == "fmt.Sprintf":
				default:
					pure = false
				}
			case *ast.GoStmt, *ast.SendStmt, *ast.DeferStmt, *ast.SelectStmt, *ast.FuncLit:
				pure = false
			case *ast.UnaryExpr:
				if x.Op == token.ARROW {
					pure = false
				}
			case *ast.SelectorExpr:
				if _, isField := info.Selections[x]; isField {
					pure = false
				}
			}
			return pure
		})
	}
	c.cache["pureleaf:"+f.Key] = pure
	return pure
}

func (v *vocab) seq(rule string, cut bool) *seqRule {
	return &seqRule{c: v.c, rule: rule, classify: v.classify, visit: v.visit, relevant: v.relevant, cutLoops: cut,
		condSym: func(fr *Frame, token, rel string) string {
			if v.wants(token+"=") || v.wants(token+"="+rel) {
				return token + "=" + rel
			}
			return ""
		}}
}

// queueNextKey: the queue manager's selector method (returns the queue to dequeue from and an error).
func (c *Ctx) queueNextKey() string {
	if v, ok := c.cache["queueNextKey"]; ok {
		return v.(string)
	}
	if c.cache == nil {
		c.cache = map[string]any{}
	}
	key := ""
	if c.R != nil && c.R.Step != nil {
		for _, f := range c.P.pkgFuncs(modPath) {
			if f.Obj == nil || f.Decl.Recv == nil || f.Obj.Name() != "next" {
				continue
			}
			if qualTypeName(f.Obj.Type().(*types.Signature).Recv().Type()) == modPath+".queueManager" {
				key = f.Key
			}
		}
	}
	c.cache["queueNextKey"] = key
	return key
}

// isAccessorCall: e calls a function of the module every return of which hands back the field fk of its receiver
// (a getter, typically reading under the lock).
func (c *Ctx) isAccessorCall(info *types.Info, e ast.Expr, fk string) bool {
	call, ok := ast.Unparen(e).(*ast.CallExpr)
	if !ok {
		return false
	}
	g := c.P.byObj[resolveCallee(info, call).Key]
	if g == nil || g.Body == nil || !g.Lib {
		return false
	}
	n, all := 0, true
	ast.Inspect(g.Body, func(x ast.Node) bool {
		switch r := x.(type) {
		case *ast.FuncLit:
			return false
		case *ast.ReturnStmt:
			n++
			if len(r.Results) != 1 || selField(g.Info(), r.Results[0]) != fk {
				all = false
			}
		}
		return true
	})
	return all && n > 0
}
