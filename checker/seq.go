package main

// Path-sequence extraction: every path of a function (callees inlined) is
// reduced to the sequence of rule-relevant symbols it performs; loops are cut
// into per-iteration segments. Rules are then predicates over the finite set
// of segments, and the evidence can show the sequences themselves.

import (
	"fmt"
	"go/ast"
	"strings"
)

type Segment struct {
	Kind string   // "path": entry to a normal exit, loops summarised as loop@pos | "iter": one iteration of the loop at Loop
	Loop string   // position of the loop an "iter" segment belongs to
	Exit bool     // the segment ends by leaving the function
	How  string   // "next": ended at the next evaluation of the loop head; "done": left the loop (condition false or break); "exit": left the function
	Syms []string // symbols in execution order
	End  string   // position of the exit / loop
	Ret  []Value
	T    string // final value of the tracked status field ("" when not tracked)
}

func (s Segment) String() string { return s.Kind + ": " + strings.Join(s.Syms, " ") }

func (s Segment) has(sym string) bool { return s.count(sym) > 0 }

func (s Segment) count(sym string) int {
	n := 0
	for _, x := range s.Syms {
		if x == sym {
			n++
		}
	}
	return n
}

func (s Segment) index(sym string) int {
	for i, x := range s.Syms {
		if x == sym {
			return i
		}
	}
	return -1
}

func (s Segment) lastIndex(sym string) int {
	for i := len(s.Syms) - 1; i >= 0; i-- {
		if s.Syms[i] == sym {
			return i
		}
	}
	return -1
}

// before reports whether every occurrence of b is preceded by some a.
func (s Segment) before(a, b string) bool {
	seenA := false
	for _, x := range s.Syms {
		if x == a {
			seenA = true
		}
		if x == b && !seenA {
			return false
		}
	}
	return true
}

// followedBy reports whether after the last a there is a b.
func (s Segment) followedBy(a, b string) bool {
	i := s.lastIndex(a)
	if i < 0 {
		return true
	}
	for _, x := range s.Syms[i+1:] {
		if x == b {
			return true
		}
	}
	return false
}

type seqRule struct {
	c          *Ctx
	rule       string
	classify   func(fr *Frame, call *ast.CallExpr, c *Callee, args []Value) *callEvent
	visit      func(fr *Frame, n ast.Node) string
	condSym    func(fr *Frame, token, rel string) string
	condExpr   func(fr *Frame, e ast.Expr, branch bool, ip *Interp, st *State) string
	noInline   func(f *Func) bool
	relevant   func(f *Func) bool
	cutLoops   bool // (unused: every loop is cut into per-iteration segments)
	maxDepth   int
	trackField string
	trackAny   []string
	loadSyms   bool
	exprVal    func(fr *Frame, e ast.Expr) (Value, bool)
	exprValSt  func(ip *Interp, fr *Frame, st *State, e ast.Expr) (Value, bool)
	litElem    func(ip *Interp, fr *Frame, st *State, lit *ast.CompositeLit, key string, v Value) *State
	fieldStore func(ip *Interp, fr *Frame, st *State, sel *ast.SelectorExpr, v Value) *State
	init       kv
	args       []Value
}

func (sr *seqRule) segments(root *Func) []Segment {
	var segs []Segment
	seen := map[string]bool{}
	// state keys: "seq" symbols of the current straight-line piece; "stk"
	// stack of enclosing loops "pos~prefix" joined by "|"; "T" tracked status
	emit := func(kind, loop string, seqStr string, s kv, end string, ret []Value, exit bool, how string) {
		var syms []string
		for _, x := range strings.Fields(strings.ReplaceAll(seqStr, ",", " ")) {
			if !strings.HasPrefix(x, "__retry@") {
				syms = append(syms, x)
			}
		}
		key := kind + "|" + loop + "|" + strings.Join(syms, ",") + "|" + valsKey(ret) + "|" + s.get("T") + fmt.Sprint(exit) + how
		if seen[key] {
			return
		}
		seen[key] = true
		segs = append(segs, Segment{Kind: kind, Loop: loop, Syms: syms, End: end, Ret: ret, T: s.get("T"), Exit: exit, How: how})
	}
	app := func(s kv, sym string) kv {
		if sym == "" {
			return s
		}
		cur := s.get("seq")
		if cur == "" {
			return s.set("seq", sym)
		}
		return s.set("seq", cur+","+sym)
	}
	top := func(s kv) (pos, prefix, rest string) {
		stk := s.get("stk")
		if stk == "" {
			return "", "", ""
		}
		i := strings.LastIndex(stk, "|")
		last := stk[i+1:]
		if i < 0 {
			rest = ""
		} else {
			rest = stk[:i]
		}
		j := strings.Index(last, "~")
		return last[:j], last[j+1:], rest
	}
	tr := &traceRule{c: sr.c, rule: sr.rule, noInline: sr.noInline, maxDepth: sr.maxDepth, relevant: sr.relevant, trackField: sr.trackField, trackAny: sr.trackAny, loadSyms: sr.loadSyms, args: sr.args, exprVal: sr.exprVal, exprValSt: sr.exprValSt, fieldStore: sr.fieldStore, litElem: sr.litElem}
	tr.classify = sr.classify
	tr.step = func(s kv, ev Ev) kv {
		switch {
		case strings.HasPrefix(ev.Name, "__retry@"):
			cur := s.get("seq")
			if i := strings.Index(cur, ev.Name); i >= 0 {
				return s.set("seq", cur[:i+len(ev.Name)])
			}
			return app(s, ev.Name)
		case strings.HasPrefix(ev.Name, "__iter@"):
			pos := ev.Name[len("__iter@"):]
			if tp, _, _ := top(s); tp == pos {
				emit("iter", pos, s.get("seq"), s, pos, nil, false, "next")
				return s.set("seq", "")
			}
			entry := pos + "~" + s.get("seq")
			if stk := s.get("stk"); stk != "" {
				entry = stk + "|" + entry
			}
			return s.set("stk", entry).set("seq", "")
		case strings.HasPrefix(ev.Name, "__done@"):
			pos := ev.Name[len("__done@"):]
			if tp, prefix, rest := top(s); tp == pos {
				emit("iter", pos, s.get("seq"), s, pos, nil, false, "done")
				s = s.set("stk", rest).set("seq", prefix)
			}
			return app(s, "loop@"+pos)
		}
		return app(s, ev.Name)
	}
	// a bare `for { ... }` is a retry loop (compare-and-swap idiom): it is not cut into iterations; the path
	// keeps the symbols of its final iteration only (earlier, failed iterations are dropped at the loop head)
	retryMemo := map[ast.Stmt]bool{}
	isRetry := func(s ast.Stmt) bool {
		if v, ok := retryMemo[s]; ok {
			return v
		}
		fs, ok := s.(*ast.ForStmt)
		res := false
		if ok && fs.Cond == nil && fs.Init == nil && fs.Post == nil {
			ast.Inspect(fs.Body, func(n ast.Node) bool {
				if sel, ok := n.(*ast.SelectorExpr); ok && sel.Sel.Name == "CompareAndSwap" {
					res = true
				}
				if _, ok := n.(*ast.FuncLit); ok {
					return false
				}
				return true
			})
		}
		retryMemo[s] = res
		return res
	}
	tr.visit = func(fr *Frame, n ast.Node) string {
		switch l := n.(type) {
		case LoopIter:
			if isRetry(l.Stmt) {
				return "__retry@" + sr.c.P.pos(l.Stmt)
			}
			return "__iter@" + sr.c.P.pos(l.Stmt)
		case LoopDone:
			if isRetry(l.Stmt) {
				return ""
			}
			return "__done@" + sr.c.P.pos(l.Stmt)
		case LoopBreak:
			if isRetry(l.Stmt) {
				return ""
			}
			return "break"
		}
		if sr.visit != nil {
			return sr.visit(fr, n)
		}
		return ""
	}
	if sr.condSym != nil {
		tr.cond = func(s kv, fr *Frame, token, rel string) (kv, bool) {
			return app(s, sr.condSym(fr, token, rel)), true
		}
	}
	if sr.condExpr != nil {
		tr.condExpr = func(s kv, fr *Frame, e ast.Expr, branch bool, ip *Interp, st *State) (kv, bool) {
			return app(s, sr.condExpr(fr, e, branch, ip, st)), true
		}
	}
	tr.exit = func(s kv, fr *Frame, ret *ast.ReturnStmt, vals []Value) {
		end := sr.c.retPos(fr, ret)
		if tp, _, _ := top(s); tp != "" {
			// return from inside a loop iteration: the iteration itself ...
			emit("iter", tp, s.get("seq"), s, end, vals, true, "exit")
			// ... and the whole path from the entry (prefixes of all enclosing
			// loops, each followed by the iteration it was left from)
			full := ""
			for _, ent := range strings.Split(s.get("stk"), "|") {
				if j := strings.Index(ent, "~"); j >= 0 && ent[j+1:] != "" {
					if full != "" {
						full += ","
					}
					full += ent[j+1:]
				}
			}
			if cur := s.get("seq"); cur != "" {
				if full != "" {
					full += ","
				}
				full += cur
			}
			emit("path", "", full, s, end, vals, true, "exit")
			return
		}
		emit("path", "", s.get("seq"), s, end, vals, true, "exit")
	}
	// an inlined callee that returns from inside its own loops leaves those loops: their entries are dropped from the
	// stack (as a break would), the iteration left is reported as ended by "return"
	tr.calleeRet = func(entry, s kv) kv {
		depth := func(stk string) int {
			if stk == "" {
				return 0
			}
			return strings.Count(stk, "|") + 1
		}
		want := depth(entry.get("stk"))
		for depth(s.get("stk")) > want {
			pos, prefix, rest := top(s)
			emit("iter", pos, s.get("seq"), s, pos, nil, true, "return")
			s = app(s.set("stk", rest).set("seq", prefix), "loop@"+pos)
		}
		return s
	}
	tr.run(root, sr.init)
	return segs
}

// addSym appends a symbol to the sequence carried by st (for the state hooks of a rule).
func addSym(st *State, sym string) *State {
	s := st.Dom.(kv)
	cur := s.get("seq")
	if cur == "" {
		return st.WithDom(s.set("seq", sym))
	}
	return st.WithDom(s.set("seq", cur+","+sym))
}
