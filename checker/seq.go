package main

// Path-sequence extraction: every path of a function (callees inlined) is
// reduced to the sequence of rule-relevant symbols it performs; loops are cut
// into per-iteration segments. Rules are then predicates over the finite set
// of segments, and the evidence can show the sequences themselves.

import (
	"go/ast"
	"strings"
)

type Segment struct {
	Kind string   // "path" (entry to a normal exit) | "iter" (one loop iteration) | "pre" (entry to first loop head)
	Syms []string // symbols in execution order
	End  string   // position of the exit / loop
	Ret  []Value
}

func (s Segment) String() string { return s.Kind + ": " + strings.Join(s.Syms, " ") }

func (s Segment) has(sym string) bool { return s.count(sym) > 0 }

func (s Segment) count(sym string) int {
	n := 0
	for _, x := range s.Syms {
		if x == sym {
			n++
		}
	}
	return n
}

func (s Segment) index(sym string) int {
	for i, x := range s.Syms {
		if x == sym {
			return i
		}
	}
	return -1
}

func (s Segment) lastIndex(sym string) int {
	for i := len(s.Syms) - 1; i >= 0; i-- {
		if s.Syms[i] == sym {
			return i
		}
	}
	return -1
}

// before reports whether every occurrence of b is preceded by some a.
func (s Segment) before(a, b string) bool {
	seenA := false
	for _, x := range s.Syms {
		if x == a {
			seenA = true
		}
		if x == b && !seenA {
			return false
		}
	}
	return true
}

// followedBy reports whether after the last a there is a b.
func (s Segment) followedBy(a, b string) bool {
	i := s.lastIndex(a)
	if i < 0 {
		return true
	}
	for _, x := range s.Syms[i+1:] {
		if x == b {
			return true
		}
	}
	return false
}

type seqRule struct {
	c        *Ctx
	rule     string
	classify func(fr *Frame, call *ast.CallExpr, c *Callee, args []Value) *callEvent
	visit    func(fr *Frame, n ast.Node) string
	condSym  func(fr *Frame, token, rel string) string
	condExpr func(fr *Frame, e ast.Expr, branch bool, ip *Interp, st *State) string
	noInline func(f *Func) bool
	relevant func(f *Func) bool
	cutLoops bool // cut loops of the root function into per-iteration segments
	maxDepth int
	trackField string
	init       kv
}

func (sr *seqRule) segments(root *Func) []Segment {
	var segs []Segment
	seen := map[string]bool{}
	emit := func(kind string, s kv, end string, ret []Value) {
		syms := strings.Fields(strings.ReplaceAll(s.get("seq"), ",", " "))
		key := kind + "|" + strings.Join(syms, ",") + "|" + valsKey(ret)
		if seen[key] {
			return
		}
		seen[key] = true
		segs = append(segs, Segment{Kind: kind, Syms: syms, End: end, Ret: ret})
	}
	app := func(s kv, sym string) kv {
		if sym == "" {
			return s
		}
		cur := s.get("seq")
		if cur == "" {
			return s.set("seq", sym)
		}
		return s.set("seq", cur+","+sym)
	}
	tr := &traceRule{c: sr.c, rule: sr.rule, noInline: sr.noInline, maxDepth: sr.maxDepth, relevant: sr.relevant, trackField: sr.trackField}
	tr.classify = sr.classify
	tr.step = func(s kv, ev Ev) kv {
		switch ev.Name {
		case "__iter":
			if s.get("in") == "iter" {
				emit("iter", s, sr.c.P.pos(ev.Node), nil)
			} else {
				emit("pre", s, sr.c.P.pos(ev.Node), nil)
			}
			return kv("").set("in", "iter").set("T", s.get("T"))
		case "__done":
			if s.get("in") == "iter" {
				emit("iter", s, sr.c.P.pos(ev.Node), nil)
				return kv("").set("in", "after").set("T", s.get("T"))
			}
			return s
		}
		if strings.HasPrefix(ev.Name, "__loop@") {
			// a loop that is not cut: keep only the symbols of its latest
			// iteration so that the state space stays finite
			cur := s.get("seq")
			if i := strings.Index(cur, ev.Name); i >= 0 {
				return s.set("seq", cur[:i+len(ev.Name)])
			}
		}
		return app(s, ev.Name)
	}
	tr.visit = func(fr *Frame, n ast.Node) string {
		if li, ok := n.(LoopIter); ok && !(sr.cutLoops && fr.Caller == nil && fr.Loop <= 1) {
			return "__loop@" + sr.c.P.pos(li.Stmt)
		}
		if sr.cutLoops && fr.Caller == nil && fr.Loop <= 1 {
			switch n.(type) {
			case LoopIter:
				return "__iter"
			case LoopDone:
				if fr.Loop == 1 {
					return "__done"
				}
			}
		}
		if sr.visit != nil {
			return sr.visit(fr, n)
		}
		return ""
	}
	if sr.condSym != nil {
		tr.cond = func(s kv, fr *Frame, token, rel string) (kv, bool) {
			return app(s, sr.condSym(fr, token, rel)), true
		}
	}
	if sr.condExpr != nil {
		tr.condExpr = func(s kv, fr *Frame, e ast.Expr, branch bool, ip *Interp, st *State) (kv, bool) {
			return app(s, sr.condExpr(fr, e, branch, ip, st)), true
		}
	}
	tr.exit = func(s kv, fr *Frame, ret *ast.ReturnStmt, vals []Value) {
		kind := "path"
		if s.get("in") == "iter" {
			kind = "iter" // return from inside a loop iteration
		}
		emit(kind, s, sr.c.retPos(fr, ret), vals)
	}
	tr.run(root, sr.init)
	return segs
}
