package main

// Pool-node ownership typestate (rule R01.4, also an obligation of C03/C18).
//
// A pool node (*linkedlist.Node[pool.Node[J]]) is either in the idle list or
// owned by exactly one party. Ownership is acquired by a non-nil PopBack /
// PopFront result, by Remove(n) *on the path where it returned true*, by
// taking a fresh node (sync.Pool.Get, the node factory), or by being the node
// captured by its own completion callback. It is given up by PushNode(n),
// Cache.Put(n) and Send (hand-over to the pool goroutine). Send, Stop,
// PushNode and Cache.Put require ownership at that point. A node taken from a
// NodeSlice() snapshot is not owned.

import (
	"fmt"
	"go/ast"
	"go/token"
	"go/types"
	"strings"
)

const nodeType = modPath + "/internal/linkedlist.Node"

func isPoolNodePtr(t types.Type) bool {
	n := namedOf(t)
	if n == nil || qualTypeName(n) != nodeType {
		return false
	}
	targs := n.TypeArgs()
	return targs != nil && targs.Len() == 1 && qualTypeName(targs.At(0)) == modPath+"/internal/pool.Node"
}

type ownDom struct {
	BaseDomain
	c    *Ctx
	rule string
	root *Func
	uses int
}

func ownKey(ip *Interp, o types.Object) string { return fmt.Sprintf("n%d", ip.id(o)) }

func (d *ownDom) Inline(ip *Interp, fr *Frame, st *State, call *ast.CallExpr, c *Callee) []*Func {
	if f := ip.P.byObj[c.Key]; f != nil && f.Lib && f.Pkg.PkgPath == modPath && !c.Iface {
		if f == d.c.R.NodeFactory {
			return nil // produces a fresh node; handled as a source
		}
		// inline only callees that may touch nodes
		em := d.c.emits(f)
		if em["send"] || em["stop"] || em["push"] || em["cacheput"] || em["remove"] || em["pop"] {
			return []*Func{f}
		}
	}
	return nil
}

// source classifies an expression producing a node: "O" fresh/owned, "P"
// popped (owned if non-nil), "" unknown.
func (d *ownDom) source(ip *Interp, fr *Frame, st *State, e ast.Expr) string {
	info := fr.Fn.Info()
	switch x := ast.Unparen(e).(type) {
	case *ast.TypeAssertExpr:
		return d.source(ip, fr, st, x.X)
	case *ast.CallExpr:
		ce := resolveCallee(info, x)
		switch ce.Key {
		case kPopBack, kPopFront:
			return "P"
		case kPoolGet:
			return "O"
		}
		if f := ip.P.byObj[ce.Key]; f != nil && f == d.c.R.NodeFactory {
			return "O"
		}
	case *ast.Ident:
		if o := info.ObjectOf(x); o != nil {
			return st.Dom.(kv).get(ownKey(ip, o))
		}
	}
	return ""
}

func (d *ownDom) Bind(ip *Interp, callee *Frame, st *State, param types.Object, arg ast.Expr, caller *Frame) *State {
	if !isPoolNodePtr(param.Type()) {
		return st
	}
	s := st.Dom.(kv)
	return st.WithDom(s.set(ownKey(ip, param), d.source(ip, caller, st, arg)))
}

func (d *ownDom) Visit(ip *Interp, fr *Frame, st *State, n ast.Node) *State {
	info := fr.Fn.Info()
	s := st.Dom.(kv)
	switch x := n.(type) {
	case *ast.AssignStmt:
		for i, l := range x.Lhs {
			id, ok := l.(*ast.Ident)
			if !ok {
				continue
			}
			o := info.ObjectOf(id)
			if o == nil {
				continue
			}
			var rhs ast.Expr
			if len(x.Rhs) == len(x.Lhs) {
				rhs = x.Rhs[i]
			} else if i == 0 {
				rhs = x.Rhs[0]
			}
			if rhs == nil {
				continue
			}
			if isPoolNodePtr(o.Type()) {
				s = s.set(ownKey(ip, o), d.source(ip, fr, st, rhs))
			} else if isSnapshot(info, rhs) {
				s = s.set(ownKey(ip, o), "SL")
			}
		}
	case LoopIter:
		// the loop variable is about to be rebound: a node this iteration took out of the idle list (Remove returned
		// true / PopBack was non-nil) and neither stopped, recycled, pushed back nor handed a job is lost — its
		// goroutine stays parked for ever, invisible to the dispatcher, the reaper and Stop
		if rs, ok := x.Stmt.(*ast.RangeStmt); ok {
			if id, ok := rs.Value.(*ast.Ident); ok {
				if o := info.ObjectOf(id); o != nil && isPoolNodePtr(o.Type()) {
					if s.get(ownKey(ip, o)) == "O" && s.get("acq:"+ownKey(ip, o)) != "" {
						d.c.Rep.fail(d.rule, fr.Fn.Short(), "node "+o.Name()+" taken out of the idle list and dropped", d.c.P.pos(rs),
							fmt.Sprintf("a loop iteration takes pool node %q out of the idle list (Remove returned true) and moves on without stopping, recycling or re-inserting it: the node's goroutine stays parked for ever, outside the list (path %s)", o.Name(), fr.Path()))
					}
					s = s.set(ownKey(ip, o), "S").set("acq:"+ownKey(ip, o), "")
				}
			}
		}
	case *ast.RangeStmt:
		// for _, node := range <snapshot>
		if id, ok := x.Value.(*ast.Ident); ok {
			if o := info.ObjectOf(id); o != nil && isPoolNodePtr(o.Type()) {
				s = s.set(ownKey(ip, o), "S")
			}
		}
	}
	return st.WithDom(s)
}

// isSnapshot: the expression is NodeSlice() or a slice of it.
func isSnapshot(info *types.Info, e ast.Expr) bool {
	switch x := ast.Unparen(e).(type) {
	case *ast.CallExpr:
		return resolveCallee(info, x).Key == kNodeSlice
	case *ast.SliceExpr:
		return isSnapshot(info, x.X)
	}
	return false
}

// Exit: at the end of the analysed function no node acquired on this path is still held untouched.
func (d *ownDom) Exit(ip *Interp, fr *Frame, st *State, ret *ast.ReturnStmt, vals []Value) {
	if fr.Caller != nil {
		return
	}
	s := st.Dom.(kv)
	for _, k := range s.keys() {
		if !strings.HasPrefix(k, "acq:") || s.get(k) == "" {
			continue
		}
		if s.get(k[4:]) == "O" {
			d.c.Rep.fail(d.rule, fr.Fn.Short(), "node "+s.get(k)+" taken out of the idle list and dropped", d.c.retPos(fr, ret),
				fmt.Sprintf("%s returns on a path on which it took pool node %q out of the idle list and neither stopped, recycled, re-inserted nor used it: the node's goroutine stays parked for ever", fr.Fn.Short(), s.get(k)))
		}
	}
}

func (d *ownDom) Cond(ip *Interp, fr *Frame, st *State, e ast.Expr, branch bool) (*State, bool) {
	if e == nil {
		return st, true
	}
	info := fr.Fn.Info()
	s := st.Dom.(kv)
	e = ast.Unparen(e)
	// node != nil / node == nil on a popped node
	if be, ok := e.(*ast.BinaryExpr); ok && (be.Op == token.NEQ || be.Op == token.EQL) {
		x, y := be.X, be.Y
		if isNilExpr(info, x) {
			x, y = y, x
		}
		if id, ok := ast.Unparen(x).(*ast.Ident); ok && isNilExpr(info, y) {
			if o := info.ObjectOf(id); o != nil && s.get(ownKey(ip, o)) == "P" {
				nonNil := (be.Op == token.NEQ) == branch
				if nonNil {
					s = s.set(ownKey(ip, o), "O").set("acq:"+ownKey(ip, o), o.Name())
				} else {
					s = s.set(ownKey(ip, o), "")
				}
			}
		}
	}
	// result of Remove(n): directly or through a local
	if v := ip.pureValue(fr, st, e); v.Kind == VTok && len(v.S) > 8 && v.S[:8] == "removed:" {
		if branch {
			s = s.set(v.S[8:], "O").set("acq:"+v.S[8:], "node")
		}
	}
	if call, ok := e.(*ast.CallExpr); ok {
		if ce := resolveCallee(info, call); ce.Key == kRemove && len(call.Args) == 1 && branch {
			if o := rootIdent(info, call.Args[0]); o != nil {
				s = s.set(ownKey(ip, o), "O").set("acq:"+ownKey(ip, o), o.Name())
			}
		}
	}
	return st.WithDom(s), true
}

func (d *ownDom) Call(ip *Interp, fr *Frame, st *State, call *ast.CallExpr, c *Callee, args []Value) ([]Out, bool) {
	info := fr.Fn.Info()
	s := st.Dom.(kv)
	require := func(what string, e ast.Expr) (types.Object, bool) {
		d.uses++
		// the node expression: root identifier, or a fresh node from the factory
		if src := d.freshExpr(ip, fr, e); src {
			d.c.Rep.ok(d.rule, fmt.Sprintf("%s on a fresh node in %s", what, fr.Fn.Short()), d.c.P.pos(call), "node comes straight from the node factory", true)
			return nil, true
		}
		o := rootIdent(info, e)
		if o == nil {
			d.c.Rep.undecided(d.rule, fr.Fn.Short(), what+" on an unrecognised node expression", d.c.P.pos(call), "cannot identify the node value")
			return nil, false
		}
		state := s.get(ownKey(ip, o))
		inst := fmt.Sprintf("%s(%s) in %s", what, o.Name(), fr.Path())
		if state == "K" && (what == "Cache.Put" || what == "Stop") {
			state = "O"
		}
		if state == "O" {
			d.c.Rep.ok(d.rule, inst, d.c.P.pos(call), "node is owned on every path reaching this call", true)
			return o, true
		}
		why := map[string]string{"": "its origin gives no ownership", "S": "it was taken from a NodeSlice() snapshot and Remove() was not observed to return true on this path",
			"P": "it is a PopBack result not yet tested for nil", "R": "it was already released (PushNode/Cache.Put)", "T": "it was already handed to the pool goroutine (Send)", "K": "it was already stopped (its goroutine ends): it can only be recycled (Cache.Put), a job sent to it or a return to the idle list would strand the next job"}[state]
		d.c.Rep.fail(d.rule, fr.Fn.Short(), what+" on node "+o.Name()+" without ownership", d.c.P.pos(call),
			fmt.Sprintf("%s on pool node %q that this path does not own: %s (path %s)", what, o.Name(), why, fr.Path()))
		return o, false
	}
	switch c.Key {
	case kNodeSend, kNodeStop:
		what := "Send"
		if c.Key == kNodeStop {
			what = "Stop"
		}
		// receiver is node.Value
		recv := c.Recv
		if sel, ok := ast.Unparen(recv).(*ast.SelectorExpr); ok {
			recv = sel.X
		}
		o, okReq := require(what, recv)
		if o != nil && c.Key == kNodeSend {
			s = s.set(ownKey(ip, o), "T")
		}
		if o != nil && c.Key == kNodeStop && okReq {
			s = s.set(ownKey(ip, o), "K")
		}
		return []Out{{St: st.WithDom(s)}}, true
	case kPushNode, kPoolPut:
		what := "PushNode"
		if c.Key == kPoolPut {
			what = "Cache.Put"
			if len(call.Args) == 1 && !isPoolNodePtr(info.TypeOf(call.Args[0])) {
				return nil, false
			}
		}
		if len(call.Args) == 1 {
			o, _ := require(what, call.Args[0])
			if o != nil {
				s = s.set(ownKey(ip, o), "R")
			}
		}
		return []Out{{St: st.WithDom(s)}}, true
	case kRemove:
		if len(call.Args) == 1 {
			if o := rootIdent(info, call.Args[0]); o != nil {
				return []Out{{St: st, Vals: []Value{{Kind: VTok, S: "removed:" + ownKey(ip, o)}}}}, true
			}
		}
	}
	return nil, false
}

func (d *ownDom) freshExpr(ip *Interp, fr *Frame, e ast.Expr) bool {
	if call, ok := ast.Unparen(e).(*ast.CallExpr); ok {
		ce := resolveCallee(fr.Fn.Info(), call)
		if f := ip.P.byObj[ce.Key]; f != nil && f == d.c.R.NodeFactory {
			return true
		}
	}
	return false
}

// runOwnership analyses every function of package varmq that touches pool
// nodes and is not itself reached by inlining from another such function.
func (c *Ctx) runOwnership(rule string) int {
	c.ruleListMembership(rule)
	touch := func(f *Func) bool {
		return c.P.containsCall(f, kNodeSend, kNodeStop, kPushNode, kRemove, kPopBack, kPopFront) || func() bool {
			for _, cs := range c.P.calls(f) {
				if cs.Callee.Key == kPoolPut && len(cs.Call.Args) == 1 && isPoolNodePtr(f.Info().TypeOf(cs.Call.Args[0])) {
					return true
				}
			}
			return false
		}()
	}
	var cands []*Func
	for _, f := range c.P.pkgFuncs(modPath) {
		if f.Body != nil && touch(f) {
			cands = append(cands, f)
		}
	}
	// a candidate called statically by another library function is analysed
	// inlined there (with its parameter bound to the caller's node)
	isCand := map[*Func]bool{}
	for _, f := range cands {
		isCand[f] = true
	}
	// close under "calls a candidate": the caller is analysed with the callee inlined
	for changed := true; changed; {
		changed = false
		for _, cs := range c.P.allCalls(false) {
			if f := c.P.byObj[cs.Callee.Key]; f != nil && isCand[f] && !isCand[cs.In] && cs.In.Pkg.PkgPath == modPath && cs.In.Body != nil {
				isCand[cs.In] = true
				cands = append(cands, cs.In)
				changed = true
			}
		}
	}
	called := map[*Func]bool{}
	for _, cs := range c.P.allCalls(false) {
		if f := c.P.byObj[cs.Callee.Key]; f != nil && isCand[cs.In] && isCand[f] && f != c.R.NodeFactory {
			called[f] = true
		}
	}
	total := 0
	for _, f := range cands {
		if called[f] && f.Lit == nil {
			c.noEscape(rule, f)
			continue
		}
		d := &ownDom{c: c, rule: rule, root: f}
		ip := NewInterp(c.P, d)
		init := kv("")
		if f == c.R.Completion {
			// the completion callback owns the node it captured for the
			// duration of one invocation
			ast.Inspect(f.Body, func(n ast.Node) bool {
				if id, ok := n.(*ast.Ident); ok {
					if o, ok := f.Info().Uses[id].(*types.Var); ok && isPoolNodePtr(o.Type()) && o.Pos() < f.Lit.Pos() {
						init = init.set(ownKey(ip, o), "O")
					}
				}
				return true
			})
		}
		ip.Run(f, &State{Dom: init})
		c.Rep.interpDone(ip, rule, f)
		total += d.uses
	}
	return total
}

// ruleListMembership (part of R01.4): the idle list's membership invariant.
// Ownership by `Remove(n) == true` is only as good as Remove's test "is n in
// the list", which reads n's links: every operation that takes a node out of
// the list must nil both links of that node, Remove must refuse (false,
// nothing modified) a node whose links are nil, and must report true only on a
// path that unlinked the node.
func (c *Ctx) ruleListMembership(rule string) {
	ll := modPath + "/internal/linkedlist"
	fNext, fPrev, fLen := ll+".Node.next", ll+".Node.prev", ll+".List.len"
	n := 0
	for _, f := range c.P.pkgFuncs(ll) {
		if f.Obj == nil || f.Decl.Recv == nil || f.Body == nil {
			continue
		}
		if recv := namedOf(f.Obj.Type().(*types.Signature).Recv().Type()); recv == nil || recv.Obj().Name() != "List" {
			continue
		}
		info := f.Info()
		sr := &seqRule{c: c, rule: rule}
		sr.visit = func(fr *Frame, nd ast.Node) string {
			switch x := nd.(type) {
			case *ast.IncDecStmt:
				if selField(info, x.X) == fLen {
					if x.Tok == token.DEC {
						return "len--"
					}
					return "len++"
				}
			case *ast.AssignStmt:
				var syms []string
				for i, l := range x.Lhs {
					fk := selField(info, l)
					if fk != fNext && fk != fPrev || i >= len(x.Rhs) {
						continue
					}
					sel := ast.Unparen(l).(*ast.SelectorExpr)
					// only links of a plain variable (the node itself), not of its neighbours (x.prev.next)
					id, ok := ast.Unparen(sel.X).(*ast.Ident)
					if !ok {
						continue
					}
					which := "next"
					if fk == fPrev {
						which = "prev"
					}
					if isNilExpr(info, x.Rhs[i]) {
						syms = append(syms, "nil("+which+"):"+id.Name)
					} else {
						syms = append(syms, "set("+which+"):"+id.Name)
					}
				}
				return strings.Join(syms, ",")
			}
			return ""
		}
		sr.condExpr = func(fr *Frame, e ast.Expr, branch bool, ip *Interp, st *State) string {
			be, op := binOp(e)
			if be == nil || (op != token.EQL && op != token.NEQ) {
				return ""
			}
			x, y := be.X, be.Y
			if isNilExpr(info, x) {
				x, y = y, x
			}
			if !isNilExpr(info, y) {
				return ""
			}
			if fk := selField(info, x); fk == fNext || fk == fPrev {
				return fmt.Sprintf("link-nil=%v", (op == token.EQL) == branch)
			}
			return ""
		}
		for _, sg := range sr.segments(f) {
			if sg.Kind != "path" {
				continue
			}
			var syms []string
			for _, s := range sg.Syms {
				syms = append(syms, strings.Split(s, ",")...)
			}
			sg.Syms = syms
			desc := "[" + strings.Join(syms, " ") + "]"
			if sg.has("len--") {
				n++
				// both links of one node are nil-ed
				nodes := map[string]int{}
				for _, s := range syms {
					if strings.HasPrefix(s, "nil(next):") {
						nodes[s[len("nil(next):"):]] |= 1
					}
					if strings.HasPrefix(s, "nil(prev):") {
						nodes[s[len("nil(prev):"):]] |= 2
					}
				}
				ok := false
				for _, v := range nodes {
					if v == 3 {
						ok = true
					}
				}
				c.Rep.check(ok, rule, f.Short(), "node taken out of the list keeps its links", sg.End, "removed node's next and prev are nil-ed",
					f.Short()+" takes a node out of the idle list without clearing both of its links: Remove() can then no longer tell an idle node from one the dispatcher has popped, and a party that does not own the node stops it: "+desc)
			}
			if f.Obj.Name() == "Remove" && len(sg.Ret) == 1 {
				if sg.Ret[0].isTrue() {
					c.Rep.check(sg.has("len--") && !sg.has("link-nil=true"), rule, f.Short(), "Remove reports true without unlinking", sg.End, "true only after unlinking a linked node", "Remove must report true only when it actually unlinked a node that was in the list: "+desc)
				} else if sg.Ret[0].isFalse() {
					c.Rep.check(!sg.has("len--") && !sg.has("len++"), rule, f.Short(), "Remove reports false after modifying the list", sg.End, "false ⇒ list untouched", "Remove reports false but modified the list: "+desc)
				}
			}
		}
		if f.Obj.Name() == "Remove" {
			refuses := false
			for _, sg := range sr.segments(f) {
				if sg.Kind == "path" && sg.has("link-nil=true") && len(sg.Ret) == 1 && sg.Ret[0].isFalse() {
					refuses = true
				}
			}
			c.Rep.check(refuses, rule, f.Short(), "Remove does not refuse a node that is not in the list", c.P.pos(f.Body), "nil links ⇒ false", "Remove must return false for a node whose links are nil (not in the list): its result is what ownership of the node is decided on")
		}
	}
	if n == 0 {
		c.Rep.undecided(rule, "linkedlist.List", "no removal path", "", "no method of the list takes a node out")
	}
}
