package main

// E1 who-may-call, plus small AST utilities shared by the property files.

import (
	"fmt"
	"go/ast"
	"go/types"
	"sort"
	"strings"
)

// whoMayCall checks that every library call site whose callee satisfies match
// lies in a function accepted by allowed. Each site is one obligation.
// callersOf: static callers (library functions and literals) per function key.
func (c *Ctx) callersOf() map[string][]*Func {
	if c.cache == nil {
		c.cache = map[string]any{}
	}
	if v, ok := c.cache["callers"]; ok {
		return v.(map[string][]*Func)
	}
	m := map[string][]*Func{}
	for _, cs := range c.P.allCalls(false) {
		if cs.Callee.Key != "" && !cs.Callee.Iface {
			m[cs.Callee.Key] = appendUnique(m[cs.Callee.Key], cs.In)
		}
	}
	c.cache["callers"] = m
	return m
}

// allowedThroughCallers: f is allowed, or f is a helper all of whose callers are (so that extracting a helper
// out of an allowed function does not change the verdict).
func (c *Ctx) allowedThroughCallers(f *Func, allowed func(f *Func) bool, depth int) bool {
	if allowed(f) {
		return true
	}
	if depth > 3 || f.Obj == nil || c.escapes(f) != nil {
		return false
	}
	callers := c.callersOf()[f.Key]
	if len(callers) == 0 {
		return false
	}
	for _, g := range callers {
		if g == f || !c.allowedThroughCallers(g, allowed, depth+1) {
			return false
		}
	}
	return true
}

func (c *Ctx) whoMayCall(rule, what string, match func(cs CallSite) bool, allowed0 func(f *Func) bool, allowedDesc string) int {
	allowed := func(f *Func) bool { return c.allowedThroughCallers(f, allowed0, 0) }
	n := 0
	for _, cs := range c.P.allCalls(false) {
		if !match(cs) {
			continue
		}
		n++
		c.Rep.CallSites++
		inst := fmt.Sprintf("%s called in %s", what, cs.In.Short())
		if allowed(cs.In) {
			c.Rep.ok(rule, inst, c.P.pos(cs.Call), "caller is "+allowedDesc, false)
		} else {
			c.Rep.fail(rule, cs.In.Short(), "call of "+what, c.P.pos(cs.Call),
				fmt.Sprintf("%s is called in %s; only %s may call it", what, cs.In.Short(), allowedDesc))
		}
	}
	return n
}

func keyIn(keys ...string) func(cs CallSite) bool {
	return func(cs CallSite) bool {
		for _, k := range keys {
			if cs.Callee.Key == k {
				return true
			}
		}
		return false
	}
}

func isFunc(fs ...*Func) func(f *Func) bool {
	return func(f *Func) bool {
		for _, x := range fs {
			if x != nil && f == x {
				return true
			}
		}
		return false
	}
}

// inOrUnder accepts f if it is one of fs or a literal lexically inside one.
func inOrUnder(fs ...*Func) func(f *Func) bool {
	return func(f *Func) bool {
		for g := f; g != nil; g = g.Parent {
			for _, x := range fs {
				if x != nil && g == x {
					return true
				}
			}
		}
		return false
	}
}

// escapes lists uses of a function object outside call position (method
// values, function values): such a reference defeats who-may-call reasoning.
func (c *Ctx) escapes(f *Func) []string {
	if f == nil || f.Obj == nil {
		return nil
	}
	var out []string
	for _, pkg := range c.P.Pkgs {
		callIdents := map[*ast.Ident]bool{}
		for _, file := range pkg.Syntax {
			ast.Inspect(file, func(n ast.Node) bool {
				if call, ok := n.(*ast.CallExpr); ok {
					switch fun := ast.Unparen(call.Fun).(type) {
					case *ast.Ident:
						callIdents[fun] = true
					case *ast.SelectorExpr:
						callIdents[fun.Sel] = true
					case *ast.IndexExpr:
						if id, ok := fun.X.(*ast.Ident); ok {
							callIdents[id] = true
						}
					}
				}
				return true
			})
		}
		for id, obj := range pkg.TypesInfo.Uses {
			fn, ok := obj.(*types.Func)
			if !ok || fn.Origin() != f.Obj.Origin() || callIdents[id] {
				continue
			}
			if strings.HasSuffix(c.P.Fset.Position(id.Pos()).Filename, "_test.go") {
				continue
			}
			out = append(out, c.P.pos(id))
		}
	}
	return dedupStrings(out)
}

func dedupStrings(in []string) []string {
	seen := map[string]bool{}
	var out []string
	for _, s := range in {
		if !seen[s] {
			seen[s] = true
			out = append(out, s)
		}
	}
	sort.Strings(out)
	return out
}

// noEscape records the obligation that f is only ever called, never taken as
// a value.
func (c *Ctx) noEscape(rule string, f *Func) {
	if f == nil {
		return
	}
	esc := c.escapes(f)
	if len(esc) == 0 {
		c.Rep.ok(rule, f.Short()+" is never used as a function value", c.P.pos(f.Body), "all references are direct calls", false)
		return
	}
	c.Rep.undecided(rule, f.Short(), "function value escapes", c.P.pos(f.Body),
		f.Short()+" is referenced outside call position ("+strings.Join(esc, ", ")+"); callers cannot be enumerated")
}

// rootIdent returns the object of the identifier at the root of an expression
// such as x, x.f, x[i], x.(T), &x.
func rootIdent(info *types.Info, e ast.Expr) types.Object {
	for {
		switch x := ast.Unparen(e).(type) {
		case *ast.Ident:
			return info.ObjectOf(x)
		case *ast.SelectorExpr:
			if _, ok := info.Selections[x]; !ok {
				return info.ObjectOf(x.Sel)
			}
			e = x.X
		case *ast.IndexExpr:
			e = x.X
		case *ast.TypeAssertExpr:
			e = x.X
		case *ast.StarExpr:
			e = x.X
		case *ast.UnaryExpr:
			e = x.X
		default:
			return nil
		}
	}
}

// derivedFrom computes, flow-insensitively, the local variables of f whose
// value can only come from the given seed variables through assignments,
// type assertions, type switches and the listed pass-through calls.
func derivedFrom(f *Func, seeds map[types.Object]bool, passThrough func(call *ast.CallExpr) bool) map[types.Object]bool {
	info := f.Info()
	d := map[types.Object]bool{}
	for o := range seeds {
		d[o] = true
	}
	var fromD func(e ast.Expr) bool
	fromD = func(e ast.Expr) bool {
		switch x := ast.Unparen(e).(type) {
		case *ast.Ident:
			return d[info.ObjectOf(x)]
		case *ast.TypeAssertExpr:
			return fromD(x.X)
		case *ast.CallExpr:
			if passThrough != nil && passThrough(x) {
				for _, a := range x.Args {
					if fromD(a) {
						return true
					}
				}
			}
		}
		return false
	}
	for changed := true; changed; {
		changed = false
		ast.Inspect(f.Body, func(n ast.Node) bool {
			switch x := n.(type) {
			case *ast.AssignStmt:
				if len(x.Rhs) == 1 && len(x.Lhs) >= 1 {
					if fromD(x.Rhs[0]) {
						if id, ok := x.Lhs[0].(*ast.Ident); ok {
							if o := info.ObjectOf(id); o != nil && !d[o] {
								d[o] = true
								changed = true
							}
						}
					}
				} else if len(x.Rhs) == len(x.Lhs) {
					for i := range x.Lhs {
						if fromD(x.Rhs[i]) {
							if id, ok := x.Lhs[i].(*ast.Ident); ok {
								if o := info.ObjectOf(id); o != nil && !d[o] {
									d[o] = true
									changed = true
								}
							}
						}
					}
				}
			case *ast.TypeSwitchStmt:
				if as, ok := x.Assign.(*ast.AssignStmt); ok && len(as.Rhs) == 1 && fromD(as.Rhs[0]) {
					for _, cc := range x.Body.List {
						if o := info.Implicits[cc]; o != nil && !d[o] {
							d[o] = true
							changed = true
						}
					}
				}
			}
			return true
		})
	}
	return d
}

// assignedOnlyFrom reports whether every assignment to obj inside f has a
// right-hand side accepted by ok (zero-value declarations are ignored).
func assignedOnlyFrom(f *Func, obj types.Object, ok func(rhs ast.Expr, idx int, n int) bool) (bool, int) {
	info := f.Info()
	all := true
	count := 0
	ast.Inspect(f.Body, func(n ast.Node) bool {
		as, isAs := n.(*ast.AssignStmt)
		if !isAs {
			return true
		}
		for i, l := range as.Lhs {
			id, isId := l.(*ast.Ident)
			if !isId || info.ObjectOf(id) != obj {
				continue
			}
			count++
			var rhs ast.Expr
			idx := 0
			if len(as.Rhs) == len(as.Lhs) {
				rhs = as.Rhs[i]
			} else {
				rhs, idx = as.Rhs[0], i
			}
			if !ok(rhs, idx, len(as.Lhs)) {
				all = false
			}
		}
		return true
	})
	return all, count
}
