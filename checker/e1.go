package main

// E1 who-may-call, plus small AST utilities shared by the property files.

import (
	"fmt"
	"go/ast"
	"go/types"
	"sort"
	"strings"
)

// whoMayCall checks that every library call site whose callee satisfies match
// lies in a function accepted by allowed. Each site is one obligation.
// callersOf: static callers (library functions and literals) per function key.
func (c *Ctx) callersOf() map[string][]*Func {
	if c.cache == nil {
		c.cache = map[string]any{}
	}
	if v, ok := c.cache["callers"]; ok {
		return v.(map[string][]*Func)
	}
	m := map[string][]*Func{}
	for _, cs := range c.P.allCalls(false) {
		if cs.Callee.Key != "" && !cs.Callee.Iface {
			m[cs.Callee.Key] = appendUnique(m[cs.Callee.Key], cs.In)
		}
	}
	c.cache["callers"] = m
	return m
}

// allowedThroughCallers: f is allowed, or f is a helper all of whose callers are (so that extracting a helper
// out of an allowed function does not change the verdict).
func (c *Ctx) allowedThroughCallers(f *Func, allowed func(f *Func) bool, depth int) bool {
	if allowed(f) {
		return true
	}
	if depth > 3 || f.Obj == nil || c.escapes(f) != nil {
		return false
	}
	callers := c.callersOf()[f.Key]
	if len(callers) == 0 {
		return false
	}
	for _, g := range callers {
		if g == f || !c.allowedThroughCallers(g, allowed, depth+1) {
			return false
		}
	}
	return true
}

func (c *Ctx) whoMayCall(rule, what string, match func(cs CallSite) bool, allowed0 func(f *Func) bool, allowedDesc string) int {
	allowed := func(f *Func) bool { return c.allowedThroughCallers(f, allowed0, 0) }
	n := 0
	for _, cs := range c.P.allCalls(false) {
		if !match(cs) {
			continue
		}
		n++
		c.Rep.CallSites++
		inst := fmt.Sprintf("%s called in %s", what, cs.In.Short())
		if allowed(cs.In) {
			c.Rep.ok(rule, inst, c.P.pos(cs.Call), "caller is "+allowedDesc, false)
		} else {
			c.Rep.fail(rule, cs.In.Short(), "call of "+what, c.P.pos(cs.Call),
				fmt.Sprintf("%s is called in %s; only %s may call it", what, cs.In.Short(), allowedDesc))
		}
	}
	return n
}

func keyIn(keys ...string) func(cs CallSite) bool {
	return func(cs CallSite) bool {
		for _, k := range keys {
			if cs.Callee.Key == k {
				return true
			}
		}
		return false
	}
}

func isFunc(fs ...*Func) func(f *Func) bool {
	return func(f *Func) bool {
		for _, x := range fs {
			if x != nil && f == x {
				return true
			}
		}
		return false
	}
}

// inOrUnder accepts f if it is one of fs or a literal lexically inside one.
func inOrUnder(fs ...*Func) func(f *Func) bool {
	return func(f *Func) bool {
		for g := f; g != nil; g = g.Parent {
			for _, x := range fs {
				if x != nil && g == x {
					return true
				}
			}
		}
		return false
	}
}

// escapes lists uses of a function object outside call position (method
// values, function values): such a reference defeats who-may-call reasoning.
func (c *Ctx) escapes(f *Func) []string {
	if f == nil || f.Obj == nil {
		return nil
	}
	var out []string
	for _, pkg := range c.P.Pkgs {
		callIdents := map[*ast.Ident]bool{}
		for _, file := range pkg.Syntax {
			ast.Inspect(file, func(n ast.Node) bool {
				if call, ok := n.(*ast.CallExpr); ok {
					switch fun := ast.Unparen(call.Fun).(type) {
					case *ast.Ident:
						callIdents[fun] = true
					case *ast.SelectorExpr:
						callIdents[fun.Sel] = true
					case *ast.IndexExpr:
						if id, ok := fun.X.(*ast.Ident); ok {
							callIdents[id] = true
						}
					}
				}
				return true
			})
		}
		for id, obj := range pkg.TypesInfo.Uses {
			fn, ok := obj.(*types.Func)
			if !ok || fn.Origin() != f.Obj.Origin() || callIdents[id] {
				continue
			}
			if strings.HasSuffix(c.P.Fset.Position(id.Pos()).Filename, "_test.go") {
				continue
			}
			out = append(out, c.P.pos(id))
		}
	}
	return dedupStrings(out)
}

func dedupStrings(in []string) []string {
	seen := map[string]bool{}
	var out []string
	for _, s := range in {
		if !seen[s] {
			seen[s] = true
			out = append(out, s)
		}
	}
	sort.Strings(out)
	return out
}

// noEscape records the obligation that f is only ever called, never taken as
// a value.
func (c *Ctx) noEscape(rule string, f *Func) {
	if f == nil {
		return
	}
	esc := c.escapes(f)
	if len(esc) == 0 {
		c.Rep.ok(rule, f.Short()+" is never used as a function value", c.P.pos(f.Body), "all references are direct calls", false)
		return
	}
	c.Rep.undecided(rule, f.Short(), "function value escapes", c.P.pos(f.Body),
		f.Short()+" is referenced outside call position ("+strings.Join(esc, ", ")+"); callers cannot be enumerated")
}

// rootIdent returns the object of the identifier at the root of an expression
// such as x, x.f, x[i], x.(T), &x.
func rootIdent(info *types.Info, e ast.Expr) types.Object {
	for {
		switch x := ast.Unparen(e).(type) {
		case *ast.Ident:
			return info.ObjectOf(x)
		case *ast.SelectorExpr:
			if _, ok := info.Selections[x]; !ok {
				return info.ObjectOf(x.Sel)
			}
			e = x.X
		case *ast.IndexExpr:
			e = x.X
		case *ast.TypeAssertExpr:
			e = x.X
		case *ast.StarExpr:
			e = x.X
		case *ast.UnaryExpr:
			e = x.X
		default:
			return nil
		}
	}
}

// derivedFrom computes, flow-insensitively, the local variables of f whose
// value can only come from the given seed variables through assignments,
// type assertions, type switches and the listed pass-through calls.
func derivedFrom(f *Func, seeds map[types.Object]bool, passThrough func(call *ast.CallExpr) bool) map[types.Object]bool {
	info := f.Info()
	d := map[types.Object]bool{}
	for o := range seeds {
		d[o] = true
	}
	var fromD func(e ast.Expr) bool
	fromD = func(e ast.Expr) bool {
		switch x := ast.Unparen(e).(type) {
		case *ast.Ident:
			return d[info.ObjectOf(x)]
		case *ast.TypeAssertExpr:
			return fromD(x.X)
		case *ast.CallExpr:
			if passThrough != nil && passThrough(x) {
				for _, a := range x.Args {
					if fromD(a) {
						return true
					}
				}
			}
		}
		return false
	}
	for changed := true; changed; {
		changed = false
		ast.Inspect(f.Body, func(n ast.Node) bool {
			switch x := n.(type) {
			case *ast.AssignStmt:
				if len(x.Rhs) == 1 && len(x.Lhs) >= 1 {
					if fromD(x.Rhs[0]) {
						if id, ok := x.Lhs[0].(*ast.Ident); ok {
							if o := info.ObjectOf(id); o != nil && !d[o] {
								d[o] = true
								changed = true
							}
						}
					}
				} else if len(x.Rhs) == len(x.Lhs) {
					for i := range x.Lhs {
						if fromD(x.Rhs[i]) {
							if id, ok := x.Lhs[i].(*ast.Ident); ok {
								if o := info.ObjectOf(id); o != nil && !d[o] {
									d[o] = true
									changed = true
								}
							}
						}
					}
				}
			case *ast.TypeSwitchStmt:
				if as, ok := x.Assign.(*ast.AssignStmt); ok && len(as.Rhs) == 1 && fromD(as.Rhs[0]) {
					for _, cc := range x.Body.List {
						if o := info.Implicits[cc]; o != nil && !d[o] {
							d[o] = true
							changed = true
						}
					}
				}
			}
			return true
		})
	}
	return d
}

// assignedOnlyFrom reports whether every assignment to obj inside f has a
// right-hand side accepted by ok (zero-value declarations are ignored).
func assignedOnlyFrom(f *Func, obj types.Object, ok func(rhs ast.Expr, idx int, n int) bool) (bool, int) {
	info := f.Info()
	all := true
	count := 0
	ast.Inspect(f.Body, func(n ast.Node) bool {
		as, isAs := n.(*ast.AssignStmt)
		if !isAs {
			return true
		}
		for i, l := range as.Lhs {
			id, isId := l.(*ast.Ident)
			if !isId || info.ObjectOf(id) != obj {
				continue
			}
			count++
			var rhs ast.Expr
			idx, cnt := 0, len(as.Lhs)
			if len(as.Rhs) == len(as.Lhs) {
				rhs, cnt = as.Rhs[i], 1 // a, b := x, y: each variable has its own single-valued source
			} else {
				rhs, idx = as.Rhs[0], i
			}
			if !ok(rhs, idx, cnt) {
				all = false
			}
		}
		return true
	})
	return all, count
}

// deqProv says which variables of the dispatcher step hold this invocation's dequeued value, its receipt and the queue
// it was taken from. The Dequeue calls sit in the step itself or in a helper the step calls once; in the latter case a
// result position of the helper carries a role when every return statement of the helper returns, at that position,
// either a variable of that role or a zero value (nil, "", the error paths).
type deqProv struct {
	DeqFn           *Func // function that contains the Dequeue calls
	Val, Ack, Queue map[types.Object]bool
	Problem         string
}

func (c *Ctx) deqProvenance() *deqProv {
	if v, ok := c.cache["deqprov"]; ok {
		return v.(*deqProv)
	}
	if c.cache == nil {
		c.cache = map[string]any{}
	}
	R := c.R
	pv := &deqProv{Val: map[types.Object]bool{}, Ack: map[types.Object]bool{}, Queue: map[types.Object]bool{}}
	c.cache["deqprov"] = pv
	if R.Step == nil {
		pv.Problem = "dispatcher step unresolved"
		return pv
	}
	fns := filterPkg(c.P.funcsCalling(kDequeue, kDequeueAck), modPath)
	if len(fns) != 1 {
		pv.Problem = fmt.Sprintf("%d functions call Dequeue", len(fns))
		return pv
	}
	g := fns[0]
	pv.DeqFn = g
	info := g.Info()
	val, ack, queue := map[types.Object]bool{}, map[types.Object]bool{}, map[types.Object]bool{}
	var dequeuedFrom []types.Object
	ast.Inspect(g.Body, func(n ast.Node) bool {
		as, ok := n.(*ast.AssignStmt)
		if !ok || len(as.Rhs) != 1 {
			return true
		}
		call, ok := ast.Unparen(as.Rhs[0]).(*ast.CallExpr)
		if !ok {
			return true
		}
		ce := resolveCallee(info, call)
		if ce.Key != kDequeue && ce.Key != kDequeueAck {
			return true
		}
		if o := rootIdent(info, as.Lhs[0]); o != nil {
			val[o] = true
		}
		if ce.Key == kDequeueAck && len(as.Lhs) == 3 {
			if o := rootIdent(info, as.Lhs[2]); o != nil {
				ack[o] = true
			}
		}
		if o := rootIdent(info, ce.Recv); o != nil {
			dequeuedFrom = append(dequeuedFrom, o)
			queue[o] = true
		}
		return true
	})
	// the queue variable: what the type switch whose clause variables receive the Dequeue calls ranges over
	ast.Inspect(g.Body, func(n ast.Node) bool {
		if ts, ok := n.(*ast.TypeSwitchStmt); ok {
			if as, ok := ts.Assign.(*ast.AssignStmt); ok && len(as.Rhs) == 1 {
				if ta, ok := ast.Unparen(as.Rhs[0]).(*ast.TypeAssertExpr); ok {
					for _, cc := range ts.Body.List {
						for _, d := range dequeuedFrom {
							if info.Implicits[cc] == d {
								if o := rootIdent(info, ta.X); o != nil {
									queue[o] = true
								}
							}
						}
					}
				}
			}
		}
		return true
	})
	if g == R.Step {
		pv.Val, pv.Ack, pv.Queue = val, ack, queue
		return pv
	}
	// helper: classify its result positions
	var sites []*ast.AssignStmt
	ast.Inspect(R.Step.Body, func(n ast.Node) bool {
		if as, ok := n.(*ast.AssignStmt); ok && len(as.Rhs) == 1 {
			if call, ok := ast.Unparen(as.Rhs[0]).(*ast.CallExpr); ok && resolveCallee(R.Step.Info(), call).Key == g.Key {
				sites = append(sites, as)
			}
		}
		return true
	})
	if len(sites) != 1 || g.Type.Results == nil {
		pv.Problem = fmt.Sprintf("the helper %s that dequeues is not called exactly once, with its results assigned, by the step", g.Short())
		return pv
	}
	var resVars []types.Object // named results, or nil entries
	nres := 0
	for _, fld := range g.Type.Results.List {
		if len(fld.Names) == 0 {
			resVars = append(resVars, nil)
			nres++
		}
		for _, nm := range fld.Names {
			resVars = append(resVars, info.ObjectOf(nm))
			nres++
		}
	}
	kinds := make([]string, nres)
	roleOf := func(e ast.Expr) string {
		if tv, ok := info.Types[e]; ok && (tv.IsNil() || (tv.Value != nil && (tv.Value.ExactString() == `""` || tv.Value.ExactString() == "0" || tv.Value.ExactString() == "false"))) {
			return "zero"
		}
		o := rootIdent(info, e)
		if _, isId := ast.Unparen(e).(*ast.Ident); !isId || o == nil {
			return "other"
		}
		switch {
		case val[o]:
			return "val"
		case ack[o]:
			return "ack"
		case queue[o]:
			return "queue"
		}
		return "other"
	}
	merge := func(i int, k string) {
		switch {
		case k == "zero" || kinds[i] == k:
		case kinds[i] == "":
			kinds[i] = k
		default:
			kinds[i] = "other"
		}
	}
	ast.Inspect(g.Body, func(n ast.Node) bool {
		if _, ok := n.(*ast.FuncLit); ok {
			return false
		}
		ret, ok := n.(*ast.ReturnStmt)
		if !ok {
			return true
		}
		for i := 0; i < nres; i++ {
			switch {
			case len(ret.Results) == nres:
				merge(i, roleOf(ret.Results[i]))
			case len(ret.Results) == 0 && resVars[i] != nil:
				o := resVars[i]
				switch {
				case val[o]:
					merge(i, "val")
				case ack[o]:
					merge(i, "ack")
				case queue[o]:
					merge(i, "queue")
				default:
					merge(i, "other")
				}
			default:
				merge(i, "other")
			}
		}
		return true
	})
	as := sites[0]
	sinfo := R.Step.Info()
	for i, k := range kinds {
		if i >= len(as.Lhs) {
			break
		}
		o := rootIdent(sinfo, as.Lhs[i])
		if o == nil {
			continue
		}
		switch k {
		case "val":
			pv.Val[o] = true
		case "ack":
			pv.Ack[o] = true
		case "queue":
			pv.Queue[o] = true
		}
	}
	return pv
}

// helperResultKinds classifies the result positions of a helper function: position i has role k when every return
// statement of g returns, at i, a plain variable of role k (as told by role) or a zero value, and at least one returns
// a variable of that role; "" when only zero values, "other" otherwise.
func helperResultKinds(g *Func, role func(o types.Object) string) []string {
	if g == nil || g.Type.Results == nil || g.Body == nil {
		return nil
	}
	info := g.Info()
	var resVars []types.Object
	for _, fld := range g.Type.Results.List {
		if len(fld.Names) == 0 {
			resVars = append(resVars, nil)
		}
		for _, nm := range fld.Names {
			resVars = append(resVars, info.ObjectOf(nm))
		}
	}
	nres := len(resVars)
	kinds := make([]string, nres)
	merge := func(i int, k string) {
		switch {
		case k == "zero" || kinds[i] == k:
		case kinds[i] == "":
			kinds[i] = k
		default:
			kinds[i] = "other"
		}
	}
	roleOf := func(e ast.Expr) string {
		if tv, ok := info.Types[e]; ok && (tv.IsNil() || (tv.Value != nil && (tv.Value.ExactString() == `""` || tv.Value.ExactString() == "0" || tv.Value.ExactString() == "false"))) {
			return "zero"
		}
		o := rootIdent(info, e)
		if _, isId := ast.Unparen(e).(*ast.Ident); !isId || o == nil {
			return "other"
		}
		if k := role(o); k != "" {
			return k
		}
		return "other"
	}
	ast.Inspect(g.Body, func(n ast.Node) bool {
		if _, ok := n.(*ast.FuncLit); ok {
			return false
		}
		ret, ok := n.(*ast.ReturnStmt)
		if !ok {
			return true
		}
		for i := 0; i < nres; i++ {
			switch {
			case len(ret.Results) == nres:
				merge(i, roleOf(ret.Results[i]))
			case len(ret.Results) == 0 && resVars[i] != nil:
				if k := role(resVars[i]); k != "" {
					merge(i, k)
				} else {
					merge(i, "other")
				}
			default:
				merge(i, "other")
			}
		}
		return true
	})
	return kinds
}
