package main

// E3: the worker lifecycle as a sequential transition table. Each lifecycle
// method is walked once per initial status value with constant propagation
// through the status field (Load returns the tracked constant, Store and
// CompareAndSwap update it), callees inlined. A cell is the set of reachable
// (returned error, final status, ordered effect list) triples.

import (
	"fmt"
	"sort"
	"strings"
)

type cellOutcome struct {
	Err     string   // "nil", error variable name, or "?"
	Final   string   // status name
	Effects []string // ordered effects
	End     string
}

func (o cellOutcome) String() string {
	return fmt.Sprintf("%s → %s [%s]", o.Err, o.Final, strings.Join(o.Effects, " "))
}

func (o cellOutcome) has(e string) bool {
	for _, x := range o.Effects {
		if x == e {
			return true
		}
	}
	return false
}

func (o cellOutcome) idx(e string) int {
	for i, x := range o.Effects {
		if x == e {
			return i
		}
	}
	return -1
}

type lifecycleTable struct {
	Methods []string
	States  []string
	Cells   map[string][]cellOutcome // "Method|State"
}

var lifecycleVocab = []string{"wait", "stoptickers", "closechans", "stopall", "wstatus:", "cancel", "make(signal)", "make(err)", "nil(signal)", "nil(err)",
	"withcancel(ctx)", "set(ctx)", "go:dispatcher", "go:reaper", "go:listener", "go:serve", "push", "notify", "limit=", "newnode", "close(signal)", "close(err)", "pop", "stop", "release", "joindisp"}

func errName(v Value) string {
	switch v.Kind {
	case VNil:
		return "nil"
	case VObj:
		return v.S[strings.LastIndex(v.S, ".")+1:]
	case VNonNil:
		return "non-nil"
	}
	return "?"
}

func (c *Ctx) lifecycleMethods() map[string]*Func {
	m := map[string]*Func{}
	for _, name := range []string{"Pause", "PauseAndWait", "Resume", "Stop", "WaitAndStop", "Restart", "TunePool"} {
		if f := c.methodOf(c.R.WorkerT, name); f != nil {
			m[name] = f
		}
	}
	if c.R.Start != nil {
		m["start"] = c.R.Start
	}
	return m
}

func (c *Ctx) lifecycle() *lifecycleTable {
	if c.cache == nil {
		c.cache = map[string]any{}
	}
	if t, ok := c.cache["lifecycle"]; ok {
		return t.(*lifecycleTable)
	}
	ws := c.workerStatus()
	t := &lifecycleTable{Cells: map[string][]cellOutcome{}}
	for _, n := range []string{"Initiated", "Running", "Paused", "Stopped"} {
		if _, ok := ws.ByName[n]; ok {
			t.States = append(t.States, n)
		}
	}
	methods := c.lifecycleMethods()
	for n := range methods {
		t.Methods = append(t.Methods, n)
	}
	sort.Strings(t.Methods)
	atomic := map[string]bool{"wait": true, "stopall": true, "stoptickers": true, "closechans": true, "newnode": true, "release": true}
	for _, mn := range t.Methods {
		f := methods[mn]
		for _, sn := range t.States {
			v := c.vocab(lifecycleVocab, atomic)
			v.also = map[string]bool{"wstatus?": true}
			sr := v.seq("lifecycle", false)
			sr.trackField = c.R.FStatus
			sr.init = kv("").set("T", ws.ByName[sn])
			var outs []cellOutcome
			for _, sg := range sr.segments(f) {
				if sg.Kind != "path" {
					continue // iterations of inner loops are summarised in the path
				}
				errv := "void"
				if len(sg.Ret) > 0 {
					errv = errName(sg.Ret[len(sg.Ret)-1])
				}
				final := ws.ByVal[sg.T]
				if final == "" {
					final = "?" + sg.T
				}
				var eff []string
				for _, s := range sg.Syms {
					if strings.HasPrefix(s, "loop@") {
						continue
					}
					eff = append(eff, s)
				}
				outs = append(outs, cellOutcome{Err: errv, Final: final, Effects: eff, End: sg.End})
			}
			t.Cells[mn+"|"+sn] = outs
		}
	}
	c.cache["lifecycle"] = t
	return t
}

func (t *lifecycleTable) cell(m, s string) []cellOutcome { return t.Cells[m+"|"+s] }

func (t *lifecycleTable) dump() []string {
	var out []string
	for _, m := range t.Methods {
		for _, s := range t.States {
			for _, o := range t.cell(m, s) {
				out = append(out, fmt.Sprintf("%s from %s: %s", m, s, o))
			}
		}
	}
	return out
}
