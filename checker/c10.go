package main

import (
	"fmt"
	"go/ast"
	"go/token"
	"go/types"
	"strings"
)

func init() {
	register(&propDef{
		ID: "C10",
		Info: propInfo{
			Technique:   "atomic check-then-act analysis (interference-mode status propagation) + job-status table + path rules on the queue implementations",
			Explanation: "Decides the structural part of cancel/purge/close: (R10.1) the job status is written with a plain store only where the job is exclusively owned (construction, before publication in the submit paths, the completion callback after the worker function); every other transition is a compare-and-swap whose *attempted* transitions — enumerated with every Load allowed to return any of the five states, i.e. under interference — go to Closed only from Created/Queued/Finished and to Processing never from Closed, and whose success result is what the caller acts on; (R10.2) the Close result table over the five job states for every Close implementation; (R10.3) in both in-memory Enqueue implementations the closed test precedes every mutation and its true branch returns false without side effect, Close stores true and nothing stores false; (R10.4) Purge closes every removed value that is an io.Closer, and the values it closes must come from the operation that removes them (Values() followed by Purge() are two critical sections: a job enqueued in between is dropped without being cancelled — a known finding on this tree).",
			NotDecided:  []string{"that a cancelled job's waiters are released under every interleaving (follows from R10.1 + R05 only informally)", "user-supplied adapters' Purge/Values"},
			Assumptions: []string{"sync/atomic compare-and-swap semantics"},
		},
		Run: runC10,
	})
}

func runC10(c *Ctx) {
	c.rulePlainStatusStores("R10.1")
	c.ruleCasTransitions("R10.1")
	c.ruleCloseEffectsNeedWin("R10.6")
	c.ruleCloseSiblings("R10.2", false)
	c.ruleClosedQueueRejects("R10.3")
	c.rulePurge("R10.4")
	c.ruleQueuedBeforePublication("R10.5")
	// a job accepted while Purge runs stays pending and visible: Purge resets the queue under one write lock
	c.rulePurgeResetsBoth("R10.7")
	// no interleaving crashes the process: the batch stream is closed by exactly one finisher
	c.ruleLastFinisher("R10.8")
	// a submission to a closed queue is rejected with no side effect other than closing the refused job
	c.ruleSubmitPaths("R10.9", submitChecks{reject: true})
	// closing a queue only stops submissions: what is pending stays and still runs
	c.ruleQueueCloseKeepsJobs("R10.10")
}

// ruleQueueCloseKeepsJobs: no Close of a queue (the bound queue wrappers and the in-memory queues behind them) can
// synchronously reach an operation that removes or cancels pending jobs (Purge, Dequeue, a job's Close).
func (c *Ctx) ruleQueueCloseKeepsJobs(rule string) {
	c.Rep.rule(rule, "call graph (no spawn edges)", "no queue Close reaches Purge, Dequeue or a job's Close", 3)
	isQueueType := func(t types.Type) bool {
		if p, ok := t.(*types.Pointer); ok {
			t = p.Elem()
		}
		has := map[string]bool{}
		for _, tt := range []types.Type{t, types.NewPointer(t)} {
			ms := types.NewMethodSet(tt)
			for i := 0; i < ms.Len(); i++ {
				has[ms.At(i).Obj().Name()] = true
			}
		}
		return has["Purge"] && has["Close"]
	}
	n := 0
	for _, f := range c.P.Funcs {
		if f.Obj == nil || f.Body == nil || !f.Lib || f.Obj.Name() != "Close" || f.Decl.Recv == nil {
			continue
		}
		recv := f.Obj.Type().(*types.Signature).Recv().Type()
		if !isQueueType(recv) {
			continue
		}
		n++
		em := c.emitsSync(f)
		var hit []string
		for _, s := range []string{"deq", "qpurge"} {
			if em[s] {
				hit = append(hit, s)
			}
		}
		if c.reachesSync(f, kCloserI) {
			hit = append(hit, "job Close")
		}
		// the in-memory queues' own removing methods
		for _, g := range c.P.Funcs {
			if g.Obj == nil || g.Decl == nil || g.Decl.Recv == nil || !g.Lib {
				continue
			}
			if nm := g.Obj.Name(); (nm == "Purge" || nm == "Dequeue" || nm == "DequeueWithAckId") && isQueueType(g.Obj.Type().(*types.Signature).Recv().Type()) && c.reachesSync(f, g.Key) {
				hit = append(hit, shortKey(g.Key))
			}
		}
		c.Rep.check(len(hit) == 0, rule, f.Short(), "queue Close removes or cancels pending jobs", c.P.pos(f.Body), "Close leaves the pending jobs alone",
			fmt.Sprintf("%s can synchronously reach %v: closing the queue would remove or cancel jobs that were accepted before and must still run", f.Short(), hit))
	}
	if n == 0 {
		c.Rep.undecided(rule, "-", "no queue Close", "", "no Close method of a queue type found")
	}
}

// statusStoreSites: every plain store of the job status (direct Store or via
// the one-line setter), with the constant stored.
type storeSite struct {
	cs    CallSite
	value string // status name, "" if not constant
}

func (c *Ctx) statusStoreSites() []storeSite {
	R := c.R
	js := c.jobStatus()
	var out []storeSite
	setter := c.methodOf(R.JobT, "changeStatus")
	for _, cs := range c.P.allCalls(false) {
		info := cs.In.Info()
		var arg ast.Expr
		if fk, m := atomicOp(info, cs.Call); fk == R.FJobStatus && fk != "" && (m == "Store" || m == "Swap") && len(cs.Call.Args) == 1 {
			if cs.In == setter {
				continue // the setter itself: its call sites are what matters
			}
			arg = cs.Call.Args[0]
		} else if jobMethod(info, cs.Call, cs.Callee) == "changeStatus" && len(cs.Call.Args) == 1 {
			arg = cs.Call.Args[0]
		} else {
			continue
		}
		v := ""
		if tv := info.Types[arg]; tv.Value != nil {
			v = js.ByVal[tv.Value.ExactString()]
		}
		out = append(out, storeSite{cs: cs, value: v})
	}
	return out
}

func (c *Ctx) rulePlainStatusStores(rule string) {
	R := c.R
	c.Rep.rule(rule, "E5 check-then-act", "plain stores of the job status only where the job is exclusively owned; other transitions are compare-and-swap from an allowed source state, and the caller acts on the CAS result", 6)
	submit := map[*Func]bool{}
	for _, f := range c.submitFuncs() {
		submit[f] = true
	}
	for _, s := range c.statusStoreSites() {
		f := s.cs.In
		where := ""
		switch {
		case c.storeOnFreshJob(s.cs):
			where = "on a job still private to its constructor"
		case submit[f] && s.value == "Queued":
			where = "in a submit path (publication order is R16.1)"
		case s.value == "Finished" && c.allowedThroughCallers(f, func(g *Func) bool { return g == R.Completion }, 0):
			where = "in the completion callback or a helper only it calls (the job is Processing and owned by this pool goroutine)"
		}
		c.Rep.check(where != "", rule, f.Short(), "plain store of job status "+s.value, c.P.pos(s.cs.Call), "plain store of "+s.value+" "+where,
			fmt.Sprintf("the job status is set to %s with a plain store in %s, where another goroutine (user Close, dispatcher, completion) may change it concurrently: the transition must be a compare-and-swap (check-then-store loses one of the two updates)", s.value, f.Short()))
	}
}

// storeOnFreshJob: the receiver of the store is a local that holds a job the
// function itself constructed.
func (c *Ctx) storeOnFreshJob(cs CallSite) bool {
	info := cs.In.Info()
	sel, ok := ast.Unparen(cs.Call.Fun).(*ast.SelectorExpr)
	if !ok {
		return false
	}
	o := rootIdent(info, sel.X)
	v, ok := o.(*types.Var)
	if !ok || isParamOf(cs.In, v) {
		return false
	}
	fresh, n := assignedOnlyFrom(cs.In, v, func(rhs ast.Expr, idx, cnt int) bool { return c.freshExpr(cs.In, rhs) })
	return n > 0 && fresh
}

func (c *Ctx) ruleCasTransitions(rule string) {
	R := c.R
	c.Rep.rule(rule, "E5 check-then-act", "compare-and-swap transitions of the job status, enumerated under interference, only move forward (to Processing never from Closed; to Closed only from Created/Queued/Finished) and their success is what callers act on", 6)
	js := c.jobStatus()
	var domain []string
	for _, n := range []string{"Created", "Queued", "Processing", "Finished", "Closed"} {
		domain = append(domain, js.ByName[n])
	}
	// functions containing a CAS on the job status
	var casFuncs []*Func
	for _, cs := range c.P.allCalls(false) {
		if fk, m := atomicOp(cs.In.Info(), cs.Call); fk == R.FJobStatus && fk != "" && m == "CompareAndSwap" {
			casFuncs = appendUnique(casFuncs, cs.In)
		}
	}
	if len(casFuncs) == 0 {
		c.Rep.fail(rule, "-", "no compare-and-swap on the job status", "", "no transition of the job status is a compare-and-swap: cancelling (Close) and starting (dispatcher) a job are then both check-then-act and can both succeed")
		return
	}
	toClosed, toProcessing := false, false
	for _, f := range casFuncs {
		v := c.vocab([]string{"statuscas:", "casok"}, nil)
		sr := v.seq(rule, false)
		sr.trackField = R.FJobStatus
		sr.trackAny = domain
		for _, sg := range sr.segments(f) {
			if sg.Kind != "path" {
				continue
			}
			desc := "[" + strings.Join(sg.Syms, " ") + "]"
			for _, s := range sg.Syms {
				if !strings.HasPrefix(s, "statuscas:") {
					continue
				}
				tr := s[len("statuscas:"):]
				parts := strings.SplitN(tr, ">", 2)
				if len(parts) != 2 {
					continue
				}
				from, to := parts[0], parts[1]
				switch to {
				case "Closed":
					toClosed = true
					good := from == "Created" || from == "Queued" || from == "Finished"
					c.Rep.check(good, rule, f.Short(), "compare-and-swap to Closed from "+from, sg.End, "attempts "+from+" → Closed",
						fmt.Sprintf("%s can attempt the transition %s → Closed (a Load that returned %s reaches the compare-and-swap): closing a %s job succeeds again / a running job is cancelled %s", f.Short(), from, from, strings.ToLower(from), desc))
				case "Processing":
					toProcessing = true
					c.Rep.check(from != "Closed", rule, f.Short(), "compare-and-swap to Processing from "+from, sg.End, "attempts "+from+" → Processing",
						fmt.Sprintf("%s can attempt the transition Closed → Processing: a cancelled job is started %s", f.Short(), desc))
				}
			}
			// the success result is backed by a won CAS
			if len(sg.Ret) == 1 && (sg.Ret[0].Kind == VNil || sg.Ret[0].isTrue()) {
				last := ""
				for _, s := range sg.Syms {
					if s == "casok" || strings.HasPrefix(s, "statuscas:") {
						last = s
					}
				}
				c.Rep.check(last == "casok", rule, f.Short(), "success reported without a won compare-and-swap", sg.End, "success only after a won compare-and-swap",
					f.Short()+" reports success on a path where its last compare-and-swap did not succeed (or none was attempted): "+desc)
			}
		}
	}
	c.Rep.check(toClosed, rule, "-", "no compare-and-swap to Closed", "", "a compare-and-swap moves jobs to Closed", "no compare-and-swap moves a job to Closed: Close is check-then-store and two closers (or a closer and the dispatcher) can both win")
	c.Rep.check(toProcessing, rule, "-", "no compare-and-swap to Processing", "", "a compare-and-swap moves jobs to Processing", "no compare-and-swap moves a job to Processing: the dispatcher's closed test and its status store are check-then-act, a job cancelled in between runs anyway")
}

func (c *Ctx) ruleClosedQueueRejects(rule string) {
	c.Rep.rule(rule, "E2 path", "in-memory Enqueue: the closed test precedes every mutation, its true branch returns false without side effect; Close stores true; nothing stores false", 6)
	r := c.pqRoles(rule)
	closedField := func(f *Func) string {
		if f == nil || f.Obj == nil {
			return ""
		}
		n := namedOf(f.Obj.Type().(*types.Signature).Recv().Type())
		if n == nil {
			return ""
		}
		st, _ := n.Underlying().(*types.Struct)
		if st == nil {
			return ""
		}
		for i := 0; i < st.NumFields(); i++ {
			if isNamed(st.Field(i).Type(), "sync/atomic.Bool") {
				return qualTypeName(n) + "." + st.Field(i).Name()
			}
		}
		return ""
	}
	for _, f := range []*Func{r.fifoEnq, r.pqEnq} {
		if f == nil {
			continue
		}
		cf := closedField(f)
		if cf == "" {
			c.Rep.undecided(rule, f.Short(), "closed flag", c.P.pos(f.Body), "the queue has no atomic.Bool closed flag")
			continue
		}
		sr := &seqRule{c: c, rule: rule}
		sr.classify = func(fr *Frame, call *ast.CallExpr, ce *Callee, args []Value) *callEvent {
			if fk, m := atomicOp(fr.Fn.Info(), call); fk == cf && m == "Load" {
				return &callEvent{Name: "closed?", Atomic: true, Results: tok("qclosed")}
			} else if fk != "" && m != "Load" && strings.HasPrefix(fk, qualTypeName(namedOf(f.Obj.Type().(*types.Signature).Recv().Type()))+".") {
				return &callEvent{Name: "mutate:" + shortKey(fk), Atomic: true}
			}
			switch ce.Key {
			case "container/heap.Push":
				return &callEvent{Name: "mutate:heap", Atomic: true}
			case modPath + "/internal/linkedbuffer.Chunk.Push":
				return &callEvent{Name: "mutate:chunk", Atomic: true}
			case "sync.RWMutex.Lock", "sync.Mutex.Lock":
				return &callEvent{Name: "lock", Atomic: true}
			}
			return nil
		}
		sr.condSym = func(fr *Frame, token, rel string) string { return token + "=" + rel }
		sr.visit = func(fr *Frame, n ast.Node) string {
			switch x := n.(type) {
			case *ast.IncDecStmt:
				if selField(fr.Fn.Info(), x.X) != "" {
					return "mutate:field"
				}
			case *ast.AssignStmt:
				for _, l := range x.Lhs {
					if selField(fr.Fn.Info(), l) != "" {
						return "mutate:field"
					}
				}
			}
			return ""
		}
		sawClosed := false
		for _, sg := range sr.segments(f) {
			if sg.Kind != "path" {
				continue
			}
			desc := "[" + strings.Join(sg.Syms, " ") + "]"
			mut := -1
			for i, s := range sg.Syms {
				if strings.HasPrefix(s, "mutate:") && mut < 0 {
					mut = i
				}
			}
			if sg.has("qclosed=true") {
				sawClosed = true
				c.Rep.check(mut < 0 && len(sg.Ret) == 1 && sg.Ret[0].isFalse(), rule, f.Short(), "closed queue accepts or is modified", sg.End, "closed queue: false, no side effect",
					"Enqueue on a closed queue must return false without modifying anything: "+desc)
			} else if mut >= 0 {
				c.Rep.check(sg.index("qclosed=false") >= 0 && sg.index("qclosed=false") < mut, rule, f.Short(), "mutation not behind the closed test", sg.End, "closed test (false) precedes the mutation",
					"Enqueue modifies the queue without having tested the closed flag first: "+desc)
			}
		}
		c.Rep.check(sawClosed, rule, f.Short(), "Enqueue never tests the closed flag", c.P.pos(f.Body), "Enqueue tests the closed flag", "Enqueue does not test the queue's closed flag: submissions after Close() are accepted")
		// writers of the flag
		for _, cs := range c.P.allCalls(false) {
			fk, m := atomicOp(cs.In.Info(), cs.Call)
			if fk != cf || m == "Load" {
				continue
			}
			isTrue := false
			if m == "Store" && len(cs.Call.Args) == 1 {
				if tv := cs.In.Info().Types[cs.Call.Args[0]]; tv.Value != nil && tv.Value.ExactString() == "true" {
					isTrue = true
				}
			}
			c.Rep.check(isTrue && cs.In.Obj != nil && cs.In.Obj.Name() == "Close", rule, cs.In.Short(), "closed flag written other than Close storing true", c.P.pos(cs.Call), "Close stores true",
				"the closed flag may only be set to true, by Close (a queue must not be reopened behind the submitters' back)")
		}
		// Close stores it
		stored := false
		for _, g := range c.P.Funcs {
			if g.Obj != nil && g.Obj.Name() == "Close" && g.Decl.Recv != nil && namedOf(g.Obj.Type().(*types.Signature).Recv().Type()) != nil &&
				namedOf(g.Obj.Type().(*types.Signature).Recv().Type()).Origin() == namedOf(f.Obj.Type().(*types.Signature).Recv().Type()).Origin() {
				for _, cs := range c.P.calls(g) {
					if fk, m := atomicOp(g.Info(), cs.Call); fk == cf && m == "Store" {
						stored = true
					}
				}
			}
		}
		c.Rep.check(stored, rule, f.Short(), "Close does not set the closed flag", c.P.pos(f.Body), "the queue's Close stores the flag", "the queue's Close() does not set the closed flag: later submissions are still accepted")
	}
}

// ruleValuesComplete: the FIFO queue's Values() (the snapshot Purge cancels from) may return early only when
// the whole queue is empty; an emptiness test of one segment is not that.
func (c *Ctx) ruleValuesComplete(rule string) {
	r := c.pqRoles(rule)
	if r.fifo == nil {
		return
	}
	var vals, lenF *Func
	for _, f := range c.P.Funcs {
		if f.Obj != nil && f.Decl.Recv != nil {
			if n := namedOf(f.Obj.Type().(*types.Signature).Recv().Type()); n != nil && n.Origin() == r.fifo {
				switch f.Obj.Name() {
				case "Values":
					vals = f
				case "Len":
					lenF = f
				}
			}
		}
	}
	if vals == nil || lenF == nil {
		c.Rep.undecided(rule, "Queue.Values", "missing", "", "FIFO Values()/Len() not found")
		return
	}
	info := vals.Info()
	sr := &seqRule{c: c, rule: rule}
	sr.classify = func(fr *Frame, call *ast.CallExpr, ce *Callee, args []Value) *callEvent {
		if ce.Key == lenF.Key {
			return &callEvent{Atomic: true, Results: tok("qlen")}
		}
		return nil
	}
	sr.condExpr = func(fr *Frame, e ast.Expr, branch bool, ip *Interp, st *State) string {
		be, op := binOp(e)
		if be == nil || fr.Caller != nil {
			return ""
		}
		isLen := false
		if call, ok := ast.Unparen(be.X).(*ast.CallExpr); ok && resolveCallee(info, call).Key == lenF.Key {
			isLen = true
		} else if id, ok := ast.Unparen(be.X).(*ast.Ident); ok {
			// n := q.Len(); if n == 0 { ... }
			if obj := info.ObjectOf(id); obj != nil {
				all, cnt := assignedOnlyFrom(vals, obj, func(rhs ast.Expr, idx, n int) bool {
					call, ok := ast.Unparen(rhs).(*ast.CallExpr)
					return ok && resolveCallee(info, call).Key == lenF.Key
				})
				isLen = all && cnt == 1
			}
		}
		if isLen {
			if tv := info.Types[be.Y]; tv.Value != nil && tv.Value.ExactString() == "0" {
				switch op {
				case token.EQL:
					return fmt.Sprintf("empty=%v", branch)
				case token.NEQ, token.GTR:
					return fmt.Sprintf("empty=%v", !branch)
				}
			}
		}
		return ""
	}
	n := 0
	for _, sg := range sr.segments(vals) {
		if sg.Kind != "path" {
			continue
		}
		n++
		walked := false
		for _, s := range sg.Syms {
			if strings.HasPrefix(s, "loop@") {
				walked = true
			}
		}
		c.Rep.check(walked || sg.has("empty=true"), rule, vals.Short(), "Values returns early without the whole queue being empty", sg.End, "early return only when Len() == 0",
			"Values() returns without walking the segments on a path that did not establish Len() == 0 (e.g. it tested only the current read segment, which Dequeue leaves exhausted before it advances): Purge then cancels nothing although jobs are stored ["+strings.Join(sg.Syms, " ")+"]")
	}
	if n == 0 {
		c.Rep.undecided(rule, vals.Short(), "no path", "", "")
	}
	// every segment is listed from its own read index to its own write index: the bounds of the inner loop are
	// fields of the segment the outer loop is at (a read offset taken from the first segment and applied to the
	// following ones skips their first items: Purge then removes jobs it never cancels)
	var outerVar types.Object
	var inner *ast.ForStmt
	ast.Inspect(vals.Body, func(nd ast.Node) bool {
		fs, ok := nd.(*ast.ForStmt)
		if !ok {
			return true
		}
		if as, ok := fs.Init.(*ast.AssignStmt); ok && len(as.Lhs) == 1 && outerVar == nil {
			if _, isPtr := info.TypeOf(as.Lhs[0]).Underlying().(*types.Pointer); isPtr {
				outerVar = rootIdent(info, as.Lhs[0])
				ast.Inspect(fs.Body, func(m ast.Node) bool {
					if in, ok := m.(*ast.ForStmt); ok && inner == nil {
						inner = in
					}
					return true
				})
			}
		}
		return true
	})
	if outerVar == nil || inner == nil {
		c.Rep.undecided(rule, vals.Short(), "segment walk not recognised", c.P.pos(vals.Body), "Values() is not an outer loop over segments with an inner index loop")
		return
	}
	fromSegment := func(e ast.Expr) bool {
		sel, ok := ast.Unparen(e).(*ast.SelectorExpr)
		return ok && rootIdent(info, sel.X) == outerVar
	}
	lo, hi := false, false
	if as, ok := inner.Init.(*ast.AssignStmt); ok && len(as.Rhs) == 1 {
		lo = fromSegment(as.Rhs[0])
	}
	if be, ok := ast.Unparen(inner.Cond).(*ast.BinaryExpr); ok && (be.Op == token.LSS || be.Op == token.LEQ) {
		hi = fromSegment(be.Y)
	}
	c.Rep.check(lo && hi, rule, vals.Short(), "segment listed with bounds that are not its own", c.P.pos(inner), "inner loop from segment.read to segment.write of the current segment",
		"Values() walks a segment with a start or end index that is not a field of that segment (e.g. the read offset of the first segment applied to all): items of later segments are left out of the snapshot, Purge wipes them without cancelling them")
}

func (c *Ctx) rulePurge(rule string) {
	c.Rep.rule(rule, "E2+value flow", "Purge closes every removed io.Closer value, and the values it closes come from the operation that removes them", 2)
	c.ruleValuesComplete(rule)
	// value identity through the interpreter: what Values() returned is the token "snapshot", an element of it
	// "snapshot[]" (range or index), a type assertion keeps the token; helpers (cancelAll(values)) are inlined
	var reachesCloser func(f *Func, depth int) bool
	reachesCloser = func(f *Func, depth int) bool {
		if c.P.containsCall(f, kCloserI) {
			return true
		}
		if depth == 0 {
			return false
		}
		for _, cs := range c.P.calls(f) {
			if g := c.P.byObj[cs.Callee.Key]; g != nil && g.Lib && g != f && g.Pkg.PkgPath == modPath && reachesCloser(g, depth-1) {
				return true
			}
		}
		return false
	}
	for _, f := range filterPkg(c.P.funcsCalling(kPurgeI), modPath) {
		if !c.P.containsCall(f, kValuesI) && !reachesCloser(f, 2) {
			// a thin forwarder (persistentQueue.Purge → queue.Purge is a method call on the embedded type, not IBaseQueue.Purge)
			continue
		}
		sr := &seqRule{c: c, rule: rule}
		sr.relevant = func(g *Func) bool { return reachesCloser(g, 2) }
		sr.classify = func(fr *Frame, call *ast.CallExpr, ce *Callee, args []Value) *callEvent {
			switch ce.Key {
			case kValuesI:
				return &callEvent{Name: "values", Atomic: true, Results: tok("snapshot")}
			case kPurgeI:
				return &callEvent{Name: "qpurge", Atomic: true}
			case kCloserI:
				n := "other"
				if ce.RecvVal.Kind == VTok {
					n = ce.RecvVal.S
				}
				return &callEvent{Name: "close:" + n, Atomic: true}
			}
			if g := c.P.byObj[ce.Key]; g != nil && g.Lib && reachesCloser(g, 2) {
				return nil // inline
			}
			return &callEvent{Atomic: true}
		}
		closesSnapshot, closesOther, leaves := false, false, false
		for _, sg := range sr.segments(f) {
			for _, sym := range sg.Syms {
				if sym == "close:snapshot[]" {
					closesSnapshot = true
					if sg.Kind == "iter" && (sg.Exit || sg.How == "exit" || sg.has("break")) {
						leaves = true
					}
				} else if strings.HasPrefix(sym, "close:") {
					closesOther = true
				}
			}
		}
		c.Rep.check((closesSnapshot || closesOther) && !leaves, rule, f.Short(), "Purge does not close the removed values", c.P.pos(f.Body), "every removed io.Closer is closed",
			"Purge removes pending jobs without closing every one of them (no Close on the removed values, or the closing loop is left early): their waiters are never released")
		if closesSnapshot {
			c.Rep.check(false, rule, f.Short(), "Values() then Purge(): two critical sections", c.P.pos(f.Body), "the closed values come from the removing operation",
				"Purge closes the snapshot returned by Values() and then calls Purge() separately: a job enqueued between the two is removed from the queue but never closed (its Wait() hangs, it never runs)")
		}
	}
}

// ruleCloseEffectsNeedWin: under interference (any Load of the job status may return any value, a compare-and-swap may
// fail) every Close implementation performs its once-only effects — releasing Wait (WaitGroup.Done), counting the
// batch item off (WgCounter.Done), closing the outcome stream — only on paths where its own compare-and-swap to Closed
// was won, and reports nil exactly on those paths. A Close that loses the transition (to another closer or to the
// dispatcher) must leave everything to the winner.
func (c *Ctx) ruleCloseEffectsNeedWin(rule string) {
	R := c.R
	c.Rep.rule(rule, "E5 check-then-act (interference)", "every Close: WaitGroup.Done / WgCounter.Done / stream close only after its own won compare-and-swap; nil exactly when won", 12)
	js := c.jobStatus()
	var domain []string
	for _, n := range []string{"Created", "Queued", "Processing", "Finished", "Closed"} {
		domain = append(domain, js.ByName[n])
	}
	once := map[string]bool{"wgdone": true, "wgcdone": true, "respclose": true}
	for _, f := range c.closeImpls() {
		v := c.vocab([]string{"statuscas:", "casok", "wgdone", "wgcdone", "respclose"}, map[string]bool{"wgdone": true, "wgcdone": true, "respclose": true})
		sr := v.seq(rule, false)
		sr.trackField = R.FJobStatus
		sr.trackAny = domain
		for _, sg := range sr.segments(f) {
			if sg.Kind != "path" {
				continue
			}
			desc := "[" + strings.Join(sg.Syms, " ") + "]"
			won := -1
			firstFx := -1
			for i, s := range sg.Syms {
				if s == "casok" && won < 0 {
					won = i
				}
				if once[s] && firstFx < 0 {
					firstFx = i
				}
			}
			c.Rep.check(firstFx < 0 || (won >= 0 && won < firstFx), rule, f.Short(), "once-only effect without a won transition", sg.End, "effects only after the won compare-and-swap",
				f.Short()+" releases waiters / counts the batch item off / closes the outcome stream on a path where its own transition to Closed was not won (another closer or the dispatcher won it and does the same): double release or a batch counter that reaches zero early "+desc)
			if len(sg.Ret) == 1 {
				if sg.Ret[0].Kind == VNil {
					c.Rep.check(won >= 0, rule, f.Short(), "Close reports success without winning the transition", sg.End, "nil only after a won compare-and-swap",
						f.Short()+" returns nil on a path where it did not win the transition to Closed "+desc)
				} else if won >= 0 && (sg.Ret[0].Kind == VObj || sg.Ret[0].Kind == VNonNil) {
					c.Rep.fail(rule, f.Short(), "Close reports an error after winning the transition", sg.End, f.Short()+" won the transition to Closed but returns an error "+desc)
				}
			}
		}
	}
}
