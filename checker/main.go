package main

import (
	"encoding/json"
	"flag"
	"fmt"
	"os"
	"path/filepath"
	"runtime/debug"
	"sort"
	"strconv"
	"strings"
	"time"
)

type propDef struct {
	ID   string
	Info propInfo
	Run  func(c *Ctx)
}

// Ctx is what a property's rule set works with.
type Ctx struct {
	P    *Prog
	R    *Roles
	Rep  *Report
	Tier string

	jobSt, workerSt *statusTable
	cache           map[string]any
}

var props = map[string]*propDef{}

func register(p *propDef) { props[p.ID] = p }

func main() {
	var (
		prop     = flag.String("p", "", "property id (C01..C19) or 'all'")
		tier     = flag.String("tier", "quick", "quick|thorough")
		repo     = flag.String("repo", "/repo", "repository working tree to analyse")
		verif    = flag.String("verif", "", "verif directory (default: parent of the binary's directory)")
		overlayF = flag.String("overlay", "", "JSON file {absolute file name: replacement content} (self-test only)")
		jsonOut  = flag.Bool("json", false, "print findings as JSON (self-test only); writes no evidence")
		roles    = flag.Bool("roles", false, "print the resolved anchors and exit")
		explain  = flag.String("explain", "", "print the stored report of an evidence file")
		noSelf   = flag.Bool("no-selftest", false, "skip positive controls / mutation self-test")
		dump     = flag.String("dump", "", "debug: print the symbol sequences of a function (short key)")
		keep     = flag.String("keep", "", "debug: comma-separated symbols to keep in -dump")
	)
	flag.Parse()
	if *explain != "" {
		b, err := os.ReadFile(*explain)
		if err != nil {
			fmt.Fprintln(os.Stderr, err)
			os.Exit(2)
		}
		os.Stdout.Write(b)
		return
	}
	if *verif == "" {
		exe, _ := os.Executable()
		*verif = filepath.Dir(filepath.Dir(exe))
	}
	if t := os.Getenv("VERIF_TIER"); t != "" && *tier == "" {
		*tier = t
	}
	seed := int64(0)
	if s := os.Getenv("VERIF_SEED"); s != "" {
		seed, _ = strconv.ParseInt(s, 10, 64)
	}
	start := time.Now()
	var overlay map[string][]byte
	if *overlayF != "" {
		b, err := os.ReadFile(*overlayF)
		if err != nil {
			fmt.Fprintln(os.Stderr, err)
			os.Exit(2)
		}
		var m map[string]string
		if err := json.Unmarshal(b, &m); err != nil {
			fmt.Fprintln(os.Stderr, err)
			os.Exit(2)
		}
		overlay = map[string][]byte{}
		for k, v := range m {
			overlay[k] = []byte(v)
		}
	}
	if id := os.Getenv("VARMQLINT_MUTANT"); id != "" && overlay == nil {
		// debug: analyse the tree with one self-test mutant / benign variant applied (in memory)
		for _, m := range mutants {
			if m.ID != id {
				continue
			}
			path := filepath.Join(*repo, m.File)
			src, err := os.ReadFile(path)
			if err != nil {
				fmt.Fprintln(os.Stderr, err)
				os.Exit(2)
			}
			idx := nthIndex(string(src), m.Old, m.N)
			if idx < 0 {
				fmt.Fprintln(os.Stderr, "mutant target absent")
				os.Exit(2)
			}
			overlay = map[string][]byte{path: []byte(string(src)[:idx] + m.New + string(src)[idx+len(m.Old):] + m.Append)}
		}
	}
	var ids []string
	if *prop == "all" {
		for id := range props {
			ids = append(ids, id)
		}
		sort.Strings(ids)
	} else if props[*prop] != nil {
		ids = []string{*prop}
	} else if !*roles && *dump == "" {
		fmt.Fprintf(os.Stderr, "unknown property %q\n", *prop)
		os.Exit(2)
	}
	known, err := loadKnown(filepath.Join(*verif, "known_findings.json"))
	if err != nil {
		fmt.Fprintf(os.Stderr, "known_findings.json: %v\n", err)
		os.Exit(2)
	}
	evDir := filepath.Join(*verif, "evidence")
	if *jsonOut {
		evDir = ""
	}

	p, err := loadProg(*repo, overlay, *tier == "thorough" && overlay == nil)
	if err != nil {
		// a tree that does not load or type-check cannot be decided: fail loudly
		fmt.Printf("cannot analyse %s: %v\n", *repo, err)
		for _, id := range ids {
			writeBrokenEvidence(evDir, id, *tier, seed, start, err.Error())
			fmt.Printf("VIOLATION property=%s replay=%s\n", id, filepath.Join(evDir, id+".json"))
		}
		os.Exit(1)
	}
	r := resolveRoles(p)
	if *roles {
		for _, l := range r.describe() {
			fmt.Println(l)
		}
		for _, pr := range r.Problems {
			fmt.Println(pr)
		}
		return
	}
	if *dump == "locks" {
		ctx := &Ctx{P: p, R: r, Rep: newReport("dump", p), Tier: *tier}
		lf := ctx.lockFacts()
		fmt.Println("roots:", len(lf.Roots), lf.Roots)
		fmt.Println("skipped:", lf.Skipped)
		fmt.Println("problems:", lf.Problems)
		byField := map[string][]Access{}
		for _, a := range lf.Accesses {
			byField[a.Field] = append(byField[a.Field], a)
		}
		var fields []string
		for f := range byField {
			fields = append(fields, f)
		}
		sort.Strings(fields)
		for _, f := range fields {
			fmt.Println(shortKey(f))
			for _, a := range byField[f] {
				rw := "R"
				if a.Write {
					rw = "W"
				}
				pv := ""
				if a.Private {
					pv = " private"
				}
				fmt.Printf("   %s %s %s%s  [%s]\n", rw, p.posOf(a.Pos), locksString(a.Locks), pv, a.Chain)
			}
		}
		for _, o := range lf.Ops {
			fmt.Printf("op %s %s %s extra=%s [%s]\n", o.Op, p.posOf(o.Pos), locksString(o.Locks), o.Extra, o.Chain)
		}
		seen := map[string]bool{}
		for _, e := range lf.Edges {
			k := shortKey(e.From) + " -> " + shortKey(e.To)
			if !seen[k] {
				seen[k] = true
				fmt.Println("edge", k, p.posOf(e.Pos), e.Chain)
			}
		}
		return
	}
	if *dump == "jobclose" {
		ctx := &Ctx{P: p, R: r, Rep: newReport("dump", p), Tier: *tier}
		for _, l := range ctx.jobCloseTable().dump() {
			fmt.Println(l)
		}
		return
	}
	if *dump == "lifecycle" {
		ctx := &Ctx{P: p, R: r, Rep: newReport("dump", p), Tier: *tier}
		for _, l := range ctx.lifecycle().dump() {
			fmt.Println(l)
		}
		return
	}
	if *dump != "" {
		ctx := &Ctx{P: p, R: r, Rep: newReport("dump", p), Tier: *tier}
		var f *Func
		for _, x := range p.Funcs {
			if x.Short() == *dump {
				f = x
			}
		}
		if f == nil {
			fmt.Println("no such function; candidates:")
			for _, x := range p.Funcs {
				if strings.Contains(x.Short(), *dump) {
					fmt.Println(" ", x.Short())
				}
			}
			return
		}
		var sr *seqRule
		if *keep == "" {
			sr = &seqRule{c: ctx, rule: "dump", classify: ctx.classifier(nil, nil), visit: ctx.visitSym, cutLoops: true,
				condSym: func(fr *Frame, token, rel string) string { return token + "=" + rel }}
		} else {
			sr = ctx.vocab(strings.Split(*keep, ","), nil).seq("dump", true)
		}
		for _, sg := range sr.segments(f) {
			fmt.Printf("%s  -> ret %v @%s\n", sg, sg.Ret, sg.End)
		}
		for _, f := range ctx.Rep.Findings {
			fmt.Println("finding:", f.Msg)
		}
		return
	}
	exit := 0
	var all []Finding
	for _, id := range ids {
		def := props[id]
		rep := newReport(id, p)
		rep.Notes = append(rep.Notes, r.describe()...)
		ctx := &Ctx{P: p, R: r, Rep: rep, Tier: *tier}
		func() {
			defer func() {
				if e := recover(); e != nil {
					rep.undecided("internal", "-", "analyser panic", "", fmt.Sprintf("%v\n%s", e, debug.Stack()))
				}
			}()
			for _, pr := range r.Problems {
				rep.undecided("anchors", "-", pr, "", pr)
			}
			def.Run(ctx)
		}()
		extra := map[string]any{}
		if !*noSelf && overlay == nil && !*jsonOut {
			selfOK, selfInfo := runSelfTest(ctx, def, *repo, *verif)
			extra["selftest"] = selfInfo
			if !selfOK {
				exit = 1
			}
		}
		if *jsonOut {
			rep.checkFloors()
			for _, f := range rep.Findings {
				if known.match(f) == nil {
					all = append(all, f)
				}
			}
			continue
		}
		if code := rep.finish(*tier, seed, start, known, def.Info, extra, evDir, false); code != 0 {
			exit = code
		}
	}
	if *jsonOut {
		b, _ := json.Marshal(all)
		fmt.Println(string(b))
		return
	}
	os.Exit(exit)
}

func writeBrokenEvidence(dir, id, tier string, seed int64, start time.Time, msg string) {
	if dir == "" {
		return
	}
	os.MkdirAll(dir, 0o755)
	ev := map[string]any{
		"property_id": id, "tier": tier, "seed": seed, "level": "other",
		"coverage": map[string]any{"explanation": "the tree could not be loaded or type-checked, so nothing was decided: " + msg,
			"obligations": 0, "discharged": 0, "evaluations": 1, "distinct_nontrivial": 2, "samples": []string{msg}},
		"wall_s": time.Since(start).Seconds(), "violations": 1,
	}
	b, _ := json.MarshalIndent(ev, "", " ")
	os.WriteFile(filepath.Join(dir, id+".json"), b, 0o644)
}

func has(s string, subs ...string) bool {
	for _, x := range subs {
		if strings.Contains(s, x) {
			return true
		}
	}
	return false
}
