package main

import (
	"fmt"
	"go/ast"
	"go/token"
	"go/types"
	"sort"
	"strings"
)

func init() {
	register(&propDef{
		ID: "C19",
		Info: propInfo{
			Technique:   "context-sensitive static lockset over every struct field of the library (abstract interpretation with callee inlining, CHA for interface calls)",
			Explanation: "For every struct field of the library packages the run collects all accesses reachable from the entry points (public API, goroutine bodies, callbacks handed to foreign code, closures returned to the user), each with its mode, the locks held along the call chain, and whether the object is still private to its constructor. A field passes when it is (a) never written after publication, (b) accessed everywhere under one common lock held in write mode by every writer, or (c) listed in the protection table as construction-time configuration or a channel hand-off, whose structural side conditions are re-checked on the current source. Anything else is a violation naming both access sites and their locksets. Package-level variables must not be assigned outside init.",
			NotDecided:  []string{"happens-before edges other than mutexes and the listed hand-offs (a correct but exotic synchronisation is reported, never silently accepted)", "races through user-supplied adapters or worker functions", "the mocks package (test helpers)", "lock identity is per (type, field), not per object"},
			Assumptions: []string{"sync, sync/atomic and channel operations are race-free by themselves", "internal packages are not callable by users; only functions reachable from the public API are entry points"},
		},
		Run: runC19,
	})
}

type protEntry struct {
	Kind  string // "config" | "handoff"
	Why   string
	Check func(c *Ctx, field string) (bool, string)
}

// protection is the explicit table of fields that are shared without a lock.
// Each entry carries the happens-before argument and a structural check that
// keeps the argument true on the current source.
var protection = map[string]protEntry{
	modPath + ".configs.*": {Kind: "config", Why: "written only by ConfigFunc closures, which are applied by mergeConfigs to its own local copy before the worker object exists; the worker keeps a value copy",
		Check: func(c *Ctx, field string) (bool, string) { return c.configFuncsAppliedLocally("ConfigFunc") }},
	modPath + ".jobConfigs.*": {Kind: "config", Why: "written only by JobConfigFunc closures, which loadJobConfigs applies to its own local value before the job is built",
		Check: func(c *Ctx, field string) (bool, string) { return c.configFuncsAppliedLocally("JobConfigFunc") }},
	modPath + ".job.ackId": {Kind: "handoff", Why: "set by the dispatcher only for a job delivered by an acknowledging adapter (non-empty receipt), before the job is handed to a pool goroutine through the node channel; jobs whose handle a user holds come from in-memory queues, for which nothing is written",
		Check: func(c *Ctx, field string) (bool, string) { return c.ackIdHandOff() }},
	modPath + ".job.queue": {Kind: "handoff", Why: "set by the dispatcher on a job it has just decoded (no other reference exists) before the hand-off through the node channel",
		Check: func(c *Ctx, field string) (bool, string) { return c.queueHandOff() }},
}

func runC19(c *Ctx) {
	rule := "R19.1"
	c.Rep.rule(rule, "E4 lockset", "every non-atomic shared struct field: immutable after publication, or one common lock (writers in write mode), or a listed and re-checked hand-off", 40)
	lf := c.lockFacts()
	for _, p := range lf.Problems {
		c.Rep.undecided(rule, "-", "walker: "+p, "", p)
	}
	for k := range lf.Reached {
		c.Rep.Analysed[k] = true
	}
	c.Rep.Notes = append(c.Rep.Notes, fmt.Sprintf("entry points analysed: %d; functions never reached from an entry point (not analysed): %v", len(lf.Roots), lf.Skipped))
	byField := map[string][]Access{}
	for _, a := range lf.Accesses {
		byField[a.Field] = append(byField[a.Field], a)
	}
	var fields []string
	for f := range byField {
		fields = append(fields, f)
	}
	sort.Strings(fields)
	for _, f := range fields {
		acc := byField[f]
		var np, writes []Access
		for _, a := range acc {
			if a.Private {
				continue
			}
			np = append(np, a)
			if a.Write {
				writes = append(writes, a)
			}
		}
		sf := shortKey(f)
		if len(writes) == 0 {
			c.Rep.ok(rule, sf+": never written after publication", "", fmt.Sprintf("%d access(es), %d constructor-private", len(acc), len(acc)-len(np)), len(acc) > 1)
			continue
		}
		// find a conflict: a write and another access without a common lock held W by the writer
		var conflictW, conflictA *Access
		for i := range writes {
			w := &writes[i]
			for j := range np {
				a := &np[j]
				if commonLock(w, a) {
					continue
				}
				if conflictW == nil {
					conflictW, conflictA = w, a
				}
			}
		}
		if conflictW == nil {
			c.Rep.ok(rule, sf+": consistently locked", c.P.posOf(writes[0].Pos), fmt.Sprintf("%d write(s), %d access(es), common lock %s", len(writes), len(np), locksString(writes[0].Locks)), true)
			continue
		}
		entry, listed := protection[f]
		if !listed {
			entry, listed = protection[f[:strings.LastIndex(f, ".")]+".*"]
		}
		if listed {
			ok, how := entry.Check(c, f)
			if ok {
				c.Rep.ok(rule, sf+": "+entry.Kind+" ("+entry.Why+")", c.P.posOf(conflictW.Pos), how, true)
				continue
			}
			c.Rep.fail(rule, conflictW.Fn.Short(), "unprotected access to "+sf, c.P.posOf(conflictW.Pos),
				fmt.Sprintf("%s is listed as %s, but the side condition no longer holds: %s", sf, entry.Kind, how))
			continue
		}
		c.Rep.fail(rule, conflictW.Fn.Short(), "unprotected access to "+sf, c.P.posOf(conflictW.Pos),
			fmt.Sprintf("data race candidate on %s: write at %s (locks %s, via %s) vs %s at %s (locks %s, via %s) share no lock held in write mode by the writer",
				sf, c.P.posOf(conflictW.Pos), locksString(conflictW.Locks), conflictW.Chain, rw(conflictA), c.P.posOf(conflictA.Pos), locksString(conflictA.Locks), conflictA.Chain))
	}
	c.packageVarsReadOnly("R19.2")
	c.ruleNoSharedCaptures("R19.3")
	// a copied mutex protects nothing
	c.ruleNoStateCopies("R19.4")
}

// concurrentLiterals: function literals that several goroutines may execute at
// the same time (the worker-function wrappers, the completion callback, every
// goroutine body, every callback handed to foreign code).
func (c *Ctx) concurrentLiterals() []*Func {
	var out []*Func
	for _, f := range c.fieldFuncTargets(c.R.FWorkerFn) {
		out = appendUnique(out, f)
	}
	if c.R.Completion != nil {
		out = appendUnique(out, c.R.Completion)
	}
	for _, g := range c.goSites() {
		if g.body != nil && g.body.Lit != nil {
			out = appendUnique(out, g.body)
		}
	}
	for _, h := range c.subscriptionHandlers() {
		if h.Lit != nil {
			out = appendUnique(out, h)
		}
	}
	return out
}

// ruleNoSharedCaptures: a literal that runs concurrently must not assign a
// variable declared outside itself (its own locals, also when assigned from a
// nested literal, are per invocation and fine).
func (c *Ctx) ruleNoSharedCaptures(rule string) {
	c.Rep.rule(rule, "E4 captures", "literals executed by several goroutines never assign variables declared outside themselves", 4)
	for _, f := range c.concurrentLiterals() {
		info := f.Info()
		bad := 0
		check := func(e ast.Expr, at ast.Node) {
			id, ok := ast.Unparen(e).(*ast.Ident)
			if !ok || id.Name == "_" {
				return
			}
			v, ok := info.ObjectOf(id).(*types.Var)
			if !ok || v.IsField() {
				return
			}
			if v.Pos() >= f.Lit.Pos() && v.Pos() < f.Lit.End() {
				return // declared inside the literal: one instance per invocation
			}
			bad++
			c.Rep.fail(rule, f.Short(), "assignment to captured variable "+v.Name(), c.P.pos(at),
				fmt.Sprintf("%s, which several goroutines execute at the same time, assigns %q declared outside it: the invocations share that variable (a data race, and one job can see another job's value)", f.Short(), v.Name()))
		}
		ast.Inspect(f.Body, func(n ast.Node) bool {
			switch x := n.(type) {
			case *ast.AssignStmt:
				if x.Tok == token.DEFINE {
					return true
				}
				for _, l := range x.Lhs {
					check(l, x)
				}
			case *ast.IncDecStmt:
				check(x.X, x)
			}
			return true
		})
		if bad == 0 {
			c.Rep.ok(rule, f.Short()+" assigns only its own variables", c.P.pos(f.Body), "all assigned identifiers are declared inside the literal", true)
		}
	}
}

func rw(a *Access) string {
	if a.Write {
		return "write"
	}
	return "read"
}

func commonLock(w, a *Access) bool {
	for l, m := range w.Locks {
		if m != "W" {
			continue
		}
		if _, ok := a.Locks[l]; ok {
			if a.Write && a.Locks[l] != "W" {
				continue
			}
			return true
		}
	}
	return false
}

// configFuncsAppliedLocally: values of the named func type are invoked only
// with the address of a local struct value of the calling function.
func (c *Ctx) configFuncsAppliedLocally(typeName string) (bool, string) {
	n := 0
	for _, f := range c.P.Funcs {
		if f.Body == nil {
			continue
		}
		info := f.Info()
		bad := ""
		ast.Inspect(f.Body, func(x ast.Node) bool {
			call, ok := x.(*ast.CallExpr)
			if !ok {
				return true
			}
			ft := info.TypeOf(call.Fun)
			if ft == nil || qualTypeName(ft) != modPath+"."+typeName {
				return true
			}
			if tv, ok := info.Types[call.Fun]; ok && tv.IsType() {
				return true // conversion
			}
			n++
			if len(call.Args) != 1 {
				bad = c.P.pos(call)
				return true
			}
			u, ok := ast.Unparen(call.Args[0]).(*ast.UnaryExpr)
			if !ok {
				bad = c.P.pos(call)
				return true
			}
			id, ok := ast.Unparen(u.X).(*ast.Ident)
			if !ok {
				bad = c.P.pos(call)
				return true
			}
			v, ok := info.ObjectOf(id).(*types.Var)
			if !ok || v.IsField() || v.Parent() == v.Pkg().Scope() {
				bad = c.P.pos(call)
				return true
			}
			if _, isStruct := v.Type().Underlying().(*types.Struct); !isStruct {
				bad = c.P.pos(call)
			}
			return true
		})
		if bad != "" {
			return false, typeName + " value applied to something other than the address of a local struct value at " + bad
		}
	}
	if n == 0 {
		return false, "no application site of " + typeName + " found"
	}
	// ... and nothing else writes a field of that struct type: every assignment to one of its fields goes through a
	// local value or a *parameter* of the struct type (the option closures, the merge loop, constructors), never
	// through a longer path such as w.Configs.x (the copy the worker keeps is read by every submitter)
	structName := map[string]string{"ConfigFunc": "configs", "JobConfigFunc": "jobConfigs"}[typeName]
	for _, f := range c.P.pkgFuncs(modPath) {
		if f.Body == nil {
			continue
		}
		info := f.Info()
		bad := ""
		ast.Inspect(f.Body, func(x ast.Node) bool {
			var lhs []ast.Expr
			switch st := x.(type) {
			case *ast.AssignStmt:
				lhs = st.Lhs
			case *ast.IncDecStmt:
				lhs = []ast.Expr{st.X}
			}
			for _, l := range lhs {
				sel, ok := ast.Unparen(l).(*ast.SelectorExpr)
				if !ok || !strings.HasPrefix(selField(info, sel), modPath+"."+structName+".") {
					continue
				}
				if _, direct := ast.Unparen(sel.X).(*ast.Ident); !direct {
					bad = c.P.pos(l)
				}
			}
			return true
		})
		if bad != "" {
			return false, "a field of " + structName + " is assigned through a longer path than a local or parameter (the copy kept by a published object) in " + f.Short() + " at " + bad + ": submitters copy that struct concurrently"
		}
	}
	return true, fmt.Sprintf("%d application site(s) of %s, each on the address of a local struct value; fields of %s are only assigned through locals/parameters", n, typeName, structName)
}

// writersOf: functions that assign the field (non-private accesses).
func (c *Ctx) writersOf(field string) []Access {
	var out []Access
	for _, a := range c.lockFacts().Accesses {
		if a.Field == field && a.Write && !a.Private {
			out = append(out, a)
		}
	}
	return out
}

// ackIdHandOff: the ack id is assigned only in its setter; the setter is
// called only from the dispatcher step, on a path where the receipt is known
// to be non-empty, and before the hand-off.
func (c *Ctx) ackIdHandOff() (bool, string) {
	R := c.R
	setter := c.methodOf(R.JobT, "setAckId")
	if setter == nil || R.Step == nil {
		return false, "setter or dispatcher step not found"
	}
	for _, w := range c.writersOf(R.FJobAckId) {
		if w.Fn != setter {
			return false, "job.ackId is also written in " + w.Fn.Short()
		}
	}
	okSites := 0
	for _, cs := range c.P.allCalls(false) {
		if m := jobMethod(cs.In.Info(), cs.Call, cs.Callee); m != "setAckId" {
			continue
		}
		if !c.allowedThroughCallers(cs.In, func(g *Func) bool { return g == R.Step }, 0) {
			return false, "setAckId called outside the dispatcher step: " + cs.In.Short()
		}
		okSites++
	}
	if okSites == 0 {
		return false, "no setAckId call found"
	}
	v := c.vocab([]string{"setack", "handoff", "ackid="}, map[string]bool{"handoff": true})
	sr := v.seq("R19.1", false)
	sr.condExpr = func(fr *Frame, e ast.Expr, branch bool, ip *Interp, st *State) string {
		be, _ := binOp(e)
		if be == nil {
			return ""
		}
		for _, side := range [][2]ast.Expr{{be.X, be.Y}, {be.Y, be.X}} {
			if v := ip.pureValue(fr, st, side[0]); v.Kind == VTok && v.S == "ackid" {
				if tv := fr.Fn.Info().Types[side[1]]; tv.Value != nil && tv.Value.ExactString() == `""` {
					nonEmpty := (be.Op.String() == "!=") == branch
					return fmt.Sprintf("ackid=nonempty:%v", nonEmpty)
				}
			}
		}
		return ""
	}
	for _, sg := range sr.segments(R.Step) {
		if !sg.has("setack") {
			continue
		}
		if !sg.before("ackid=nonempty:true", "setack") {
			return false, "setAckId is reached without the receipt having been tested non-empty (an in-memory job, whose handle a user may hold, would be written concurrently with its Close): [" + strings.Join(sg.Syms, " ") + "]"
		}
		if sg.has("handoff") && !sg.before("setack", "handoff") {
			return false, "setAckId after the hand-off"
		}
	}
	return true, "written only by setAckId, called only in the dispatcher step under ackId != \"\" and before the hand-off"
}

func (c *Ctx) queueHandOff() (bool, string) {
	R := c.R
	setter := c.methodOf(R.JobT, "setInternalQueue")
	if setter == nil || R.Step == nil {
		return false, "setter or dispatcher step not found"
	}
	for _, w := range c.writersOf(R.FJobQueue) {
		if w.Fn != setter {
			return false, "job.queue is also written in " + w.Fn.Short()
		}
	}
	parse := c.P.FuncByKey("parseToJob")
	n := 0
	for _, cs := range c.P.allCalls(false) {
		if m := jobMethod(cs.In.Info(), cs.Call, cs.Callee); m != "setInternalQueue" {
			continue
		}
		if !c.allowedThroughCallers(cs.In, func(g *Func) bool { return g == R.Step }, 0) {
			return false, "setInternalQueue called outside the dispatcher step: " + cs.In.Short()
		}
		n++
	}
	if n == 0 {
		return false, "no setInternalQueue call found"
	}
	v := c.vocab([]string{"setqueue", "handoff", "parse"}, map[string]bool{"handoff": true})
	sr := v.seq("R19.1", false)
	_ = parse
	for _, sg := range sr.segments(R.Step) {
		if !sg.has("setqueue") {
			continue
		}
		if !sg.before("parse", "setqueue") {
			return false, "setInternalQueue on a job that was not decoded in this invocation: [" + strings.Join(sg.Syms, " ") + "]"
		}
		if sg.has("handoff") && !sg.before("setqueue", "handoff") {
			return false, "setInternalQueue after the hand-off"
		}
	}
	return true, "written only by setInternalQueue, called only in the dispatcher step on a freshly decoded job and before the hand-off"
}

func (c *Ctx) packageVarsReadOnly(rule string) {
	c.Rep.rule(rule, "E1", "package-level variables of the library are never assigned in function bodies", 1)
	n := 0
	for _, f := range c.P.Funcs {
		if f.Body == nil {
			continue
		}
		info := f.Info()
		check := func(e ast.Expr, pos ast.Node) {
			o := rootIdent(info, e)
			v, ok := o.(*types.Var)
			if !ok || v.Pkg() == nil || v.Parent() != v.Pkg().Scope() || !libPkgs[v.Pkg().Path()] {
				return
			}
			c.Rep.fail(rule, f.Short(), "assignment to package variable "+v.Name(), c.P.pos(pos), "package-level variable "+v.Name()+" is written at run time without synchronisation")
		}
		ast.Inspect(f.Body, func(x ast.Node) bool {
			switch s := x.(type) {
			case *ast.AssignStmt:
				for _, l := range s.Lhs {
					check(l, s)
				}
				n++
			case *ast.IncDecStmt:
				check(s.X, s)
				n++
			}
			return true
		})
	}
	c.Rep.ok(rule, fmt.Sprintf("%d assignment statements inspected", n), "", "none targets a package-level variable", false)
}
