package main

// Anchors are resolved by role (what a function or field does), not by the
// name of unexported helpers or by position. Exported API names and the names
// of standard-library functions are stable by contract and are used directly.

import (
	"fmt"
	"go/ast"
	"go/token"
	"go/types"
	"sort"
	"strings"
)

const (
	kDequeue    = modPath + ".IBaseQueue.Dequeue"
	kDequeueAck = modPath + ".IAcknowledgeable.DequeueWithAckId"
	kAck        = modPath + ".IAcknowledgeable.Acknowledge"
	kPurgeI     = modPath + ".IBaseQueue.Purge"
	kValuesI    = modPath + ".IBaseQueue.Values"
	kLenI       = modPath + ".IBaseQueue.Len"
	kEnqueueQ   = modPath + ".IQueue.Enqueue"
	kEnqueuePQ  = modPath + ".IPriorityQueue.Enqueue"
	kSubscribe  = modPath + ".ISubscribable.Subscribe"
	kNodeSend   = modPath + "/internal/pool.Node.Send"
	kNodeStop   = modPath + "/internal/pool.Node.Stop"
	kNodeServe  = modPath + "/internal/pool.Node.Serve"
	kPopBack    = modPath + "/internal/linkedlist.List.PopBack"
	kPopFront   = modPath + "/internal/linkedlist.List.PopFront"
	kPushNode   = modPath + "/internal/linkedlist.List.PushNode"
	kRemove     = modPath + "/internal/linkedlist.List.Remove"
	kNodeSlice  = modPath + "/internal/linkedlist.List.NodeSlice"
	kListLen    = modPath + "/internal/linkedlist.List.Len"
	kRegister   = modPath + "/internal/helpers.Manager.Register"
	kUnregister = modPath + "/internal/helpers.Manager.UnregisterItem"
	kMgrLen     = modPath + "/internal/helpers.Manager.Len"
	kWithSafe   = modPath + "/utils.WithSafe"
	kSelectErr  = modPath + "/utils.SelectError"
	kWgcDone    = modPath + "/internal/helpers.WgCounter.Done"
	kWgcCount   = modPath + "/internal/helpers.WgCounter.Count"
	kWgcWait    = modPath + "/internal/helpers.WgCounter.Wait"
	kNewWgc     = modPath + "/internal/helpers.NewWgCounter"
	kRespClose  = modPath + "/internal/helpers.Response.Close"
	kRespSend   = modPath + "/internal/helpers.Response.Send"
	kRespResp   = modPath + "/internal/helpers.Response.Response"
	kNewResp    = modPath + "/internal/helpers.NewResponse"
	kCloserI    = "io.Closer.Close"
	kPoolGet    = "sync.Pool.Get"
	kPoolPut    = "sync.Pool.Put"
	kBroadcast  = "sync.Cond.Broadcast"
	kSignal     = "sync.Cond.Signal"
	kCondWait   = "sync.Cond.Wait"
	kWgDone     = "sync.WaitGroup.Done"
	kWgAdd      = "sync.WaitGroup.Add"
	kWgWait     = "sync.WaitGroup.Wait"
)

type Roles struct {
	P *Prog

	WorkerT *types.Named // struct worker
	JobT    *types.Named // struct job

	// worker fields (pkg.Type.field keys)
	FSignal, FErr, FInflight, FLimit, FStatus, FCond, FMx, FPool, FQueues, FWorkerFn, FTickers, FCtx, FCancel, FConfigs, FMetrics string
	// job fields
	FJobStatus, FJobWg, FJobQueue, FJobAckId, FJobId, FJobData string

	Step           *Func         // the dispatcher step (dequeues)
	HandOff        *Func         // sends a job to a pool node
	NodeFactory    *Func         // creates a node and spawns its goroutine
	Completion     *Func         // literal served by the pool goroutine
	DispLoop       *Func         // dispatcher goroutine literal
	DispGoCall     *ast.CallExpr // the call of the go statement when the dispatcher is a declared function (nil for a literal)
	SpawnDisp      *Func         // function containing the go statement of DispLoop
	FDispDone      string        // field holding the channel the dispatcher goroutine closes when it exits ("" if none)
	DoneChanFields []string      // chan struct{} fields of the worker that are never sent on (closed to announce an exit)
	Start          *Func
	Notify         *Func
	SendErr        *Func
	Release        *Func // evaluates the barrier release (Broadcast)
	WaitFn         *Func // parks on the Cond
	FreeNode       *Func
	Reaper         *Func // idle reaper goroutine literal
	SpawnReaper    *Func
	Listener       *Func // context listener goroutine literal
	SpawnListen    *Func
	CloseChans     *Func
	StopTickers    *Func
	StopAll        *Func // stops and removes all idle nodes

	NotifyKeys  map[string]bool // callee keys that mean "notify"
	SendErrKeys map[string]bool
	MetricKeys  map[string]map[string]bool // incSubmitted/... -> keys

	Problems []string
}

func (r *Roles) problem(format string, a ...any) {
	r.Problems = append(r.Problems, fmt.Sprintf(format, a...))
}

// containsCall reports whether f's own body (not nested literals) calls key.
func (p *Prog) containsCall(f *Func, keys ...string) bool {
	for _, cs := range p.calls(f) {
		for _, k := range keys {
			if cs.Callee.Key == k {
				return true
			}
		}
	}
	return false
}

func (p *Prog) funcsCalling(keys ...string) []*Func {
	var out []*Func
	for _, f := range p.Funcs {
		if p.containsCall(f, keys...) {
			out = append(out, f)
		}
	}
	return out
}

func (p *Prog) pkgFuncs(path string) []*Func {
	var out []*Func
	for _, f := range p.Funcs {
		if f.Pkg.PkgPath == path {
			out = append(out, f)
		}
	}
	return out
}

func filterPkg(fs []*Func, path string) []*Func {
	var out []*Func
	for _, f := range fs {
		if f.Pkg.PkgPath == path {
			out = append(out, f)
		}
	}
	return out
}

func (r *Roles) one(role string, fs []*Func) *Func {
	if len(fs) == 1 {
		return fs[0]
	}
	var names []string
	for _, f := range fs {
		names = append(names, f.Short())
	}
	r.problem("UNRESOLVED role=%s candidates=%v", role, names)
	return nil
}

// interfaceKeys returns keys of interface methods (of library interfaces)
// that f implements by name, plus f's own key.
func (p *Prog) roleKeys(f *Func) map[string]bool {
	if k, ok := p.roleKeysMemo[f]; ok {
		return k
	}
	keys := p.roleKeysUncached(f)
	if p.roleKeysMemo == nil {
		p.roleKeysMemo = map[*Func]map[string]bool{}
	}
	p.roleKeysMemo[f] = keys
	return keys
}

func (p *Prog) roleKeysUncached(f *Func) map[string]bool {
	keys := map[string]bool{}
	if f == nil || f.Obj == nil {
		return keys
	}
	keys[f.Key] = true
	name := f.Obj.Name()
	var recvNamed *types.Named
	if sig := f.Obj.Type().(*types.Signature); sig.Recv() != nil {
		recvNamed = namedOf(sig.Recv().Type())
	}
	for _, pkg := range p.Pkgs {
		if !libPkgs[pkg.PkgPath] {
			continue
		}
		scope := pkg.Types.Scope()
		for _, n := range scope.Names() {
			tn, ok := scope.Lookup(n).(*types.TypeName)
			if !ok {
				continue
			}
			it, ok := tn.Type().Underlying().(*types.Interface)
			if !ok {
				continue
			}
			// only interfaces the receiver type implements (by method names)
			if recvNamed == nil || !hasAllMethods(recvNamed.Origin(), it) {
				continue
			}
			for i := 0; i < it.NumMethods(); i++ {
				m := it.Method(i)
				if m.Name() == name && (m.Exported() || m.Pkg().Path() == f.Obj.Pkg().Path()) {
					keys[funcKey(m)] = true
				}
			}
		}
	}
	return keys
}

func fieldOfType(st *types.Struct, owner string, pred func(types.Type) bool) []string {
	var out []string
	for i := 0; i < st.NumFields(); i++ {
		if pred(st.Field(i).Type()) {
			out = append(out, owner+"."+st.Field(i).Name())
		}
	}
	return out
}

func isChanOf(t types.Type, elem func(types.Type) bool) bool {
	ch, ok := t.Underlying().(*types.Chan)
	return ok && elem(ch.Elem())
}

func isNamed(t types.Type, q string) bool { return qualTypeName(t) == q }

// selField returns the field key if e is a selector denoting a struct field.
func selField(info *types.Info, e ast.Expr) string {
	if s, ok := ast.Unparen(e).(*ast.SelectorExpr); ok {
		return fieldKey(info, s)
	}
	return ""
}

// atomicOp matches x.f.Load()/Store()/Add()/CompareAndSwap()/Swap() on a struct field of a
// sync/atomic type and returns (field key, method name).
func atomicOp(info *types.Info, call *ast.CallExpr) (string, string) {
	sel, ok := ast.Unparen(call.Fun).(*ast.SelectorExpr)
	if !ok {
		return "", ""
	}
	s, ok := info.Selections[sel]
	if !ok || s.Kind() != types.MethodVal {
		return "", ""
	}
	fn, ok := s.Obj().(*types.Func)
	if !ok || fn.Pkg() == nil || fn.Pkg().Path() != "sync/atomic" {
		return "", ""
	}
	fk := selField(info, sel.X)
	if fk == "" {
		return "", ""
	}
	return fk, fn.Name()
}

func resolveRoles(p *Prog) *Roles {
	r := &Roles{P: p, MetricKeys: map[string]map[string]bool{}}
	vp := p.ByPath[modPath]
	lookupNamed := func(name string) *types.Named {
		if o := vp.Types.Scope().Lookup(name); o != nil {
			if n, ok := o.Type().(*types.Named); ok {
				return n
			}
		}
		return nil
	}
	// The worker struct is the receiver type of the method implementing the
	// exported Worker.Stop; the job struct is the type whose pointer has Json().
	for _, f := range p.pkgFuncs(modPath) {
		if f.Obj != nil && f.Obj.Name() == "Stop" && f.Decl.Recv != nil {
			if n := namedOf(f.Obj.Type().(*types.Signature).Recv().Type()); n != nil {
				if _, ok := n.Underlying().(*types.Struct); ok {
					r.WorkerT = n.Origin()
				}
			}
		}
		if f.Obj != nil && f.Obj.Name() == "Json" && f.Decl.Recv != nil {
			if n := namedOf(f.Obj.Type().(*types.Signature).Recv().Type()); n != nil {
				r.JobT = n.Origin()
			}
		}
	}
	if r.WorkerT == nil {
		r.WorkerT = lookupNamed("worker")
	}
	if r.JobT == nil {
		r.JobT = lookupNamed("job")
	}
	if r.WorkerT == nil || r.JobT == nil {
		r.problem("UNRESOLVED role=worker/job struct types")
		return r
	}
	wname := qualTypeName(r.WorkerT)
	wst := r.WorkerT.Underlying().(*types.Struct)
	pick := func(role string, c []string) string {
		if len(c) == 1 {
			return c[0]
		}
		r.problem("UNRESOLVED role=%s candidates=%v", role, c)
		return ""
	}
	// the signal channel is the chan struct{} field that is sent on; a chan struct{} field that is only closed and
	// received from (a "done" channel) is not it
	sigCands := fieldOfType(wst, wname, func(t types.Type) bool {
		return isChanOf(t, func(e types.Type) bool { s, ok := e.Underlying().(*types.Struct); return ok && s.NumFields() == 0 })
	})
	if len(sigCands) > 1 {
		sent := map[string]bool{}
		for _, f := range p.pkgFuncs(modPath) {
			if f.Body == nil {
				continue
			}
			ast.Inspect(f.Body, func(n ast.Node) bool {
				if x, ok := n.(*ast.SendStmt); ok {
					sent[selField(f.Info(), x.Chan)] = true
				}
				return true
			})
		}
		var keep []string
		for _, k := range sigCands {
			if sent[k] {
				keep = append(keep, k)
			} else {
				r.DoneChanFields = append(r.DoneChanFields, k)
			}
		}
		sigCands = keep
	}
	r.FSignal = pick("signal channel field", sigCands)
	r.FErr = pick("error channel field", fieldOfType(wst, wname, func(t types.Type) bool {
		return isChanOf(t, func(e types.Type) bool { return e.String() == "error" })
	}))
	r.FCond = pick("cond field", fieldOfType(wst, wname, func(t types.Type) bool { return isNamed(t, "sync.Cond") }))
	r.FMx = pick("worker mutex field", fieldOfType(wst, wname, func(t types.Type) bool { return isNamed(t, "sync.RWMutex") || isNamed(t, "sync.Mutex") }))
	r.FPool = pick("pool field", fieldOfType(wst, wname, func(t types.Type) bool { return isNamed(t, modPath+"/internal/pool.Pool") }))
	r.FQueues = pick("queue manager field", fieldOfType(wst, wname, func(t types.Type) bool { return isNamed(t, modPath+".queueManager") }))
	r.FWorkerFn = pick("worker function field", fieldOfType(wst, wname, func(t types.Type) bool {
		_, ok := t.Underlying().(*types.Signature)
		return ok && !isNamed(t, "context.CancelFunc")
	}))
	r.FCtx = pick("context field", fieldOfType(wst, wname, func(t types.Type) bool { return isNamed(t, "context.Context") }))
	r.FCancel = pick("cancel field", fieldOfType(wst, wname, func(t types.Type) bool { return isNamed(t, "context.CancelFunc") }))
	r.FConfigs = pick("configs field", fieldOfType(wst, wname, func(t types.Type) bool { return isNamed(t, modPath+".configs") }))
	r.FMetrics = pick("metrics field", fieldOfType(wst, wname, func(t types.Type) bool { return isNamed(t, modPath+".Metrics") }))
	r.FTickers = pick("tickers field", fieldOfType(wst, wname, func(t types.Type) bool {
		s, ok := t.Underlying().(*types.Slice)
		return ok && isNamed(s.Elem(), "time.Ticker")
	}))

	jname := qualTypeName(r.JobT)
	jst := r.JobT.Underlying().(*types.Struct)
	r.FJobStatus = pick("job status field", fieldOfType(jst, jname, func(t types.Type) bool { return isNamed(t, "sync/atomic.Uint32") }))
	r.FJobWg = pick("job waitgroup field", fieldOfType(jst, jname, func(t types.Type) bool { return isNamed(t, "sync.WaitGroup") }))
	r.FJobQueue = pick("job queue field", fieldOfType(jst, jname, func(t types.Type) bool { return isNamed(t, modPath+".IBaseQueue") }))

	// job id / data / ack id: from the accessor methods ID(), Data(), setAckId
	for _, f := range p.pkgFuncs(modPath) {
		if f.Obj == nil || f.Decl.Recv == nil || namedOf(f.Obj.Type().(*types.Signature).Recv().Type()) == nil ||
			namedOf(f.Obj.Type().(*types.Signature).Recv().Type()).Origin() != r.JobT {
			continue
		}
		switch f.Obj.Name() {
		case "ID", "Data":
			if len(f.Body.List) == 1 {
				if ret, ok := f.Body.List[0].(*ast.ReturnStmt); ok && len(ret.Results) == 1 {
					if fk := selField(f.Info(), ret.Results[0]); fk != "" {
						if f.Obj.Name() == "ID" {
							r.FJobId = fk
						} else {
							r.FJobData = fk
						}
					}
				}
			}
		case "setAckId":
			ast.Inspect(f.Body, func(n ast.Node) bool {
				if as, ok := n.(*ast.AssignStmt); ok && len(as.Lhs) == 1 {
					if fk := selField(f.Info(), as.Lhs[0]); fk != "" {
						r.FJobAckId = fk
					}
				}
				return true
			})
		}
	}
	if r.FJobId == "" || r.FJobData == "" || r.FJobAckId == "" {
		r.problem("UNRESOLVED role=job id/data/ackId fields (%q %q %q)", r.FJobId, r.FJobData, r.FJobAckId)
	}

	// functions
	// the dispatcher goroutine is the go-literal from which a Dequeue call is reachable by synchronous calls; the
	// step is the function that literal calls on that path (the Dequeue itself may sit in a helper of the step)
	deqFns := filterPkg(p.funcsCalling(kDequeue, kDequeueAck), modPath)
	isDeq := map[*Func]bool{}
	for _, f := range deqFns {
		isDeq[f] = true
	}
	var reaches func(f *Func, depth int) bool
	reaches = func(f *Func, depth int) bool {
		if isDeq[f] {
			return true
		}
		if depth == 0 {
			return false
		}
		for _, cs := range p.calls(f) {
			if g := p.byObj[cs.Callee.Key]; g != nil && g.Lib && g != f && reaches(g, depth-1) {
				return true
			}
		}
		return false
	}
	sendFns := map[*Func]bool{}
	for _, f := range filterPkg(p.funcsCalling(kNodeSend), modPath) {
		sendFns[f] = true
	}
	var reachesSend func(f *Func, depth int) bool
	reachesSend = func(f *Func, depth int) bool {
		if sendFns[f] {
			return true
		}
		if depth == 0 {
			return false
		}
		for _, cs := range p.calls(f) {
			if g := p.byObj[cs.Callee.Key]; g != nil && g.Lib && g != f && reachesSend(g, depth-1) {
				return true
			}
		}
		return false
	}
	// the step is the deepest function, on the call chain from the dispatcher goroutine, whose own call tree still
	// contains both the Dequeue and the hand-off (Node.Send): helpers above it (a "dispatch pass") or below it (a
	// "dequeue next") do not change which function that is
	var deepest func(g *Func, depth int) *Func
	deepest = func(g *Func, depth int) *Func {
		if !(reaches(g, 4) && reachesSend(g, 4)) {
			return nil
		}
		if depth > 0 {
			for _, cs := range p.calls(g) {
				if h := p.byObj[cs.Callee.Key]; h != nil && h.Lib && h != g {
					if d := deepest(h, depth-1); d != nil {
						return d
					}
				}
			}
		}
		return g
	}
	var steps, dispLits []*Func
	spawnerOf := map[*Func]*Func{}
	goCallOf := map[*Func]*ast.CallExpr{}
	for _, f := range p.pkgFuncs(modPath) {
		if f.Body == nil {
			continue
		}
		ast.Inspect(f.Body, func(n ast.Node) bool {
			gs, ok := n.(*ast.GoStmt)
			if !ok {
				return true
			}
			var L *Func
			if lit, ok := ast.Unparen(gs.Call.Fun).(*ast.FuncLit); ok {
				L = p.byLit[lit]
			} else if g := p.byObj[resolveCallee(f.Info(), gs.Call).Key]; g != nil && g.Lib && g.Pkg.PkgPath == modPath {
				// `go w.eventLoop(signal, done)`: the goroutine body is a declared method
				L = g
				spawnerOf[g] = f
				goCallOf[g] = gs.Call
			}
			if L == nil {
				return true
			}
			for _, cs := range p.calls(L) {
				if g := p.byObj[cs.Callee.Key]; g != nil && g.Lib {
					if d := deepest(g, 3); d != nil {
						steps = appendUnique(steps, d)
						dispLits = appendUnique(dispLits, L)
					}
				}
			}
			return true
		})
	}
	r.Step = r.one("dispatcher step (called by the dispatcher goroutine, reaches IBaseQueue.Dequeue)", steps)
	r.HandOff = r.one("hand-off (calls pool.Node.Send)", filterPkg(p.funcsCalling(kNodeSend), modPath))
	// completion literal: argument of Node.Serve
	var completions []*Func
	for _, cs := range p.allCalls(false) {
		if cs.Callee.Key == kNodeServe && cs.In.Pkg.PkgPath == modPath {
			for _, a := range cs.Call.Args {
				if lit, ok := ast.Unparen(a).(*ast.FuncLit); ok {
					completions = append(completions, p.byLit[lit])
				} else if id, ok := ast.Unparen(a).(*ast.Ident); ok {
					// a local bound once to a function literal
					if obj := cs.In.Info().ObjectOf(id); obj != nil {
						var lits []*ast.FuncLit
						all, n := assignedOnlyFrom(cs.In, obj, func(rhs ast.Expr, idx, cnt int) bool {
							l, ok := ast.Unparen(rhs).(*ast.FuncLit)
							if ok {
								lits = append(lits, l)
							}
							return ok
						})
						if all && n == 1 && len(lits) == 1 && p.byLit[lits[0]] != nil {
							completions = append(completions, p.byLit[lits[0]])
						}
					}
				}
			}
		}
	}
	r.Completion = r.one("completion callback (literal passed to pool.Node.Serve)", completions)
	if r.Completion != nil {
		r.NodeFactory = r.Completion.Parent
	}
	if r.Step != nil {
		// a dispatcher whose loop body was extracted ("dispatchPending") is reached through it: keep the outermost
		var outer []*Func
		for _, L := range dispLits {
			inner := false
			for _, M := range dispLits {
				if M != L && p.containsCall(M, L.Key) {
					inner = true
				}
			}
			if !inner {
				outer = append(outer, L)
			}
		}
		r.DispLoop = r.one("dispatcher goroutine (function started by a go statement that reaches the step)", outer)
		if r.DispLoop != nil {
			r.SpawnDisp = r.DispLoop.Parent
			if r.SpawnDisp == nil {
				r.SpawnDisp = spawnerOf[r.DispLoop]
				r.DispGoCall = goCallOf[r.DispLoop]
			}
		}
	}
	if r.SpawnDisp != nil {
		r.Start = r.one("start (calls the dispatcher spawner)", p.funcsCalling(r.SpawnDisp.Key))
	}
	// the dispatcher announces its exit: `defer close(x)` at the top level of the goroutine body, x a channel made in
	// the spawner and published in a worker field (optional role: absent on a tree whose tear-down does not join)
	if r.DispLoop != nil && r.SpawnDisp != nil && r.DispLoop.Body != nil {
		info := r.DispLoop.Info()
		var closed types.Object
		for _, st := range r.DispLoop.Body.List {
			if d, ok := st.(*ast.DeferStmt); ok {
				if ce := resolveCallee(info, d.Call); ce.Builtin == "close" && len(d.Call.Args) == 1 {
					closed = rootIdent(info, d.Call.Args[0])
					if _, isId := ast.Unparen(d.Call.Args[0]).(*ast.Ident); !isId {
						closed = nil
					}
				}
			}
		}
		if closed != nil && r.DispGoCall != nil && r.DispLoop.Type.Params != nil {
			// the channel is a parameter of the goroutine's function: follow it to the argument of the go statement
			i := 0
			var arg ast.Expr
			for _, fld := range r.DispLoop.Type.Params.List {
				for _, nm := range fld.Names {
					if info.ObjectOf(nm) == closed && i < len(r.DispGoCall.Args) {
						arg = r.DispGoCall.Args[i]
					}
					i++
				}
			}
			closed = nil
			if arg != nil {
				if id, ok := ast.Unparen(arg).(*ast.Ident); ok {
					closed = r.SpawnDisp.Info().ObjectOf(id)
				}
			}
		}
		if closed != nil {
			ast.Inspect(r.SpawnDisp.Body, func(n ast.Node) bool {
				if as, ok := n.(*ast.AssignStmt); ok && len(as.Lhs) == len(as.Rhs) {
					for i, l := range as.Lhs {
						if fk := selField(info, l); fk != "" {
							if id, ok := ast.Unparen(as.Rhs[i]).(*ast.Ident); ok && info.ObjectOf(id) == closed {
								r.FDispDone = fk
							}
						}
					}
				}
				return true
			})
		}
	}
	// functions by the channel/cond operation they perform
	var notif, senderr, closers []*Func
	for _, f := range p.pkgFuncs(modPath) {
		if f.Body == nil {
			continue
		}
		ast.Inspect(f.Body, func(n ast.Node) bool {
			switch x := n.(type) {
			case *ast.FuncLit:
				return false
			case *ast.SendStmt:
				switch selField(f.Info(), x.Chan) {
				case r.FSignal:
					notif = appendUnique(notif, f)
				case r.FErr:
					senderr = appendUnique(senderr, f)
				}
			case *ast.CallExpr:
				if c := resolveCallee(f.Info(), x); c.Builtin == "close" && len(x.Args) == 1 && selField(f.Info(), x.Args[0]) == r.FSignal {
					closers = appendUnique(closers, f)
				}
			}
			return true
		})
	}
	r.Notify = r.one("notify (sends on the signal channel)", notif)
	r.SendErr = r.one("sendError (sends on the error channel)", senderr)
	r.CloseChans = r.one("closeChannels (closes the signal channel)", closers)
	r.Release = r.one("release evaluation (calls Cond.Broadcast)", filterPkg(p.funcsCalling(kBroadcast, kSignal), modPath))
	// the release evaluation is where the decision is taken: an unconditional, unexported wrapper of the Broadcast with a
	// single calling function (wake under the lock) stands for its caller
	for hops := 0; r.Release != nil && hops < 3; hops++ {
		f := r.Release
		if f.Obj == nil || f.Obj.Exported() || f.Body == nil {
			break
		}
		branches := false
		ast.Inspect(f.Body, func(n ast.Node) bool {
			switch n.(type) {
			case *ast.IfStmt, *ast.SwitchStmt, *ast.TypeSwitchStmt, *ast.SelectStmt, *ast.ForStmt, *ast.RangeStmt:
				branches = true
			}
			return true
		})
		if branches {
			break
		}
		var callers []*Func
		for _, cs := range p.allCalls(false) {
			if p.byObj[cs.Callee.Key] == f {
				callers = appendUnique(callers, cs.In)
			}
		}
		if len(callers) != 1 {
			break
		}
		r.Release = callers[0]
	}
	r.WaitFn = r.one("barrier wait (calls Cond.Wait)", filterPkg(p.funcsCalling(kCondWait), modPath))
	r.StopTickers = r.one("stopTickers (calls Ticker.Stop)", filterPkg(p.funcsCalling("time.Ticker.Stop"), modPath))
	r.NotifyKeys = p.roleKeys(r.Notify)
	r.SendErrKeys = p.roleKeys(r.SendErr)
	// reaper and listener literals
	var reapers, listeners []*Func
	for _, f := range p.pkgFuncs(modPath) {
		if f.Lit == nil {
			continue
		}
		usesTicker, usesDone := false, false
		ast.Inspect(f.Body, func(n ast.Node) bool {
			switch x := n.(type) {
			case *ast.FuncLit:
				return false
			case *ast.SelectorExpr:
				if x.Sel.Name == "C" && isNamed(f.Info().TypeOf(x.X), "time.Ticker") {
					usesTicker = true
				}
			case *ast.CallExpr:
				if resolveCallee(f.Info(), x).Key == "context.Context.Done" {
					usesDone = true
				}
			}
			return true
		})
		if usesTicker {
			reapers = append(reapers, f)
		}
		if usesDone && !usesTicker {
			listeners = append(listeners, f)
		}
	}
	r.Reaper = r.one("idle reaper goroutine (literal reading ticker.C)", reapers)
	if r.Reaper != nil {
		r.SpawnReaper = r.Reaper.Parent
	}
	// a context listener is optional; callbacks registered with context.AfterFunc count as listeners too
	for _, cs := range p.allCalls(false) {
		if cs.Callee.Key == "context.AfterFunc" && cs.In.Pkg.PkgPath == modPath && len(cs.Call.Args) == 2 {
			if lit, ok := ast.Unparen(cs.Call.Args[1]).(*ast.FuncLit); ok {
				listeners = appendUnique(listeners, p.byLit[lit])
			}
		}
	}
	if len(listeners) > 1 {
		// the listener is a goroutine of its own (or an AfterFunc callback): a literal that merely selects on
		// ctx.Done() inside some other function is not one
		goLit := map[*ast.FuncLit]bool{}
		for _, f := range p.pkgFuncs(modPath) {
			if f.Body == nil {
				continue
			}
			ast.Inspect(f.Body, func(n ast.Node) bool {
				if gs, ok := n.(*ast.GoStmt); ok {
					if lit, ok := ast.Unparen(gs.Call.Fun).(*ast.FuncLit); ok {
						goLit[lit] = true
					}
				}
				if call, ok := n.(*ast.CallExpr); ok && resolveCallee(f.Info(), call).Key == "context.AfterFunc" && len(call.Args) == 2 {
					if lit, ok := ast.Unparen(call.Args[1]).(*ast.FuncLit); ok {
						goLit[lit] = true
					}
				}
				return true
			})
		}
		var started []*Func
		for _, l := range listeners {
			if l.Lit != nil && goLit[l.Lit] {
				started = append(started, l)
			}
		}
		if len(started) > 0 {
			listeners = started
		}
	}
	if len(listeners) == 1 {
		r.Listener = listeners[0]
		r.SpawnListen = r.Listener.Parent
	} else if len(listeners) > 1 {
		r.one("context listener (literal receiving ctx.Done() or passed to context.AfterFunc)", listeners)
	}
	// freeNode: called from the completion callback and releases the node
	if r.Completion != nil {
		var free []*Func
		var walk func(f *Func, depth int)
		seenF := map[*Func]bool{}
		walk = func(f *Func, depth int) {
			if seenF[f] {
				return
			}
			seenF[f] = true
			if f != r.Completion && (p.containsCall(f, kPushNode) || p.containsCall(f, kPoolPut)) {
				free = appendUnique(free, f)
				return
			}
			if depth == 0 {
				return
			}
			for _, cs := range p.calls(f) {
				if g := p.byObj[cs.Callee.Key]; g != nil && g.Lib {
					walk(g, depth-1)
				}
			}
		}
		walk(r.Completion, 3)
		if len(free) == 0 && (p.containsCall(r.Completion, kPushNode) || p.containsCall(r.Completion, kPoolPut)) {
			free = append(free, r.Completion)
		}
		r.FreeNode = r.one("freeNode (keeps or retires the node after completion)", free)
	}
	// stopAll: ranges over NodeSlice() and is not the reaper
	var stopAll []*Func
	// (a pass of the reaper extracted into a method is part of the reaper: reachable from its goroutine)
	inReaper := map[*Func]bool{}
	if r.Reaper != nil {
		var mark func(f *Func, depth int)
		mark = func(f *Func, depth int) {
			if inReaper[f] || depth < 0 {
				return
			}
			inReaper[f] = true
			for _, cs := range p.calls(f) {
				if g := p.byObj[cs.Callee.Key]; g != nil && g.Lib && g.Pkg.PkgPath == modPath {
					mark(g, depth-1)
				}
			}
		}
		mark(r.Reaper, 2)
	}
	for _, f := range filterPkg(p.funcsCalling(kNodeSlice), modPath) {
		if !inReaper[f] {
			stopAll = append(stopAll, f)
		}
	}
	r.StopAll = r.one("stopAndRemoveAll (walks NodeSlice outside the reaper)", stopAll)

	// inflight / limit: the two atomic fields compared with < in the dispatcher loop
	if r.DispLoop != nil {
		ast.Inspect(r.DispLoop.Body, func(n ast.Node) bool {
			if be, ok := n.(*ast.BinaryExpr); ok && (be.Op == token.LSS || be.Op == token.GTR || be.Op == token.LEQ || be.Op == token.GEQ) {
				lc, lok := ast.Unparen(be.X).(*ast.CallExpr)
				rc, rok := ast.Unparen(be.Y).(*ast.CallExpr)
				if lok && rok {
					lf, lm := atomicOp(r.DispLoop.Info(), lc)
					rf, rm := atomicOp(r.DispLoop.Info(), rc)
					if lm == "Load" && rm == "Load" && lf != "" && rf != "" {
						if be.Op == token.LSS || be.Op == token.LEQ {
							r.FInflight, r.FLimit = lf, rf
						} else {
							r.FInflight, r.FLimit = rf, lf
						}
					}
				}
			}
			return true
		})
	}
	// by behaviour (robust against how the dispatcher's guard is written): the in-flight counter is the atomic
	// field of the worker that the completion callback lowers; the limit is the one TunePool stores
	wprefix := qualTypeName(r.WorkerT) + "."
	if r.Completion != nil {
		seenC := map[*Func]bool{}
		var scan func(f *Func, depth int)
		scan = func(f *Func, depth int) {
			if seenC[f] || f.Body == nil {
				return
			}
			seenC[f] = true
			for _, cs := range p.calls(f) {
				if fk, m := atomicOp(f.Info(), cs.Call); m == "Add" && strings.HasPrefix(fk, wprefix) && len(cs.Call.Args) == 1 {
					if tv := f.Info().Types[cs.Call.Args[0]]; tv.Value == nil || tv.Value.ExactString() != "1" {
						r.FInflight = fk
					}
				}
				if g := p.byObj[cs.Callee.Key]; g != nil && g.Lib && depth > 0 && g.Pkg.PkgPath == modPath {
					scan(g, depth-1)
				}
			}
		}
		// the decrement may sit in a helper of the callback (runJob, releaseSlot, ...)
		scan(r.Completion, 3)
	}
	// TunePool may delegate the store to a helper as well
	for _, f := range p.pkgFuncs(modPath) {
		if f.Obj != nil && f.Obj.Name() == "TunePool" && f.Decl.Recv != nil {
			seenT := map[*Func]bool{}
			var scanT func(g *Func, depth int)
			scanT = func(g *Func, depth int) {
				if seenT[g] || g.Body == nil {
					return
				}
				seenT[g] = true
				for _, cs := range p.calls(g) {
					if fk, m := atomicOp(g.Info(), cs.Call); m == "Store" && strings.HasPrefix(fk, wprefix) && fk != r.FStatus {
						r.FLimit = fk
					}
					if h := p.byObj[cs.Callee.Key]; h != nil && h.Lib && depth > 0 && h.Pkg.PkgPath == modPath && h.Decl != nil && h.Decl.Recv != nil && !h.Obj.Exported() {
						scanT(h, depth-1)
					}
				}
			}
			scanT(f, 2)
		}
	}
	if r.FInflight == "" || r.FLimit == "" {
		r.problem("UNRESOLVED role=in-flight counter / limit (the completion callback lowers no atomic worker field, or TunePool stores none)")
	}
	// worker status: the atomic field switched on by the exported Status()
	for _, f := range p.pkgFuncs(modPath) {
		if f.Obj != nil && f.Obj.Name() == "Status" && f.Decl.Recv != nil {
			recv := namedOf(f.Obj.Type().(*types.Signature).Recv().Type())
			if recv == nil || recv.Origin() != r.WorkerT {
				continue
			}
			ast.Inspect(f.Body, func(n ast.Node) bool {
				if c, ok := n.(*ast.CallExpr); ok {
					if fk, m := atomicOp(f.Info(), c); m == "Load" {
						r.FStatus = fk
					}
				}
				return true
			})
		}
	}
	if r.FStatus == "" {
		r.problem("UNRESOLVED role=worker status field")
	}
	for _, m := range []string{"incSubmitted", "incCompleted", "incSuccessful", "incFailed"} {
		keys := map[string]bool{}
		for _, f := range p.pkgFuncs(modPath) {
			if f.Obj != nil && f.Obj.Name() == m {
				for k := range p.roleKeys(f) {
					keys[k] = true
				}
			}
		}
		if len(keys) == 0 {
			r.problem("UNRESOLVED role=metrics %s", m)
		}
		r.MetricKeys[m] = keys
	}
	for name, f := range map[string]*Func{"step": r.Step, "handoff": r.HandOff, "completion": r.Completion, "dispatcher": r.DispLoop, "start": r.Start, "notify": r.Notify, "sendError": r.SendErr, "release": r.Release, "wait": r.WaitFn, "closeChannels": r.CloseChans, "stopAll": r.StopAll, "freeNode": r.FreeNode} {
		if f == nil {
			r.problem("role %s unresolved", name)
		}
	}
	sort.Strings(r.Problems)
	return r
}

func appendUnique(fs []*Func, f *Func) []*Func {
	for _, x := range fs {
		if x == f {
			return fs
		}
	}
	return append(fs, f)
}

func (r *Roles) describe() []string {
	d := func(n string, f *Func) string {
		if f == nil {
			return n + "=<unresolved>"
		}
		return n + "=" + f.Short() + "@" + r.P.pos(f.Body)
	}
	out := []string{
		d("step", r.Step), d("handOff", r.HandOff), d("nodeFactory", r.NodeFactory), d("completion", r.Completion),
		d("dispatcher", r.DispLoop), d("start", r.Start), d("notify", r.Notify), d("sendError", r.SendErr),
		d("release", r.Release), d("wait", r.WaitFn), d("freeNode", r.FreeNode), d("reaper", r.Reaper),
		d("listener", r.Listener), d("closeChannels", r.CloseChans), d("stopTickers", r.StopTickers), d("stopAll", r.StopAll),
		"fields: " + strings.Join([]string{shortKey(r.FSignal), shortKey(r.FErr), shortKey(r.FInflight), shortKey(r.FLimit), shortKey(r.FStatus), shortKey(r.FCond), shortKey(r.FMx), shortKey(r.FJobStatus), shortKey(r.FJobAckId)}, " "),
	}
	return out
}
