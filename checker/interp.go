package main

// Abstract interpreter over the type-checked AST.
//
// It walks function bodies statement by statement over *sets* of abstract
// states (join = set union, states are deduplicated by key, loops iterate to a
// fixpoint), performs constant propagation for a small value domain (nil,
// compile-time constants, package-level objects, function literals), models
// defers (LIFO at every exit of the frame that pushed them), and inlines
// callees the active domain asks for (bounded depth, no recursion). Every rule
// engine that needs path information (ordering, typestate, lockset, the status
// machines) is a Domain plugged into this walker. No path condition is ever
// built or solved: a branch is pruned only when constant propagation has made
// its condition a known constant.

import (
	"fmt"
	"go/ast"
	"go/constant"
	"go/token"
	"go/types"
	"os"
	"sort"
	"strconv"
	"strings"
)

type ValKind uint8

const (
	VUnknown ValKind = iota
	VNil
	VConst // compile-time constant; S = exact string
	VObj   // package-level object (variable, function); S = pkgpath.Name
	VLit   // function literal
	VTok   // domain-defined token; S = token
	VNonNil
	VAddr // address of a local variable (Ref); dereferences read/write that variable
	VMeth // method value x.m (Sel, written in SelFn); calling it is calling x.m
)

type Value struct {
	Kind ValKind
	S    string
	Lit  *ast.FuncLit
	Ref  types.Object
	// method value
	Sel   *ast.SelectorExpr
	SelFn *Func
}

var unknown = Value{}

func (v Value) key() string {
	switch v.Kind {
	case VUnknown:
		return "?"
	case VNil:
		return "nil"
	case VNonNil:
		return "nonnil"
	case VLit:
		return fmt.Sprintf("lit@%d", v.Lit.Pos())
	case VAddr:
		return fmt.Sprintf("addr@%d", v.Ref.Pos())
	case VMeth:
		return fmt.Sprintf("meth@%d", v.Sel.Pos())
	}
	return fmt.Sprintf("%d:%s", v.Kind, v.S)
}

func (v Value) String() string {
	switch v.Kind {
	case VUnknown:
		return "?"
	case VNil:
		return "nil"
	case VNonNil:
		return "non-nil"
	case VLit:
		return "func literal"
	}
	return v.S
}

func boolVal(b bool) Value {
	if b {
		return Value{Kind: VConst, S: "true"}
	}
	return Value{Kind: VConst, S: "false"}
}

func (v Value) isTrue() bool  { return v.Kind == VConst && v.S == "true" }
func (v Value) isFalse() bool { return v.Kind == VConst && v.S == "false" }

// valuesEqual: (equal, known)
func valuesEqual(a, b Value) (bool, bool) {
	if a.Kind == VUnknown || b.Kind == VUnknown {
		return false, false
	}
	if a.Kind == VAddr || a.Kind == VMeth {
		a = Value{Kind: VNonNil}
	}
	if b.Kind == VAddr || b.Kind == VMeth {
		b = Value{Kind: VNonNil}
	}
	if a.Kind == VNonNil || b.Kind == VNonNil {
		other := a
		if a.Kind == VNonNil {
			other = b
		}
		if other.Kind == VNil {
			return false, true
		}
		return false, false
	}
	if a.Kind == VNil || b.Kind == VNil {
		if a.Kind == b.Kind {
			return true, true
		}
		if a.Kind == VTok || b.Kind == VTok {
			return false, false // a domain token says nothing about nil-ness
		}
		// nil vs a known non-nil object
		return false, true
	}
	if a.Kind != b.Kind {
		return false, false
	}
	if a.Kind == VLit {
		return a.Lit == b.Lit, true
	}
	return a.S == b.S, true
}

// LoopIter and LoopDone are pseudo nodes handed to Domain.Visit at the start
// of every loop iteration and for every state leaving a loop.
type LoopIter struct{ ast.Stmt }
type LoopDone struct{ ast.Stmt }

// LoopBreak is handed to Domain.Visit for every state that leaves a loop
// through a break statement (before LoopDone).
type LoopBreak struct{ ast.Stmt }

// CalleeReturn is handed to Domain.Visit for every state in which an inlined callee returns; Entry is the state the
// callee was entered with (a domain that keeps a stack of open loops drops those the callee left by returning).
type CalleeReturn struct {
	ast.Stmt
	Entry *State
}

// DomState is the rule-specific part of an abstract state.
type DomState interface{ Key() string }

type binding struct {
	obj   types.Object
	id    int
	val   Value
	depth int
}

type deferEntry struct {
	call  *ast.CallExpr
	depth int
	fn    *Func
}

type State struct {
	Dom    DomState
	env    []binding // sorted by id
	defers []deferEntry
	key    string
}

func (s *State) Key() string {
	if s.key == "" {
		var b strings.Builder
		b.WriteString(s.Dom.Key())
		b.WriteString("|")
		for _, e := range s.env {
			fmt.Fprintf(&b, "%d=%s,", e.id, e.val.key())
		}
		b.WriteString("|")
		for _, d := range s.defers {
			fmt.Fprintf(&b, "%d@%d,", d.call.Pos(), d.depth)
		}
		s.key = b.String()
	}
	return s.key
}

func (s *State) WithDom(d DomState) *State {
	if d == s.Dom {
		return s
	}
	return &State{Dom: d, env: s.env, defers: s.defers}
}

type Out struct {
	St   *State
	Vals []Value
}

func (o Out) val() Value {
	if len(o.Vals) == 1 {
		return o.Vals[0]
	}
	return unknown
}

type Frame struct {
	Fn     *Func
	Depth  int
	Caller *Frame
	Call   *ast.CallExpr // call site in the caller
	Loop   int           // current loop nesting inside this frame
	InGo   bool
}

// Path describes the inlining chain, outermost first.
func (fr *Frame) Path() string {
	var parts []string
	for f := fr; f != nil; f = f.Caller {
		parts = append([]string{f.Fn.Short()}, parts...)
	}
	return strings.Join(parts, " → ")
}

func (fr *Frame) Outer() *Frame {
	for fr.Caller != nil {
		fr = fr.Caller
	}
	return fr
}

func (fr *Frame) onStack(fn *Func) bool {
	for f := fr; f != nil; f = f.Caller {
		if f.Fn == fn {
			return true
		}
	}
	return false
}

// LoopDepth is the loop nesting summed over the inlining chain.
func (fr *Frame) LoopDepth() int {
	n := 0
	for f := fr; f != nil; f = f.Caller {
		n += f.Loop
	}
	return n
}

// Domain is a rule engine plugged into the interpreter.
type Domain interface {
	// Call is invoked for every call expression after receiver and arguments
	// were evaluated (args holds their abstract values). If handled is true
	// the returned outs are the successors; otherwise the interpreter inlines
	// the functions returned by Inline, or treats the call as opaque.
	Call(ip *Interp, fr *Frame, st *State, call *ast.CallExpr, c *Callee, args []Value) (outs []Out, handled bool)
	// Inline selects the bodies to inline for a call (nil = opaque).
	Inline(ip *Interp, fr *Frame, st *State, call *ast.CallExpr, c *Callee) []*Func
	// Visit is invoked for non-call nodes of interest in evaluation order:
	// *ast.AssignStmt, *ast.IncDecStmt, *ast.SendStmt, *ast.GoStmt, *ast.DeferStmt,
	// *ast.SelectorExpr (reads), *ast.UnaryExpr (receive), *ast.ReturnStmt,
	// *ast.RangeStmt (loop head), *ast.SelectStmt, *ast.IndexExpr, *ast.SliceExpr.
	Visit(ip *Interp, fr *Frame, st *State, n ast.Node) *State
	// Cond refines a state along a branch of an atomic condition; ok=false
	// prunes the branch.
	Cond(ip *Interp, fr *Frame, st *State, cond ast.Expr, branch bool) (*State, bool)
	// Exit is invoked when the outermost frame returns.
	Exit(ip *Interp, fr *Frame, st *State, ret *ast.ReturnStmt, vals []Value)
}

// Binder is an optional Domain extension: it is told which argument
// expression (evaluated in the caller frame) a parameter of an inlined callee
// is bound to.
type Binder interface {
	Bind(ip *Interp, callee *Frame, st *State, param types.Object, arg ast.Expr, caller *Frame) *State
}

// BaseDomain provides no-op defaults.
type BaseDomain struct{}

func (BaseDomain) Call(*Interp, *Frame, *State, *ast.CallExpr, *Callee, []Value) ([]Out, bool) {
	return nil, false
}
func (BaseDomain) Inline(*Interp, *Frame, *State, *ast.CallExpr, *Callee) []*Func { return nil }
func (BaseDomain) Visit(_ *Interp, _ *Frame, st *State, _ ast.Node) *State        { return st }
func (BaseDomain) Cond(_ *Interp, _ *Frame, st *State, _ ast.Expr, _ bool) (*State, bool) {
	return st, true
}
func (BaseDomain) Exit(*Interp, *Frame, *State, *ast.ReturnStmt, []Value) {}

type Interp struct {
	P            *Prog
	Dom          Domain
	MaxDepth     int
	ids          map[types.Object]int
	Undecided    []string // constructs the walker could not model
	Steps        int
	Inlined      map[string]bool
	loopLimit    int
	CondVal      Value    // value of the atomic condition being refined (valid inside Domain.Cond)
	recvOverride ast.Expr // receiver expression for the next inline (callbacks such as container/heap)
	// ExprVal lets a rule name the values of channel receives and field reads (tokens), so that it can follow them
	ExprVal func(fr *Frame, e ast.Expr) (Value, bool)
	// ExprValSt is the same with access to the interpreter state (for values that depend on what was stored), also
	// consulted for binary expressions; FieldStore is told about assignments to struct fields
	ExprValSt  func(ip *Interp, fr *Frame, st *State, e ast.Expr) (Value, bool)
	FieldStore func(ip *Interp, fr *Frame, st *State, sel *ast.SelectorExpr, v Value) *State
	// LitElem is told the value of every keyed element of a composite literal (in evaluation order)
	LitElem func(ip *Interp, fr *Frame, st *State, lit *ast.CompositeLit, key string, v Value) *State
}

func NewInterp(p *Prog, d Domain) *Interp {
	return &Interp{P: p, Dom: d, MaxDepth: 8, ids: map[types.Object]int{}, Inlined: map[string]bool{}, loopLimit: 64}
}

func (ip *Interp) undecided(fr *Frame, n ast.Node, what string) {
	ip.Undecided = append(ip.Undecided, fmt.Sprintf("%s: %s (in %s)", ip.P.pos(n), what, fr.Fn.Short()))
}

func (ip *Interp) id(o types.Object) int {
	if id, ok := ip.ids[o]; ok {
		return id
	}
	id := len(ip.ids) + 1
	ip.ids[o] = id
	return id
}

func (ip *Interp) lookup(st *State, o types.Object) Value {
	id, ok := ip.ids[o]
	if !ok {
		return unknown
	}
	i := sort.Search(len(st.env), func(i int) bool { return st.env[i].id >= id })
	if i < len(st.env) && st.env[i].id == id {
		return st.env[i].val
	}
	return unknown
}

func (ip *Interp) bind(st *State, o types.Object, v Value, depth int) *State {
	if o == nil {
		return st
	}
	id := ip.id(o)
	i := sort.Search(len(st.env), func(i int) bool { return st.env[i].id >= id })
	present := i < len(st.env) && st.env[i].id == id
	if v.Kind == VUnknown {
		if !present {
			return st
		}
		env := make([]binding, 0, len(st.env)-1)
		env = append(env, st.env[:i]...)
		env = append(env, st.env[i+1:]...)
		return &State{Dom: st.Dom, env: env, defers: st.defers}
	}
	if present {
		if st.env[i].val.key() == v.key() {
			return st
		}
		env := append([]binding(nil), st.env...)
		env[i].val = v
		return &State{Dom: st.Dom, env: env, defers: st.defers}
	}
	env := make([]binding, 0, len(st.env)+1)
	env = append(env, st.env[:i]...)
	env = append(env, binding{obj: o, id: id, val: v, depth: depth})
	env = append(env, st.env[i:]...)
	return &State{Dom: st.Dom, env: env, defers: st.defers}
}

func (ip *Interp) dropDepth(st *State, depth int) *State {
	keep := st.env[:0:0]
	changed := false
	for _, b := range st.env {
		if b.depth > depth {
			changed = true
			continue
		}
		keep = append(keep, b)
	}
	if !changed {
		return st
	}
	return &State{Dom: st.Dom, env: keep, defers: st.defers}
}

// ---------------------------------------------------------------- sets

type stateSet struct {
	list []*State
	seen map[string]bool
}

func newSet(sts ...*State) *stateSet {
	s := &stateSet{seen: map[string]bool{}}
	for _, st := range sts {
		s.add(st)
	}
	return s
}

func (s *stateSet) add(st *State) bool {
	k := st.Key()
	if s.seen[k] {
		return false
	}
	s.seen[k] = true
	s.list = append(s.list, st)
	return true
}

func (s *stateSet) addAll(sts []*State) {
	for _, st := range sts {
		s.add(st)
	}
}

type retOut struct {
	St   *State
	Vals []Value
	Stmt *ast.ReturnStmt
}

type flow struct {
	normal []*State
	ret    []retOut
	brk    map[string][]*State
	cont   map[string][]*State
}

func (f *flow) addBrk(label string, st *State) {
	if f.brk == nil {
		f.brk = map[string][]*State{}
	}
	f.brk[label] = append(f.brk[label], st)
}
func (f *flow) addCont(label string, st *State) {
	if f.cont == nil {
		f.cont = map[string][]*State{}
	}
	f.cont[label] = append(f.cont[label], st)
}

func (f *flow) merge(g flow) {
	f.ret = append(f.ret, g.ret...)
	for l, s := range g.brk {
		for _, st := range s {
			f.addBrk(l, st)
		}
	}
	for l, s := range g.cont {
		for _, st := range s {
			f.addCont(l, st)
		}
	}
}

func dedup(sts []*State) []*State {
	if len(sts) < 2 {
		return sts
	}
	return newSet(sts...).list
}

// ---------------------------------------------------------------- entry

// Run executes fn from the given initial state as the outermost frame and
// returns the states at its normal exits (after its defers ran).
func (ip *Interp) Run(fn *Func, init *State) []retOut {
	fr := &Frame{Fn: fn}
	return ip.runFrame(fr, init)
}

func (ip *Interp) runFrame(fr *Frame, init *State) []retOut {
	fl := ip.execBlock(fr, fr.Fn.Body.List, []*State{init})
	rets := fl.ret
	for _, st := range fl.normal {
		rets = append(rets, retOut{St: st})
	}
	// run the defers pushed by this frame, LIFO
	var out []retOut
	seen := map[string]bool{}
	for _, r := range rets {
		sts := []*State{r.St}
		for {
			var next []*State
			progressed := false
			for _, st := range sts {
				n := len(st.defers)
				if n == 0 || st.defers[n-1].depth != fr.Depth {
					next = append(next, st)
					continue
				}
				progressed = true
				d := st.defers[n-1]
				popped := &State{Dom: st.Dom, env: st.env, defers: st.defers[: n-1 : n-1]}
				for _, o := range ip.evalCall(fr, popped, d.call) {
					next = append(next, o.St)
				}
			}
			sts = dedup(next)
			if !progressed {
				break
			}
		}
		for _, st := range sts {
			k := st.Key() + "#" + valsKey(r.Vals)
			if seen[k] {
				continue
			}
			seen[k] = true
			out = append(out, retOut{St: st, Vals: r.Vals, Stmt: r.Stmt})
		}
	}
	if fr.Caller == nil {
		for _, r := range out {
			ip.Dom.Exit(ip, fr, r.St, r.Stmt, r.Vals)
		}
	}
	return out
}

func valsKey(vs []Value) string {
	var b strings.Builder
	for _, v := range vs {
		b.WriteString(v.key())
		b.WriteString(";")
	}
	return b.String()
}

// ---------------------------------------------------------------- statements

func (ip *Interp) execBlock(fr *Frame, list []ast.Stmt, in []*State) flow {
	var fl flow
	cur := dedup(in)
	for _, s := range list {
		if len(cur) == 0 {
			break
		}
		var next []*State
		for _, st := range cur {
			f := ip.exec(fr, s, st)
			next = append(next, f.normal...)
			fl.merge(f)
		}
		cur = dedup(next)
	}
	fl.normal = cur
	return fl
}

func (ip *Interp) exec(fr *Frame, s ast.Stmt, st *State) flow {
	ip.Steps++
	switch s := s.(type) {
	case nil:
		return flow{normal: []*State{st}}
	case *ast.BlockStmt:
		return ip.execBlock(fr, s.List, []*State{st})
	case *ast.ExprStmt:
		var fl flow
		for _, o := range ip.eval(fr, st, s.X) {
			fl.normal = append(fl.normal, o.St)
		}
		return fl
	case *ast.EmptyStmt:
		return flow{normal: []*State{st}}
	case *ast.LabeledStmt:
		fl := ip.execLabeled(fr, s, st)
		return fl
	case *ast.DeclStmt:
		return ip.execDecl(fr, s, st)
	case *ast.AssignStmt:
		return flow{normal: ip.execAssign(fr, s, st)}
	case *ast.IncDecStmt:
		var fl flow
		for _, o := range ip.eval(fr, st, s.X) {
			ns := ip.Dom.Visit(ip, fr, o.St, s)
			if id, ok := s.X.(*ast.Ident); ok {
				ns = ip.bind(ns, fr.Fn.Info().ObjectOf(id), unknown, fr.Depth)
			}
			if sel, ok := ast.Unparen(s.X).(*ast.SelectorExpr); ok && ip.FieldStore != nil {
				// x.f++ / x.f--: the rule is told the operation ("++" / "--") instead of a value
				ns = ip.FieldStore(ip, fr, ns, sel, Value{Kind: VConst, S: s.Tok.String()})
			}
			fl.normal = append(fl.normal, ns)
		}
		return fl
	case *ast.SendStmt:
		var fl flow
		for _, o := range ip.eval(fr, st, s.Chan) {
			for _, o2 := range ip.eval(fr, o.St, s.Value) {
				fl.normal = append(fl.normal, ip.Dom.Visit(ip, fr, o2.St, s))
			}
		}
		return fl
	case *ast.GoStmt:
		var fl flow
		sts := []*State{st}
		// evaluate the arguments (not the callee body)
		for _, a := range s.Call.Args {
			var next []*State
			for _, x := range sts {
				for _, o := range ip.eval(fr, x, a) {
					next = append(next, o.St)
				}
			}
			sts = next
		}
		for _, x := range sts {
			fl.normal = append(fl.normal, ip.Dom.Visit(ip, fr, x, s))
		}
		return fl
	case *ast.DeferStmt:
		ns := ip.Dom.Visit(ip, fr, st, s)
		for _, d := range ns.defers {
			if d.call == s.Call && d.depth == fr.Depth {
				return flow{normal: []*State{ns}}
			}
		}
		defers := append(append([]deferEntry(nil), ns.defers...), deferEntry{call: s.Call, depth: fr.Depth, fn: fr.Fn})
		return flow{normal: []*State{{Dom: ns.Dom, env: ns.env, defers: defers}}}
	case *ast.ReturnStmt:
		var fl flow
		if len(s.Results) == 0 {
			ns := ip.Dom.Visit(ip, fr, st, s)
			var vals []Value
			if fr.Fn.Type.Results != nil {
				for _, fld := range fr.Fn.Type.Results.List {
					for _, nm := range fld.Names {
						vals = append(vals, ip.lookup(ns, fr.Fn.Info().ObjectOf(nm)))
					}
				}
			}
			fl.ret = append(fl.ret, retOut{St: ns, Vals: vals, Stmt: s})
			return fl
		}
		if len(s.Results) == 1 {
			// `return a < b`, `return !x`: a returned comparison is a decision like any condition — evaluate it as one,
			// so that the domain sees it (with its outcome) and the caller gets a known boolean per path
			if be, ok := ast.Unparen(s.Results[0]).(*ast.BinaryExpr); ok {
				switch be.Op {
				case token.LSS, token.LEQ, token.GTR, token.GEQ, token.EQL, token.NEQ:
					if tv, ok := fr.Fn.Info().Types[s.Results[0]]; ok && tv.Value == nil && isBoolType(tv.Type) {
						tt, ff := ip.evalCond(fr, st, s.Results[0])
						for _, x := range tt {
							fl.ret = append(fl.ret, retOut{St: ip.Dom.Visit(ip, fr, x, s), Vals: []Value{boolVal(true)}, Stmt: s})
						}
						for _, x := range ff {
							fl.ret = append(fl.ret, retOut{St: ip.Dom.Visit(ip, fr, x, s), Vals: []Value{boolVal(false)}, Stmt: s})
						}
						return fl
					}
				}
			}
			for _, o := range ip.eval(fr, st, s.Results[0]) {
				ns := ip.Dom.Visit(ip, fr, o.St, s)
				vals := o.Vals
				if len(vals) == 0 {
					vals = []Value{unknown}
				}
				fl.ret = append(fl.ret, retOut{St: ns, Vals: vals, Stmt: s})
			}
			return fl
		}
		outs := []Out{{St: st}}
		for _, r := range s.Results {
			var next []Out
			for _, o := range outs {
				for _, o2 := range ip.eval(fr, o.St, r) {
					next = append(next, Out{St: o2.St, Vals: append(append([]Value(nil), o.Vals...), o2.val())})
				}
			}
			outs = next
		}
		for _, o := range outs {
			fl.ret = append(fl.ret, retOut{St: ip.Dom.Visit(ip, fr, o.St, s), Vals: o.Vals, Stmt: s})
		}
		return fl
	case *ast.BranchStmt:
		var fl flow
		label := ""
		if s.Label != nil {
			label = s.Label.Name
		}
		switch s.Tok {
		case token.BREAK:
			fl.addBrk(label, st)
		case token.CONTINUE:
			fl.addCont(label, st)
		default:
			ip.undecided(fr, s, "unsupported branch statement "+s.Tok.String())
		}
		return fl
	case *ast.IfStmt:
		return ip.execIf(fr, s, st)
	case *ast.ForStmt:
		return ip.execFor(fr, s, st, "")
	case *ast.RangeStmt:
		return ip.execRange(fr, s, st, "")
	case *ast.SwitchStmt:
		return ip.execSwitch(fr, s, st, "")
	case *ast.TypeSwitchStmt:
		return ip.execTypeSwitch(fr, s, st, "")
	case *ast.SelectStmt:
		return ip.execSelect(fr, s, st, "")
	}
	ip.undecided(fr, s, fmt.Sprintf("unsupported statement %T", s))
	return flow{normal: []*State{st}}
}

func (ip *Interp) execLabeled(fr *Frame, s *ast.LabeledStmt, st *State) flow {
	l := s.Label.Name
	switch b := s.Stmt.(type) {
	case *ast.ForStmt:
		return ip.execFor(fr, b, st, l)
	case *ast.RangeStmt:
		return ip.execRange(fr, b, st, l)
	case *ast.SwitchStmt:
		return ip.execSwitch(fr, b, st, l)
	case *ast.TypeSwitchStmt:
		return ip.execTypeSwitch(fr, b, st, l)
	case *ast.SelectStmt:
		return ip.execSelect(fr, b, st, l)
	}
	return ip.exec(fr, s.Stmt, st)
}

func (ip *Interp) execDecl(fr *Frame, s *ast.DeclStmt, st *State) flow {
	gd, ok := s.Decl.(*ast.GenDecl)
	if !ok || gd.Tok != token.VAR {
		return flow{normal: []*State{st}}
	}
	sts := []*State{st}
	for _, spec := range gd.Specs {
		vs := spec.(*ast.ValueSpec)
		if len(vs.Values) == 0 {
			for i := range sts {
				for _, nm := range vs.Names {
					sts[i] = ip.bind(sts[i], fr.Fn.Info().ObjectOf(nm), zeroValue(fr.Fn.Info().TypeOf(nm)), fr.Depth)
				}
			}
			continue
		}
		if len(vs.Values) == len(vs.Names) {
			for i, nm := range vs.Names {
				var next []*State
				for _, x := range sts {
					for _, o := range ip.eval(fr, x, vs.Values[i]) {
						next = append(next, ip.bind(o.St, fr.Fn.Info().ObjectOf(nm), o.val(), fr.Depth))
					}
				}
				sts = next
			}
			continue
		}
		var next []*State
		for _, x := range sts {
			for _, o := range ip.eval(fr, x, vs.Values[0]) {
				ns := o.St
				for i, nm := range vs.Names {
					v := unknown
					if i < len(o.Vals) {
						v = o.Vals[i]
					}
					ns = ip.bind(ns, fr.Fn.Info().ObjectOf(nm), v, fr.Depth)
				}
				next = append(next, ns)
			}
		}
		sts = next
	}
	return flow{normal: sts}
}

func zeroValue(t types.Type) Value {
	if t == nil {
		return unknown
	}
	switch u := t.Underlying().(type) {
	case *types.Pointer, *types.Interface, *types.Map, *types.Chan, *types.Slice, *types.Signature:
		return Value{Kind: VNil}
	case *types.Basic:
		switch {
		case u.Info()&types.IsBoolean != 0:
			return boolVal(false)
		case u.Info()&types.IsString != 0:
			return Value{Kind: VConst, S: `""`}
		case u.Info()&types.IsInteger != 0:
			return Value{Kind: VConst, S: "0"}
		}
	}
	return unknown
}

func (ip *Interp) execAssign(fr *Frame, s *ast.AssignStmt, st *State) []*State {
	info := fr.Fn.Info()
	type res struct {
		st   *State
		vals []Value
	}
	var rs []res
	if len(s.Rhs) == 1 && len(s.Lhs) > 1 {
		for _, o := range ip.eval(fr, st, s.Rhs[0]) {
			vals := o.Vals
			if len(vals) != len(s.Lhs) {
				vals = make([]Value, len(s.Lhs))
				copy(vals, o.Vals)
			}
			rs = append(rs, res{o.St, vals})
		}
	} else {
		rs = []res{{st, nil}}
		for _, r := range s.Rhs {
			var next []res
			for _, x := range rs {
				for _, o := range ip.eval(fr, x.st, r) {
					next = append(next, res{o.St, append(append([]Value(nil), x.vals...), o.val())})
				}
			}
			rs = next
		}
	}
	var out []*State
	for _, r := range rs {
		sts := []*State{r.st}
		// evaluate non-identifier left-hand sides (field selectors, index)
		for _, l := range s.Lhs {
			if _, ok := l.(*ast.Ident); ok {
				continue
			}
			var next []*State
			for _, x := range sts {
				next = append(next, ip.evalLhs(fr, x, l)...)
			}
			sts = next
		}
		for _, x := range sts {
			ns := x
			for i, l := range s.Lhs {
				if sel, ok := ast.Unparen(l).(*ast.SelectorExpr); ok && ip.FieldStore != nil {
					v := unknown
					if i < len(r.vals) && s.Tok == token.ASSIGN {
						v = r.vals[i]
					}
					if i < len(r.vals) && (s.Tok == token.ADD_ASSIGN || s.Tok == token.SUB_ASSIGN) && r.vals[i].Kind == VConst {
						// x.f += 1: told as the operation
						v = Value{Kind: VConst, S: s.Tok.String() + r.vals[i].S}
					}
					ns = ip.FieldStore(ip, fr, ns, sel, v)
					continue
				}
				if star, ok := ast.Unparen(l).(*ast.StarExpr); ok {
					if pid, ok := ast.Unparen(star.X).(*ast.Ident); ok {
						if p := ip.lookup(ns, info.ObjectOf(pid)); p.Kind == VAddr {
							v := unknown
							if i < len(r.vals) && s.Tok == token.ASSIGN {
								v = r.vals[i]
							}
							ns = ip.bind(ns, p.Ref, v, fr.Depth)
						}
					}
					continue
				}
				id, ok := l.(*ast.Ident)
				if !ok || id.Name == "_" {
					continue
				}
				v := unknown
				if i < len(r.vals) && (s.Tok == token.ASSIGN || s.Tok == token.DEFINE) {
					v = r.vals[i]
				}
				obj := info.ObjectOf(id)
				if _, isVar := obj.(*types.Var); isVar {
					ns = ip.bind(ns, obj, v, fr.Depth)
				}
			}
			ns = ip.Dom.Visit(ip, fr, ns, s)
			out = append(out, ns)
		}
	}
	return out
}

// evalLhs evaluates the operands of an assignable expression without treating
// it as a read.
func (ip *Interp) evalLhs(fr *Frame, st *State, l ast.Expr) []*State {
	var outs []Out
	switch x := ast.Unparen(l).(type) {
	case *ast.SelectorExpr:
		outs = ip.eval(fr, st, x.X)
	case *ast.IndexExpr:
		for _, o := range ip.eval(fr, st, x.X) {
			outs = append(outs, ip.eval(fr, o.St, x.Index)...)
		}
	case *ast.StarExpr:
		outs = ip.eval(fr, st, x.X)
	default:
		return []*State{st}
	}
	var sts []*State
	for _, o := range outs {
		sts = append(sts, o.St)
	}
	return sts
}

func (ip *Interp) execIf(fr *Frame, s *ast.IfStmt, st *State) flow {
	var fl flow
	sts := []*State{st}
	if s.Init != nil {
		f := ip.exec(fr, s.Init, st)
		fl.merge(f)
		sts = f.normal
	}
	var tt, ff []*State
	for _, x := range sts {
		t, f := ip.evalCond(fr, x, s.Cond)
		tt = append(tt, t...)
		ff = append(ff, f...)
	}
	tf := ip.execBlock(fr, s.Body.List, tt)
	fl.merge(tf)
	fl.normal = append(fl.normal, tf.normal...)
	if s.Else != nil {
		for _, x := range dedup(ff) {
			ef := ip.exec(fr, s.Else, x)
			fl.merge(ef)
			fl.normal = append(fl.normal, ef.normal...)
		}
	} else {
		fl.normal = append(fl.normal, ff...)
	}
	fl.normal = dedup(fl.normal)
	return fl
}

func takeLabel(m map[string][]*State, label string) []*State {
	var out []*State
	out = append(out, m[""]...)
	delete(m, "")
	if label != "" {
		out = append(out, m[label]...)
		delete(m, label)
	}
	return out
}

func (ip *Interp) execFor(fr *Frame, s *ast.ForStmt, st *State, label string) flow {
	var fl flow
	head := []*State{st}
	if s.Init != nil {
		f := ip.exec(fr, s.Init, st)
		fl.merge(f)
		head = f.normal
	}
	all := newSet()
	exits := newSet()
	fr.Loop++
	defer func() { fr.Loop-- }()
	for iter := 0; ; iter++ {
		var fresh []*State
		for _, x := range head {
			if all.add(x) {
				fresh = append(fresh, x)
			}
		}
		if len(fresh) == 0 {
			break
		}
		if iter > ip.loopLimit {
			ip.undecided(fr, s, "loop did not reach a fixpoint")
			break
		}
		var bodyIn []*State
		for _, x := range fresh {
			// an iteration starts with the evaluation of the loop condition
			x = ip.Dom.Visit(ip, fr, x, LoopIter{s})
			if s.Cond == nil {
				bodyIn = append(bodyIn, x)
				continue
			}
			t, f := ip.evalCond(fr, x, s.Cond)
			bodyIn = append(bodyIn, t...)
			exits.addAll(f)
		}
		bf := ip.execBlock(fr, s.Body.List, bodyIn)
		fl.ret = append(fl.ret, bf.ret...)
		for _, b := range takeLabel(bf.brk, label) {
			exits.add(ip.Dom.Visit(ip, fr, b, LoopBreak{s}))
		}
		next := append(bf.normal, takeLabel(bf.cont, label)...)
		fl.merge(flow{brk: bf.brk, cont: bf.cont})
		if s.Post != nil {
			var pn []*State
			for _, x := range dedup(next) {
				pf := ip.exec(fr, s.Post, x)
				pn = append(pn, pf.normal...)
			}
			next = pn
		}
		head = dedup(next)
	}
	for _, x := range exits.list {
		fl.normal = append(fl.normal, ip.Dom.Visit(ip, fr, x, LoopDone{s}))
	}
	fl.normal = dedup(fl.normal)
	return fl
}

func (ip *Interp) execRange(fr *Frame, s *ast.RangeStmt, st *State, label string) flow {
	var fl flow
	var head []*State
	for _, o := range ip.eval(fr, st, s.X) {
		head = append(head, ip.Dom.Visit(ip, fr, o.St, s))
	}
	all := newSet()
	exits := newSet()
	info := fr.Fn.Info()
	fr.Loop++
	defer func() { fr.Loop-- }()
	for iter := 0; ; iter++ {
		var fresh []*State
		for _, x := range head {
			if all.add(x) {
				fresh = append(fresh, x)
			}
		}
		if len(fresh) == 0 {
			break
		}
		if iter > ip.loopLimit {
			ip.undecided(fr, s, "range loop did not reach a fixpoint")
			break
		}
		exits.addAll(fresh) // the iteration may end here
		var bodyIn []*State
		for _, x := range fresh {
			ns := x
			// an element of a collection that is a domain token is the token "<t>[]"
			elem := unknown
			if cv := ip.pureValue(fr, x, s.X); cv.Kind == VTok {
				elem = Value{Kind: VTok, S: cv.S + "[]"}
			}
			for i, kv := range []ast.Expr{s.Key, s.Value} {
				if id, ok := kv.(*ast.Ident); ok && id.Name != "_" {
					v := unknown
					if i == 1 {
						v = elem
					}
					ns = ip.bind(ns, info.ObjectOf(id), v, fr.Depth)
				}
			}
			bodyIn = append(bodyIn, ip.Dom.Visit(ip, fr, ns, LoopIter{s}))
		}
		bf := ip.execBlock(fr, s.Body.List, bodyIn)
		fl.ret = append(fl.ret, bf.ret...)
		for _, b := range takeLabel(bf.brk, label) {
			exits.add(ip.Dom.Visit(ip, fr, b, LoopBreak{s}))
		}
		next := append(bf.normal, takeLabel(bf.cont, label)...)
		fl.merge(flow{brk: bf.brk, cont: bf.cont})
		head = dedup(next)
	}
	for _, x := range exits.list {
		fl.normal = append(fl.normal, ip.Dom.Visit(ip, fr, x, LoopDone{s}))
	}
	fl.normal = dedup(fl.normal)
	return fl
}

func (ip *Interp) execSwitch(fr *Frame, s *ast.SwitchStmt, st *State, label string) flow {
	var fl flow
	sts := []*State{st}
	if s.Init != nil {
		f := ip.exec(fr, s.Init, st)
		fl.merge(f)
		sts = f.normal
	}
	type tagged struct {
		st  *State
		tag Value
	}
	var ins []tagged
	for _, x := range sts {
		if s.Tag == nil {
			ins = append(ins, tagged{x, boolVal(true)})
			continue
		}
		for _, o := range ip.eval(fr, x, s.Tag) {
			ins = append(ins, tagged{o.St, o.val()})
		}
	}
	var normal []*State
	for _, in := range ins {
		// pending: states that have not matched any earlier clause
		pending := []*State{in.st}
		var def *ast.CaseClause
		var carry []*State      // states falling through from the previous clause (source order)
		var carryToDef []*State // ... into the default clause
		for ci, cc := range s.Body.List {
			clause := cc.(*ast.CaseClause)
			if clause.List == nil {
				def = clause
				carryToDef = append(carryToDef, carry...)
				carry = nil
				if hasFallthrough(clause) {
					ip.undecided(fr, clause, "fallthrough out of a default clause")
				}
				continue
			}
			_ = ci
			var enter []*State
			for _, ce := range clause.List {
				var still []*State
				for _, p := range pending {
					if s.Tag == nil {
						t, f := ip.evalCond(fr, p, ce)
						enter = append(enter, t...)
						still = append(still, f...)
						continue
					}
					for _, o := range ip.eval(fr, p, ce) {
						eq, known := valuesEqual(in.tag, o.val())
						switch {
						case known && eq:
							enter = append(enter, o.St)
						case known && !eq:
							still = append(still, o.St)
						default:
							enter = append(enter, o.St)
							still = append(still, o.St)
						}
					}
				}
				pending = dedup(still)
			}
			enter = append(enter, carry...)
			carry = nil
			body := clause.Body
			ft := hasFallthrough(clause)
			if ft {
				body = body[:len(body)-1]
			}
			bf := ip.execBlock(fr, body, dedup(enter))
			fl.ret = append(fl.ret, bf.ret...)
			if ft {
				// control continues with the body of the next clause, whatever its expressions say
				carry = bf.normal
			} else {
				normal = append(normal, bf.normal...)
			}
			normal = append(normal, takeLabel(bf.brk, label)...)
			fl.merge(flow{brk: bf.brk, cont: bf.cont})
		}
		if len(carry) > 0 {
			ip.undecided(fr, s, "fallthrough out of the last clause")
		}
		if def != nil {
			bf := ip.execBlock(fr, def.Body, dedup(append(pending, carryToDef...)))
			fl.ret = append(fl.ret, bf.ret...)
			normal = append(normal, bf.normal...)
			normal = append(normal, takeLabel(bf.brk, label)...)
			fl.merge(flow{brk: bf.brk, cont: bf.cont})
		} else {
			normal = append(normal, pending...)
		}
	}
	fl.normal = dedup(normal)
	return fl
}

func hasFallthrough(c *ast.CaseClause) bool {
	if n := len(c.Body); n > 0 {
		if b, ok := c.Body[n-1].(*ast.BranchStmt); ok && b.Tok == token.FALLTHROUGH {
			return true
		}
	}
	return false
}

func (ip *Interp) execTypeSwitch(fr *Frame, s *ast.TypeSwitchStmt, st *State, label string) flow {
	var fl flow
	sts := []*State{st}
	if s.Init != nil {
		f := ip.exec(fr, s.Init, st)
		fl.merge(f)
		sts = f.normal
	}
	// evaluate the guarded expression
	var x ast.Expr
	switch a := s.Assign.(type) {
	case *ast.ExprStmt:
		x = a.X
	case *ast.AssignStmt:
		x = a.Rhs[0]
	}
	guard := map[*State]Value{}
	if ta, ok := ast.Unparen(x).(*ast.TypeAssertExpr); ok {
		var next []*State
		for _, y := range sts {
			for _, o := range ip.eval(fr, y, ta.X) {
				next = append(next, o.St)
				guard[o.St] = o.val()
			}
		}
		sts = next
	}
	var normal []*State
	for _, cc := range s.Body.List {
		clause := cc.(*ast.CaseClause)
		var in []*State
		for _, y := range sts {
			ns, ok := ip.Dom.Cond(ip, fr, y, nil, true) // keep hook symmetric; domains ignore nil cond
			if ok {
				if obj := fr.Fn.Info().Implicits[clause]; obj != nil {
					// the clause variable is the guarded value: a domain token stays that token
					bv := unknown
					if gv, ok := guard[y]; ok && gv.Kind == VTok {
						bv = gv
					}
					ns = ip.bind(ns, obj, bv, fr.Depth)
				}
				in = append(in, ip.Dom.Visit(ip, fr, ns, clause))
			}
		}
		bf := ip.execBlock(fr, clause.Body, in)
		fl.ret = append(fl.ret, bf.ret...)
		normal = append(normal, bf.normal...)
		normal = append(normal, takeLabel(bf.brk, label)...)
		fl.merge(flow{brk: bf.brk, cont: bf.cont})
	}
	hasDefault := false
	for _, cc := range s.Body.List {
		if cc.(*ast.CaseClause).List == nil {
			hasDefault = true
		}
	}
	if !hasDefault {
		normal = append(normal, sts...)
	}
	fl.normal = dedup(normal)
	return fl
}

func (ip *Interp) execSelect(fr *Frame, s *ast.SelectStmt, st *State, label string) flow {
	var fl flow
	st = ip.Dom.Visit(ip, fr, st, s)
	var normal []*State
	for _, cc := range s.Body.List {
		clause := cc.(*ast.CommClause)
		in := []*State{st}
		if clause.Comm != nil {
			f := ip.exec(fr, clause.Comm, st)
			fl.merge(f)
			in = f.normal
		}
		bf := ip.execBlock(fr, clause.Body, in)
		fl.ret = append(fl.ret, bf.ret...)
		normal = append(normal, bf.normal...)
		normal = append(normal, takeLabel(bf.brk, label)...)
		fl.merge(flow{brk: bf.brk, cont: bf.cont})
	}
	fl.normal = dedup(normal)
	return fl
}

// ---------------------------------------------------------------- conditions

// evalCond evaluates a boolean expression with short-circuit semantics and
// returns the states in which it is true and those in which it is false.
func (ip *Interp) evalCond(fr *Frame, st *State, e ast.Expr) (tt, ff []*State) {
	switch x := ast.Unparen(e).(type) {
	case *ast.UnaryExpr:
		if x.Op == token.NOT {
			f, t := ip.evalCond(fr, st, x.X)
			return t, f
		}
	case *ast.BinaryExpr:
		switch x.Op {
		case token.LAND:
			lt, lf := ip.evalCond(fr, st, x.X)
			ff = append(ff, lf...)
			for _, s := range lt {
				rt, rf := ip.evalCond(fr, s, x.Y)
				tt = append(tt, rt...)
				ff = append(ff, rf...)
			}
			return dedup(tt), dedup(ff)
		case token.LOR:
			lt, lf := ip.evalCond(fr, st, x.X)
			tt = append(tt, lt...)
			for _, s := range lf {
				rt, rf := ip.evalCond(fr, s, x.Y)
				tt = append(tt, rt...)
				ff = append(ff, rf...)
			}
			return dedup(tt), dedup(ff)
		}
	}
	for _, o := range ip.eval(fr, st, e) {
		v := o.val()
		ip.CondVal = v
		if !v.isFalse() {
			if ns, ok := ip.Dom.Cond(ip, fr, o.St, e, true); ok {
				tt = append(tt, ip.refine(fr, ns, e, true))
			}
		}
		if !v.isTrue() {
			if ns, ok := ip.Dom.Cond(ip, fr, o.St, e, false); ok {
				ff = append(ff, ip.refine(fr, ns, e, false))
			}
		}
	}
	return dedup(tt), dedup(ff)
}

// refine records what an atomic comparison against nil/constant teaches about
// a local variable: x == nil, x != nil, x == c.
func (ip *Interp) refine(fr *Frame, st *State, e ast.Expr, branch bool) *State {
	info := fr.Fn.Info()
	switch x := ast.Unparen(e).(type) {
	case *ast.Ident:
		if obj, ok := info.ObjectOf(x).(*types.Var); ok && !obj.IsField() && obj.Pkg() != nil && obj.Parent() != obj.Pkg().Scope() {
			return ip.bind(st, obj, boolVal(branch), fr.Depth)
		}
	case *ast.BinaryExpr:
		if x.Op != token.EQL && x.Op != token.NEQ {
			return st
		}
		eq := (x.Op == token.EQL) == branch
		id, other := x.X, x.Y
		if _, ok := ast.Unparen(id).(*ast.Ident); !ok {
			id, other = x.Y, x.X
		}
		ident, ok := ast.Unparen(id).(*ast.Ident)
		if !ok {
			return st
		}
		obj, ok := info.ObjectOf(ident).(*types.Var)
		if !ok || obj.IsField() || obj.Pkg() == nil || obj.Parent() == obj.Pkg().Scope() {
			return st
		}
		ov := ip.pureValue(fr, st, other)
		if ov.Kind == VUnknown {
			return st
		}
		if eq {
			return ip.bind(st, obj, ov, fr.Depth)
		}
		if ov.Kind == VNil && ip.lookup(st, obj).Kind == VUnknown {
			return ip.bind(st, obj, Value{Kind: VNonNil}, fr.Depth)
		}
	}
	return st
}

// pureValue evaluates identifiers and constants without side effects.
func (ip *Interp) pureValue(fr *Frame, st *State, e ast.Expr) Value {
	info := fr.Fn.Info()
	e = ast.Unparen(e)
	if tv, ok := info.Types[e]; ok {
		if tv.Value != nil {
			return constValue(tv.Value)
		}
		if tv.IsNil() {
			return Value{Kind: VNil}
		}
	}
	switch x := e.(type) {
	case *ast.Ident:
		return ip.identValue(fr, st, x)
	case *ast.StarExpr:
		if id, ok := ast.Unparen(x.X).(*ast.Ident); ok {
			if p := ip.identValue(fr, st, id); p.Kind == VAddr {
				return ip.lookup(st, p.Ref)
			}
		}
	case *ast.SelectorExpr:
		if _, ok := info.Selections[x]; !ok {
			if obj := info.Uses[x.Sel]; obj != nil {
				return objValue(obj)
			}
		}
	}
	if ip.ExprValSt != nil {
		switch e.(type) {
		case *ast.SelectorExpr, *ast.BinaryExpr, *ast.IndexExpr:
			if tv, ok := ip.ExprValSt(ip, fr, st, e); ok {
				return tv
			}
		}
	}
	return unknown
}

func constValue(c constant.Value) Value {
	if c.Kind() == constant.Bool {
		return boolVal(constant.BoolVal(c))
	}
	return Value{Kind: VConst, S: c.ExactString()}
}

func objValue(obj types.Object) Value {
	switch o := obj.(type) {
	case *types.Nil:
		return Value{Kind: VNil}
	case *types.Const:
		return constValue(o.Val())
	case *types.Var:
		if o.Pkg() != nil && o.Parent() == o.Pkg().Scope() {
			return Value{Kind: VObj, S: o.Pkg().Path() + "." + o.Name()}
		}
	case *types.Func:
		return Value{Kind: VObj, S: funcKey(o)}
	}
	return unknown
}

func (ip *Interp) identValue(fr *Frame, st *State, id *ast.Ident) Value {
	obj := fr.Fn.Info().ObjectOf(id)
	if obj == nil {
		return unknown
	}
	if v, ok := obj.(*types.Var); ok && (v.Pkg() == nil || v.Parent() != v.Pkg().Scope()) {
		return ip.lookup(st, obj)
	}
	return objValue(obj)
}

// ---------------------------------------------------------------- expressions

func (ip *Interp) eval(fr *Frame, st *State, e ast.Expr) []Out {
	info := fr.Fn.Info()
	one := func(s *State, v Value) []Out { return []Out{{St: s, Vals: []Value{v}}} }
	if e == nil {
		return one(st, unknown)
	}
	constOf := func(x ast.Expr) (Value, bool) {
		if tv, ok := info.Types[x]; ok {
			if tv.Value != nil {
				return constValue(tv.Value), true
			}
			if tv.IsNil() {
				return Value{Kind: VNil}, true
			}
			if tv.IsType() {
				return unknown, true
			}
		}
		return unknown, false
	}
	switch x := e.(type) {
	case *ast.ParenExpr:
		return ip.eval(fr, st, x.X)
	case *ast.BasicLit:
		v, _ := constOf(x)
		return one(st, v)
	case *ast.Ident:
		if v, ok := constOf(x); ok {
			return one(st, v)
		}
		return one(st, ip.identValue(fr, st, x))
	case *ast.FuncLit:
		return one(ip.invalidateCaptured(fr, st, x), Value{Kind: VLit, Lit: x})
	case *ast.CallExpr:
		return ip.evalCall(fr, st, x)
	case *ast.SelectorExpr:
		if v, ok := constOf(x); ok {
			return one(st, v)
		}
		if _, isSel := info.Selections[x]; !isSel {
			// qualified identifier
			if obj := info.Uses[x.Sel]; obj != nil {
				return one(st, objValue(obj))
			}
			return one(st, unknown)
		}
		var outs []Out
		for _, o := range ip.eval(fr, st, x.X) {
			v := unknown
			if ip.ExprVal != nil {
				if tv, ok := ip.ExprVal(fr, x); ok {
					v = tv
				}
			}
			if ip.ExprValSt != nil {
				if tv, ok := ip.ExprValSt(ip, fr, o.St, x); ok {
					v = tv
				}
			}
			if sel := info.Selections[x]; sel != nil && sel.Kind() == types.MethodVal && v.Kind == VUnknown {
				v = Value{Kind: VMeth, Sel: x, SelFn: fr.Fn}
			}
			outs = append(outs, Out{St: ip.Dom.Visit(ip, fr, o.St, x), Vals: []Value{v}})
		}
		return outs
	case *ast.StarExpr:
		var outs []Out
		for _, o := range ip.eval(fr, st, x.X) {
			v := unknown
			if p := o.val(); p.Kind == VAddr {
				v = ip.lookup(o.St, p.Ref)
			}
			outs = append(outs, Out{St: o.St, Vals: []Value{v}})
		}
		return outs
	case *ast.UnaryExpr:
		if v, ok := constOf(x); ok {
			return one(st, v)
		}
		if x.Op == token.NOT {
			var outs []Out
			for _, o := range ip.eval(fr, st, x.X) {
				v := o.val()
				switch {
				case v.isTrue():
					v = boolVal(false)
				case v.isFalse():
					v = boolVal(true)
				default:
					v = unknown
				}
				outs = append(outs, Out{St: o.St, Vals: []Value{v}})
			}
			return outs
		}
		var outs []Out
		for _, o := range ip.eval(fr, st, x.X) {
			ns := o.St
			if x.Op == token.ARROW {
				ns = ip.Dom.Visit(ip, fr, ns, x)
			}
			v := unknown
			if x.Op == token.ARROW && ip.ExprVal != nil {
				if tv, ok := ip.ExprVal(fr, x); ok {
					outs = append(outs, Out{St: ns, Vals: []Value{tv, {Kind: VTok, S: tv.S + "ok"}}})
					continue
				}
			}
			if x.Op == token.AND {
				v = Value{Kind: VNonNil}
				if id, ok := ast.Unparen(x.X).(*ast.Ident); ok {
					if obj, ok := info.ObjectOf(id).(*types.Var); ok && !obj.IsField() && (obj.Pkg() == nil || obj.Parent() != obj.Pkg().Scope()) {
						v = Value{Kind: VAddr, Ref: obj}
					}
				}
			}
			outs = append(outs, Out{St: ns, Vals: []Value{v}})
		}
		return outs
	case *ast.BinaryExpr:
		if v, ok := constOf(x); ok {
			return one(st, v)
		}
		if x.Op == token.LAND || x.Op == token.LOR {
			t, f := ip.evalCond(fr, st, x)
			var outs []Out
			for _, s := range t {
				outs = append(outs, Out{St: s, Vals: []Value{boolVal(true)}})
			}
			for _, s := range f {
				outs = append(outs, Out{St: s, Vals: []Value{boolVal(false)}})
			}
			return outs
		}
		var outs []Out
		for _, l := range ip.eval(fr, st, x.X) {
			for _, r := range ip.eval(fr, l.St, x.Y) {
				v := unknown
				if x.Op == token.EQL || x.Op == token.NEQ {
					if eq, known := valuesEqual(l.val(), r.val()); known {
						v = boolVal(eq == (x.Op == token.EQL))
					}
				} else if fv, ok := foldInts(x.Op, l.val(), r.val()); ok {
					v = fv
				}
				if ip.ExprValSt != nil && v.Kind == VUnknown {
					if tv, ok := ip.ExprValSt(ip, fr, r.St, x); ok {
						v = tv
					}
				}
				outs = append(outs, Out{St: r.St, Vals: []Value{v}})
			}
		}
		return outs
	case *ast.IndexExpr:
		if tv, ok := info.Types[x.X]; ok && (tv.IsType() || isGenericFunc(tv.Type)) {
			return one(st, unknown)
		}
		var outs []Out
		for _, l := range ip.eval(fr, st, x.X) {
			for _, r := range ip.eval(fr, l.St, x.Index) {
				v := unknown
				if lv := l.val(); lv.Kind == VTok {
					v = Value{Kind: VTok, S: lv.S + "[]"}
				}
				if ip.ExprValSt != nil {
					if tv, ok := ip.ExprValSt(ip, fr, r.St, x); ok {
						v = tv
					}
				}
				outs = append(outs, Out{St: ip.Dom.Visit(ip, fr, r.St, x), Vals: []Value{v}})
			}
		}
		return outs
	case *ast.IndexListExpr:
		return one(st, unknown)
	case *ast.SliceExpr:
		sts := []*State{st}
		for _, sub := range []ast.Expr{x.X, x.Low, x.High, x.Max} {
			if sub == nil {
				continue
			}
			var next []*State
			for _, s := range sts {
				for _, o := range ip.eval(fr, s, sub) {
					next = append(next, o.St)
				}
			}
			sts = next
		}
		var outs []Out
		for _, s := range sts {
			outs = append(outs, Out{St: ip.Dom.Visit(ip, fr, s, x), Vals: []Value{unknown}})
		}
		return outs
	case *ast.TypeAssertExpr:
		var outs []Out
		for _, o := range ip.eval(fr, st, x.X) {
			// a type assertion does not change which value it is: a domain token stays that token
			v := unknown
			if ov := o.val(); ov.Kind == VTok {
				v = ov
			}
			outs = append(outs, Out{St: ip.Dom.Visit(ip, fr, o.St, x), Vals: []Value{v, unknown}})
		}
		return outs
	case *ast.CompositeLit:
		sts := []*State{st}
		for _, el := range x.Elts {
			key := ""
			if kv, ok := el.(*ast.KeyValueExpr); ok {
				el = kv.Value
				if id, ok := kv.Key.(*ast.Ident); ok {
					key = id.Name
				}
			}
			var next []*State
			for _, s := range sts {
				for _, o := range ip.eval(fr, s, el) {
					ns := o.St
					if key != "" && ip.LitElem != nil {
						ns = ip.LitElem(ip, fr, ns, x, key, o.val())
					}
					next = append(next, ns)
				}
			}
			sts = next
		}
		var outs []Out
		for _, s := range sts {
			outs = append(outs, Out{St: ip.Dom.Visit(ip, fr, s, x), Vals: []Value{Value{Kind: VNonNil}}})
		}
		return outs
	case *ast.KeyValueExpr:
		return ip.evalUnknown(fr, st, x.Value)
	case *ast.ArrayType, *ast.MapType, *ast.ChanType, *ast.FuncType, *ast.StructType, *ast.InterfaceType, *ast.Ellipsis:
		return one(st, unknown)
	}
	ip.undecided(fr, e, fmt.Sprintf("unsupported expression %T", e))
	return one(st, unknown)
}

// invalidateCaptured forgets what is known about variables of enclosing
// functions that the literal assigns: the literal may run at any later time.
func (ip *Interp) invalidateCaptured(fr *Frame, st *State, lit *ast.FuncLit) *State {
	info := fr.Fn.Info()
	forget := func(e ast.Expr) {
		id, ok := ast.Unparen(e).(*ast.Ident)
		if !ok {
			return
		}
		obj, ok := info.ObjectOf(id).(*types.Var)
		if !ok || obj.Pos() >= lit.Pos() && obj.Pos() < lit.End() {
			return
		}
		st = ip.bind(st, obj, unknown, fr.Depth)
	}
	ast.Inspect(lit.Body, func(n ast.Node) bool {
		switch x := n.(type) {
		case *ast.AssignStmt:
			for _, l := range x.Lhs {
				forget(l)
			}
		case *ast.IncDecStmt:
			forget(x.X)
		case *ast.UnaryExpr:
			if x.Op == token.AND {
				forget(x.X)
			}
		}
		return true
	})
	return st
}

func isGenericFunc(t types.Type) bool {
	sig, ok := t.(*types.Signature)
	return ok && sig.TypeParams() != nil
}

func (ip *Interp) evalUnknown(fr *Frame, st *State, e ast.Expr) []Out {
	var outs []Out
	for _, o := range ip.eval(fr, st, e) {
		outs = append(outs, Out{St: o.St, Vals: []Value{unknown}})
	}
	return outs
}

// evalCall evaluates receiver and arguments, then lets the domain handle the
// call, inlines, or treats it as opaque.
func (ip *Interp) evalCall(fr *Frame, st *State, call *ast.CallExpr) []Out {
	info := fr.Fn.Info()
	c := resolveCallee(info, call)
	if c.Conv {
		if len(call.Args) == 1 {
			outs := ip.eval(fr, st, call.Args[0])
			if tv, ok := info.Types[call]; ok && tv.Value != nil {
				for i := range outs {
					outs[i].Vals = []Value{constValue(tv.Value)}
				}
			}
			return outs
		}
		return []Out{{St: st, Vals: []Value{unknown}}}
	}
	type pre struct {
		st   *State
		args []Value
	}
	pres := []pre{{st: st}}
	// receiver / function expression
	switch f := ast.Unparen(call.Fun).(type) {
	case *ast.SelectorExpr:
		if _, ok := info.Selections[f]; ok {
			var next []pre
			for _, p := range pres {
				for _, o := range ip.eval(fr, p.st, f.X) {
					ns := o.St
					if c.Var != nil && c.Field != "" {
						ns = ip.Dom.Visit(ip, fr, ns, f) // read of a func-typed field
					}
					next = append(next, pre{st: ns})
				}
			}
			pres = next
		}
	}
	for _, a := range call.Args {
		var next []pre
		for _, p := range pres {
			for _, o := range ip.eval(fr, p.st, a) {
				next = append(next, pre{st: o.St, args: append(append([]Value(nil), p.args...), o.val())})
			}
		}
		pres = next
	}
	var outs []Out
	for _, p := range pres {
		outs = append(outs, ip.dispatch(fr, p.st, call, c, p.args)...)
	}
	return outs
}

func (ip *Interp) dispatch(fr *Frame, st *State, call *ast.CallExpr, c *Callee, args []Value) []Out {
	nres := 1
	if tv, ok := fr.Fn.Info().Types[call]; ok {
		if tup, ok := tv.Type.(*types.Tuple); ok {
			nres = tup.Len()
		}
	}
	opaque := func(s *State) []Out {
		vals := make([]Value, nres)
		if nres == 1 && (c.Key == "fmt.Errorf" || c.Key == "errors.New" || c.Builtin == "make" || c.Builtin == "new") {
			vals[0] = Value{Kind: VNonNil}
		}
		return []Out{{St: s, Vals: vals}}
	}
	if c.Builtin == "panic" {
		ip.Dom.Call(ip, fr, st, call, c, args)
		return nil
	}
	// a call through a variable that holds a method value x.m (of the same package: one types.Info) is a call of x.m
	if c.Var != nil && c.Field == "" {
		if v := ip.lookup(st, c.Var); v.Kind == VMeth && v.SelFn.Pkg == fr.Fn.Pkg {
			call2 := &ast.CallExpr{Fun: v.Sel, Lparen: call.Lparen, Args: call.Args, Rparen: call.Rparen}
			outs := ip.dispatch(fr, st, call2, resolveCallee(fr.Fn.Info(), call2), args)
			for i := range outs {
				if len(outs[i].Vals) != nres {
					vals := make([]Value, nres)
					copy(vals, outs[i].Vals)
					outs[i].Vals = vals
				}
			}
			return outs
		}
	}
	if outs, handled := ip.Dom.Call(ip, fr, st, call, c, args); handled {
		for i := range outs {
			if len(outs[i].Vals) != nres {
				v := make([]Value, nres)
				copy(v, outs[i].Vals)
				outs[i].Vals = v
			}
		}
		return outs
	}
	// calls of function literals held in local variables, immediately invoked
	// literals, and literals bound to parameters of inlined callees
	var lit *ast.FuncLit
	if c.Lit != nil {
		lit = c.Lit
	} else if c.Var != nil && c.Field == "" {
		if v := ip.lookup(st, c.Var); v.Kind == VLit {
			lit = v.Lit
		}
	}
	if lit != nil {
		if f := ip.P.byLit[lit]; f != nil && fr.Depth < ip.MaxDepth && !fr.onStack(f) {
			return ip.inline(fr, st, call, f, args)
		}
		return opaque(st)
	}
	targets := ip.Dom.Inline(ip, fr, st, call, c)
	if len(targets) == 0 || fr.Depth >= ip.MaxDepth {
		return opaque(st)
	}
	var outs []Out
	for _, f := range targets {
		if f.Body == nil || fr.onStack(f) {
			outs = append(outs, opaque(st)...)
			continue
		}
		outs = append(outs, ip.inline(fr, st, call, f, args)...)
	}
	return outs
}

func (ip *Interp) inline(fr *Frame, st *State, call *ast.CallExpr, f *Func, args []Value) []Out {
	ip.Inlined[f.Key] = true
	if debugInline {
		fmt.Fprintf(os.Stderr, "INLINE d=%d %s <- %s\n", fr.Depth+1, f.Short(), fr.Fn.Short())
	}
	nf := &Frame{Fn: f, Depth: fr.Depth + 1, Caller: fr, Call: call, InGo: fr.InGo}
	ns := st
	// bind parameters
	if f.Type.Params != nil {
		i := 0
		for _, fld := range f.Type.Params.List {
			if len(fld.Names) == 0 {
				i++
				continue
			}
			for _, nm := range fld.Names {
				v := unknown
				if _, variadic := fld.Type.(*ast.Ellipsis); !variadic && i < len(args) {
					v = args[i]
				}
				ns = ip.bind(ns, f.Info().ObjectOf(nm), v, nf.Depth)
				if b, ok := ip.Dom.(Binder); ok && i < len(call.Args) {
					if _, variadic := fld.Type.(*ast.Ellipsis); !variadic {
						ns = b.Bind(ip, nf, ns, f.Info().ObjectOf(nm), call.Args[i], fr)
					}
				}
				i++
			}
		}
	}
	if f.Type.Results != nil {
		for _, fld := range f.Type.Results.List {
			for _, nm := range fld.Names {
				ns = ip.bind(ns, f.Info().ObjectOf(nm), zeroValue(f.Info().TypeOf(nm)), nf.Depth)
			}
		}
	}
	if b, ok := ip.Dom.(Binder); ok && f.Decl != nil && f.Decl.Recv != nil && len(f.Decl.Recv.List) == 1 && len(f.Decl.Recv.List[0].Names) == 1 {
		var recv ast.Expr
		if ip.recvOverride != nil {
			recv = ip.recvOverride
		} else if sel, ok := ast.Unparen(call.Fun).(*ast.SelectorExpr); ok {
			recv = sel.X
		}
		if recv != nil {
			ns = b.Bind(ip, nf, ns, f.Info().ObjectOf(f.Decl.Recv.List[0].Names[0]), recv, fr)
		}
	}
	ip.recvOverride = nil
	rets := ip.runFrame(nf, ns)
	var outs []Out
	seen := map[string]bool{}
	for _, r := range rets {
		s := ip.Dom.Visit(ip, nf, r.St, CalleeReturn{Entry: ns})
		s = ip.dropDepth(s, fr.Depth)
		k := s.Key() + "#" + valsKey(r.Vals)
		if seen[k] {
			continue
		}
		seen[k] = true
		outs = append(outs, Out{St: s, Vals: r.Vals})
	}
	return outs
}

// foldInts folds + - * and the order comparisons on two known small integer constants (the values a tracked counter
// or status field takes): `next := count - 1 ... next == 0` stays decidable.
func foldInts(op token.Token, a, b Value) (Value, bool) {
	if a.Kind != VConst || b.Kind != VConst {
		return Value{}, false
	}
	x, err1 := strconv.ParseInt(a.S, 10, 64)
	y, err2 := strconv.ParseInt(b.S, 10, 64)
	if err1 != nil || err2 != nil {
		return Value{}, false
	}
	switch op {
	case token.ADD:
		return Value{Kind: VConst, S: strconv.FormatInt(x+y, 10)}, true
	case token.SUB:
		return Value{Kind: VConst, S: strconv.FormatInt(x-y, 10)}, true
	case token.MUL:
		return Value{Kind: VConst, S: strconv.FormatInt(x*y, 10)}, true
	case token.LSS:
		return boolVal(x < y), true
	case token.LEQ:
		return boolVal(x <= y), true
	case token.GTR:
		return boolVal(x > y), true
	case token.GEQ:
		return boolVal(x >= y), true
	}
	return Value{}, false
}

func isBoolType(t types.Type) bool {
	b, ok := t.Underlying().(*types.Basic)
	return ok && b.Info()&types.IsBoolean != 0
}

var debugInline = os.Getenv("VARMQLINT_TRACEINLINE") != ""
