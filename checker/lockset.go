package main

// E4: context-sensitive static lockset.
//
// Lock identity is (struct type, mutex field), mode R or W. The walker starts
// from every entry point with an empty lockset — user-callable functions of
// the public packages, every goroutine body, every callback handed to foreign
// code — and inlines library callees (static calls, CHA-resolved interface
// calls, container/heap callbacks, synchronous higher-order helpers), so each
// access is seen with the locks actually held along that call chain. Outputs:
//   * per struct field: every access with mode, lockset, call chain, and
//     whether the base object is still private to its constructor;
//   * the lock-order graph;
//   * blocking operations performed while a lock is held;
//   * the lockset at selected operations (Cond.Broadcast, channel sends/closes).

import (
	"fmt"
	"go/ast"
	"go/token"
	"go/types"
	"sort"
	"strings"
)

type Access struct {
	Field   string
	Write   bool
	Locks   map[string]string // lock key -> "R"|"W"
	Fn      *Func
	Pos     token.Pos
	Chain   string
	Private bool   // base object not yet published (constructor-local) or a local copy
	How     string // "assign", "read", "incdec", "composite", "addr"
}

func locksString(l map[string]string) string {
	if len(l) == 0 {
		return "∅"
	}
	var ks []string
	for k, m := range l {
		ks = append(ks, shortKey(k)+":"+m)
	}
	sort.Strings(ks)
	return strings.Join(ks, ",")
}

type OpSite struct {
	Op    string // "broadcast", "send(signal)", "send(err)", "close(signal)", ... or "block:<what>"
	Locks map[string]string
	Fn    *Func
	Pos   token.Pos
	Chain string
	Extra string
}

type LockEdge struct {
	From, To string
	Pos      token.Pos
	Chain    string
}

type LockFacts struct {
	Accesses []Access
	Ops      []OpSite
	Edges    []LockEdge
	Roots    []string
	Skipped  []string // internal functions never reached from an entry point
	Problems []string
	Reached  map[string]bool
}

type lockDom struct {
	BaseDomain
	c       *Ctx
	facts   *LockFacts
	seenAcc map[string]bool
	seenOp  map[string]bool
	root    *Func
	spawned []spawn
}

type spawn struct {
	fn   *Func
	args []Value
	how  string
}

func (d *lockDom) held(st *State) map[string]string {
	out := map[string]string{}
	for _, p := range strings.Split(string(st.Dom.(kv)), ";") {
		if strings.HasPrefix(p, "L:") {
			i := strings.LastIndex(p, "=")
			out[p[2:i]] = p[i+1:]
		}
	}
	return out
}

func mutexOp(info *types.Info, call *ast.CallExpr, c *Callee) (lock string, op string) {
	switch c.Key {
	case "sync.RWMutex.Lock", "sync.Mutex.Lock":
		op = "W"
	case "sync.RWMutex.RLock":
		op = "R"
	case "sync.RWMutex.Unlock", "sync.Mutex.Unlock":
		op = "-W"
	case "sync.RWMutex.RUnlock":
		op = "-R"
	default:
		return "", ""
	}
	if c.Recv != nil {
		if fk := selField(info, c.Recv); fk != "" {
			return fk, op
		}
		// embedded mutex or local mutex variable
		if o := rootIdent(info, c.Recv); o != nil {
			return "local:" + o.Name(), op
		}
	}
	return "?", op
}

var heapFuncs = map[string]bool{"container/heap.Push": true, "container/heap.Pop": true, "container/heap.Init": true, "container/heap.Fix": true, "container/heap.Remove": true}
var syncHOF = map[string]bool{"slices.MaxFunc": true, "slices.MinFunc": true, "slices.SortFunc": true, "sort.Slice": true, "slices.IndexFunc": true, "slices.ContainsFunc": true}

func (d *lockDom) Inline(ip *Interp, fr *Frame, st *State, call *ast.CallExpr, c *Callee) []*Func {
	if c.Field != "" && c.Var != nil {
		return d.c.fieldFuncTargets(c.Field)
	}
	if c.Key == "" {
		return nil
	}
	if c.Iface {
		return ip.P.implementationsIn(fr.Fn, c)
	}
	if f := ip.P.byObj[c.Key]; f != nil && f.Lib {
		return []*Func{f}
	}
	return nil
}

func (d *lockDom) Call(ip *Interp, fr *Frame, st *State, call *ast.CallExpr, c *Callee, args []Value) ([]Out, bool) {
	info := fr.Fn.Info()
	s := st.Dom.(kv)
	if lk, op := mutexOp(info, call, c); op != "" {
		key := "L:" + lk
		switch op {
		case "W", "R":
			for h := range d.held(st) {
				if h != lk {
					d.facts.Edges = append(d.facts.Edges, LockEdge{From: h, To: lk, Pos: call.Pos(), Chain: fr.Path()})
				} else {
					d.op(fr, st, call, "relock", lk)
				}
			}
			s = s.set(key, op)
		default:
			s = s.set(key, "")
		}
		return []Out{{St: st.WithDom(s)}}, true
	}
	if fk, m := atomicOp(info, call); fk != "" {
		d.op(fr, st, call, "atomic:"+m, fk)
	}
	switch {
	case c.Key == kBroadcast || c.Key == kSignal:
		d.op(fr, st, call, "broadcast", selField(info, c.Recv))
	case c.Key == kCondWait:
		d.op(fr, st, call, "condwait", selField(info, c.Recv))
	case c.Key == kWgWait, c.Key == kWgcWait:
		d.op(fr, st, call, "block:WaitGroup.Wait", "")
	case c.Key == "time.Sleep":
		d.op(fr, st, call, "block:time.Sleep", "")
	case c.Builtin == "close" && len(call.Args) == 1:
		d.op(fr, st, call, "close", selField(info, call.Args[0]))
	}
	if heapFuncs[c.Key] && len(call.Args) >= 1 {
		// container/heap calls back into the heap.Interface methods of its
		// first argument while our locks are held
		t := info.TypeOf(call.Args[0])
		outs := []Out{{St: st}}
		if n := namedOf(t); n != nil {
			for _, m := range []string{"Len", "Less", "Swap", "Push", "Pop"} {
				obj, _, _ := types.LookupFieldOrMethod(types.NewPointer(n), true, n.Obj().Pkg(), m)
				if fn, ok := obj.(*types.Func); ok {
					if f := ip.P.byObj[funcKey(fn)]; f != nil && !fr.onStack(f) && fr.Depth < ip.MaxDepth {
						var next []Out
						for _, o := range outs {
							ip.recvOverride = call.Args[0]
							for _, r := range ip.inline(fr, o.St, call, f, nil) {
								next = append(next, Out{St: r.St})
							}
						}
						if len(next) > 0 {
							outs = dedupOuts(next)
						}
					}
				}
			}
		}
		return outs, true
	}
	if syncHOF[c.Key] {
		outs := []Out{{St: st}}
		for _, a := range call.Args {
			if lit, ok := ast.Unparen(a).(*ast.FuncLit); ok {
				if f := ip.P.byLit[lit]; f != nil && fr.Depth < ip.MaxDepth {
					var next []Out
					for _, o := range outs {
						for _, r := range ip.inline(fr, o.St, call, f, nil) {
							next = append(next, Out{St: r.St})
						}
					}
					outs = dedupOuts(next)
				}
			}
		}
		return outs, true
	}
	// callbacks handed to foreign code run later with no locks of ours
	if c.Key == kSubscribe || (c.Key != "" && !strings.HasPrefix(c.Key, modPath) && c.Key != kWithSafe) {
		for i, a := range call.Args {
			d.noteCallback(ip, fr, a, args, i)
		}
	}
	return nil, false
}

func dedupOuts(outs []Out) []Out {
	seen := map[string]bool{}
	var res []Out
	for _, o := range outs {
		k := o.St.Key()
		if !seen[k] {
			seen[k] = true
			res = append(res, o)
		}
	}
	return res
}

func (d *lockDom) noteCallback(ip *Interp, fr *Frame, a ast.Expr, args []Value, i int) {
	info := fr.Fn.Info()
	switch x := ast.Unparen(a).(type) {
	case *ast.FuncLit:
		if f := ip.P.byLit[x]; f != nil {
			d.spawned = append(d.spawned, spawn{fn: f, how: "callback"})
		}
	case *ast.SelectorExpr:
		if sel, ok := info.Selections[x]; ok && sel.Kind() == types.MethodVal {
			if fn, ok := sel.Obj().(*types.Func); ok {
				if f := ip.P.byObj[funcKey(fn)]; f != nil {
					d.spawned = append(d.spawned, spawn{fn: f, how: "callback"})
				}
			}
		}
	case *ast.Ident:
		if fn, ok := info.Uses[x].(*types.Func); ok {
			if f := ip.P.byObj[funcKey(fn)]; f != nil {
				d.spawned = append(d.spawned, spawn{fn: f, how: "callback"})
			}
		}
	}
}

func (d *lockDom) op(fr *Frame, st *State, n ast.Node, op, extra string) {
	held := d.held(st)
	k := fmt.Sprintf("%s|%d|%s|%s", op, n.Pos(), locksString(held), extra)
	if d.seenOp[k] {
		return
	}
	d.seenOp[k] = true
	d.facts.Ops = append(d.facts.Ops, OpSite{Op: op, Locks: held, Fn: fr.Fn, Pos: n.Pos(), Chain: fr.Path(), Extra: extra})
}

func (d *lockDom) access(ip *Interp, fr *Frame, st *State, sel *ast.SelectorExpr, write bool, how string) {
	info := fr.Fn.Info()
	fk := fieldKey(info, sel)
	if fk == "" || !strings.HasPrefix(fk, modPath) {
		return
	}
	held := d.held(st)
	priv := d.isPrivate(ip, fr, st, sel.X)
	k := fmt.Sprintf("%s|%v|%d|%s|%v", fk, write, sel.Pos(), locksString(held), priv)
	if d.seenAcc[k] {
		return
	}
	d.seenAcc[k] = true
	d.facts.Accesses = append(d.facts.Accesses, Access{Field: fk, Write: write, Locks: held, Fn: fr.Fn, Pos: sel.Pos(), Chain: fr.Path(), Private: priv, How: how})
}

// isPrivate: the base of the selector is an object no other goroutine can
// see yet: a local struct value (copy), or a local pointer that, on every
// assignment in this function, received a fresh composite literal / new() /
// the result of a constructor of the library that returns a fresh object.
func (d *lockDom) isPrivate(ip *Interp, fr *Frame, st *State, base ast.Expr) bool {
	info := fr.Fn.Info()
	base = ast.Unparen(base)
	// x.a.b : privacy is decided by the root variable if all intermediate
	// selections are value (non-pointer) fields
	for {
		sel, ok := base.(*ast.SelectorExpr)
		if !ok {
			break
		}
		if _, isField := info.Selections[sel]; !isField {
			break
		}
		if _, isPtr := info.TypeOf(sel).Underlying().(*types.Pointer); isPtr {
			return false // reached through a pointer stored in a field
		}
		base = ast.Unparen(sel.X)
	}
	if call, ok := base.(*ast.CallExpr); ok {
		return d.c.freshExpr(fr.Fn, call)
	}
	id, ok := base.(*ast.Ident)
	if !ok {
		return false
	}
	obj, ok := info.ObjectOf(id).(*types.Var)
	if !ok || obj.IsField() || obj.Pkg() == nil || obj.Parent() == obj.Pkg().Scope() {
		return false
	}
	if st.Dom.(kv).get(fmt.Sprintf("P:%d", ip.id(obj))) == "1" {
		return true // bound to an object that is private in the caller
	}
	if _, isPtr := obj.Type().Underlying().(*types.Pointer); !isPtr {
		// a struct value held in a local variable or value parameter/receiver
		if _, isStruct := obj.Type().Underlying().(*types.Struct); isStruct {
			return true
		}
		return false
	}
	// pointer local: look at its assignments in the declaring function
	decl := ip.P.enclosing(obj.Pos())
	if decl == nil || decl.Body == nil {
		return false
	}
	if isParamOf(decl, obj) {
		return false
	}
	fresh, n := assignedOnlyFrom(decl, obj, func(rhs ast.Expr, idx, cnt int) bool {
		return d.c.freshExpr(decl, rhs)
	})
	if n == 0 {
		// declared with var x = ... (ValueSpec)
		return d.c.declaredFresh(decl, obj)
	}
	return fresh
}

// Bind propagates privacy of an argument / receiver into the inlined callee.
func (d *lockDom) Bind(ip *Interp, callee *Frame, st *State, param types.Object, arg ast.Expr, caller *Frame) *State {
	if _, isPtr := param.Type().Underlying().(*types.Pointer); !isPtr {
		return st
	}
	s := st.Dom.(kv)
	key := fmt.Sprintf("P:%d", ip.id(param))
	if d.isPrivate(ip, caller, st, arg) {
		return st.WithDom(s.set(key, "1"))
	}
	return st.WithDom(s.set(key, ""))
}

func isParamOf(f *Func, obj types.Object) bool {
	check := func(fl *ast.FieldList) bool {
		if fl == nil {
			return false
		}
		for _, fld := range fl.List {
			for _, nm := range fld.Names {
				if f.Info().ObjectOf(nm) == obj {
					return true
				}
			}
		}
		return false
	}
	if check(f.Type.Params) {
		return true
	}
	if f.Decl != nil && check(f.Decl.Recv) {
		return true
	}
	return false
}

// freshExpr: e evaluates to an object nobody else references yet.
func (c *Ctx) freshExpr(f *Func, e ast.Expr) bool {
	info := f.Info()
	switch x := ast.Unparen(e).(type) {
	case *ast.UnaryExpr:
		if x.Op == token.AND {
			_, ok := ast.Unparen(x.X).(*ast.CompositeLit)
			return ok
		}
	case *ast.CompositeLit:
		return true
	case *ast.CallExpr:
		ce := resolveCallee(info, x)
		if ce.Builtin == "new" {
			return true
		}
		if g := c.P.byObj[ce.Key]; g != nil && g.Lib {
			return c.isConstructor(g)
		}
	}
	return false
}

// isConstructor: every return of g returns a fresh object (composite literal,
// new, another constructor, or a local that only ever held such values).
func (c *Ctx) isConstructor(g *Func) bool {
	if c.cache == nil {
		c.cache = map[string]any{}
	}
	key := "ctor:" + g.Key
	if v, ok := c.cache[key]; ok {
		return v.(bool)
	}
	c.cache[key] = false // recursion guard
	ok := true
	nret := 0
	ast.Inspect(g.Body, func(n ast.Node) bool {
		switch x := n.(type) {
		case *ast.FuncLit:
			return false
		case *ast.ReturnStmt:
			if len(x.Results) == 0 {
				ok = false
				return true
			}
			nret++
			r := ast.Unparen(x.Results[0])
			if c.freshExpr(g, r) {
				return true
			}
			if id, isId := r.(*ast.Ident); isId {
				if obj, isVar := g.Info().ObjectOf(id).(*types.Var); isVar && !isParamOf(g, obj) {
					fresh, n := assignedOnlyFrom(g, obj, func(rhs ast.Expr, idx, cnt int) bool { return c.freshExpr(g, rhs) })
					if n > 0 && fresh {
						return true
					}
				}
			}
			if isNilExpr(g.Info(), r) {
				return true
			}
			ok = false
		}
		return true
	})
	res := ok && nret > 0
	c.cache[key] = res
	return res
}

func (c *Ctx) declaredFresh(f *Func, obj types.Object) bool {
	res := false
	ast.Inspect(f.Body, func(n ast.Node) bool {
		vs, ok := n.(*ast.ValueSpec)
		if !ok {
			return true
		}
		for i, nm := range vs.Names {
			if f.Info().ObjectOf(nm) == obj && i < len(vs.Values) {
				res = c.freshExpr(f, vs.Values[i])
			}
		}
		return true
	})
	return res
}

func (d *lockDom) Visit(ip *Interp, fr *Frame, st *State, n ast.Node) *State {
	info := fr.Fn.Info()
	switch x := n.(type) {
	case *ast.SelectorExpr:
		if s, ok := info.Selections[x]; ok && s.Kind() == types.FieldVal {
			d.access(ip, fr, st, x, false, "read")
		}
	case *ast.AssignStmt:
		for _, l := range x.Lhs {
			d.writeTarget(ip, fr, st, l, "assign")
		}
	case *ast.IncDecStmt:
		d.writeTarget(ip, fr, st, x.X, "incdec")
	case *ast.SendStmt:
		what := "send(chan)"
		switch selField(info, x.Chan) {
		case d.c.R.FSignal:
			what = "send(signal)"
		case d.c.R.FErr:
			what = "send(err)"
		}
		d.op(fr, st, x, what, fmt.Sprint(d.inSelectWithDefault(fr, x)))
	case *ast.UnaryExpr:
		if x.Op == token.ARROW {
			d.op(fr, st, x, "recv", fmt.Sprint(d.inSelectWithDefault(fr, x)))
		}
	case *ast.RangeStmt:
		if _, ok := info.TypeOf(x.X).Underlying().(*types.Chan); ok {
			d.op(fr, st, x, "recv", "false")
		}
	case *ast.GoStmt:
		d.noteGo(ip, fr, st, x)
	}
	return st
}

func (d *lockDom) writeTarget(ip *Interp, fr *Frame, st *State, l ast.Expr, how string) {
	switch x := ast.Unparen(l).(type) {
	case *ast.SelectorExpr:
		d.access(ip, fr, st, x, true, how)
	case *ast.IndexExpr:
		// a[i] = v writes the storage the field refers to
		if sel, ok := ast.Unparen(x.X).(*ast.SelectorExpr); ok {
			d.access(ip, fr, st, sel, true, how+"[]")
		}
	case *ast.StarExpr:
	}
}

// inSelectWithDefault: the communication is a case of a select statement that
// also has a default clause (so it cannot block).
func (d *lockDom) inSelectWithDefault(fr *Frame, n ast.Node) bool {
	res := false
	ast.Inspect(fr.Fn.Body, func(x ast.Node) bool {
		sel, ok := x.(*ast.SelectStmt)
		if !ok {
			return true
		}
		hasDefault, contains := false, false
		for _, cc := range sel.Body.List {
			clause := cc.(*ast.CommClause)
			if clause.Comm == nil {
				hasDefault = true
				continue
			}
			ast.Inspect(clause.Comm, func(y ast.Node) bool {
				if y == n {
					contains = true
				}
				return true
			})
		}
		if contains && hasDefault {
			res = true
		}
		return true
	})
	return res
}

func (d *lockDom) noteGo(ip *Interp, fr *Frame, st *State, g *ast.GoStmt) {
	info := fr.Fn.Info()
	if lit, ok := ast.Unparen(g.Call.Fun).(*ast.FuncLit); ok {
		if f := ip.P.byLit[lit]; f != nil {
			d.spawned = append(d.spawned, spawn{fn: f, how: "go"})
		}
		return
	}
	ce := resolveCallee(info, g.Call)
	if f := ip.P.byObj[ce.Key]; f != nil {
		var args []Value
		for _, a := range g.Call.Args {
			if lit, ok := ast.Unparen(a).(*ast.FuncLit); ok {
				args = append(args, Value{Kind: VLit, Lit: lit})
			} else {
				args = append(args, unknown)
			}
		}
		d.spawned = append(d.spawned, spawn{fn: f, args: args, how: "go"})
	}
}

// fieldFuncTargets: the function literals that can be stored in a func-typed
// struct field: values of composite-literal keys, directly or through one
// parameter of the enclosing constructor.
func (c *Ctx) fieldFuncTargets(field string) []*Func {
	if c.cache == nil {
		c.cache = map[string]any{}
	}
	if v, ok := c.cache["fft:"+field]; ok {
		return v.([]*Func)
	}
	var out []*Func
	name := field[strings.LastIndex(field, ".")+1:]
	owner := field[:strings.LastIndex(field, ".")]
	for _, f := range c.P.Funcs {
		if f.Body == nil {
			continue
		}
		info := f.Info()
		ast.Inspect(f.Body, func(n ast.Node) bool {
			cl, ok := n.(*ast.CompositeLit)
			if !ok || qualTypeName(info.TypeOf(cl)) != owner {
				return true
			}
			for _, el := range cl.Elts {
				kvx, ok := el.(*ast.KeyValueExpr)
				if !ok {
					continue
				}
				if id, ok := kvx.Key.(*ast.Ident); !ok || id.Name != name {
					continue
				}
				switch v := ast.Unparen(kvx.Value).(type) {
				case *ast.FuncLit:
					out = appendUnique(out, c.P.byLit[v])
				case *ast.Ident:
					obj := info.ObjectOf(v)
					if !isParamOf(f, obj) {
						continue
					}
					idx := paramIndex(f, obj)
					for _, cs := range c.P.allCalls(false) {
						if cs.Callee.Key == f.Key && idx < len(cs.Call.Args) {
							if lit, ok := ast.Unparen(cs.Call.Args[idx]).(*ast.FuncLit); ok {
								out = appendUnique(out, c.P.byLit[lit])
							}
						}
					}
				}
			}
			return true
		})
	}
	c.cache["fft:"+field] = out
	return out
}

func paramIndex(f *Func, obj types.Object) int {
	i := 0
	if f.Type.Params == nil {
		return -1
	}
	for _, fld := range f.Type.Params.List {
		if len(fld.Names) == 0 {
			i++
			continue
		}
		for _, nm := range fld.Names {
			if f.Info().ObjectOf(nm) == obj {
				return i
			}
			i++
		}
	}
	return -1
}

// publicInterfaceMethods: concrete methods (including ones promoted from
// embedded internal types) that a user can reach through an exported
// interface of a public package.
func (c *Ctx) publicInterfaceMethods() []*Func {
	var out []*Func
	seen := map[string]bool{}
	for _, pkg := range c.P.Pkgs {
		if !libPkgs[pkg.PkgPath] || strings.Contains(pkg.PkgPath, "/internal/") {
			continue
		}
		scope := pkg.Types.Scope()
		for _, n := range scope.Names() {
			tn, ok := scope.Lookup(n).(*types.TypeName)
			if !ok || !tn.Exported() {
				continue
			}
			it, ok := tn.Type().Underlying().(*types.Interface)
			if !ok {
				continue
			}
			for _, lp := range c.P.Pkgs {
				if !libPkgs[lp.PkgPath] {
					continue
				}
				for _, cn := range lp.Types.Scope().Names() {
					ctn, ok := lp.Types.Scope().Lookup(cn).(*types.TypeName)
					if !ok || ctn.IsAlias() {
						continue
					}
					named, ok := ctn.Type().(*types.Named)
					if !ok || types.IsInterface(named) || !hasAllMethods(named, it) {
						continue
					}
					for i := 0; i < it.NumMethods(); i++ {
						m := it.Method(i)
						obj, _, _ := types.LookupFieldOrMethod(types.NewPointer(named), true, m.Pkg(), m.Name())
						if fn, ok := obj.(*types.Func); ok {
							if f := c.P.byObj[funcKey(fn)]; f != nil && !seen[f.Key] {
								seen[f.Key] = true
								out = append(out, f)
							}
						}
					}
				}
			}
		}
	}
	return out
}

// RunWithArgs runs fn as outermost frame with its parameters bound to args.
func (ip *Interp) RunWithArgs(fn *Func, init *State, args []Value) []retOut {
	st := init
	if fn.Type.Params != nil {
		i := 0
		for _, fld := range fn.Type.Params.List {
			for _, nm := range fld.Names {
				if i < len(args) {
					st = ip.bind(st, fn.Info().ObjectOf(nm), args[i], 0)
				}
				i++
			}
			if len(fld.Names) == 0 {
				i++
			}
		}
	}
	return ip.Run(fn, st)
}

// userCallable: exported function or method of a public (non-internal) library package.
func userCallable(f *Func) bool {
	if f.Obj == nil || !f.Lib || strings.Contains(f.Pkg.PkgPath, "/internal/") {
		return false
	}
	return f.Obj.Exported()
}

func (c *Ctx) lockFacts() *LockFacts {
	if c.cache == nil {
		c.cache = map[string]any{}
	}
	if v, ok := c.cache["lockfacts"]; ok {
		return v.(*LockFacts)
	}
	facts := &LockFacts{Reached: map[string]bool{}}
	d := &lockDom{c: c, facts: facts, seenAcc: map[string]bool{}, seenOp: map[string]bool{}}
	type rootT struct {
		fn   *Func
		args []Value
		how  string
	}
	var queue []rootT
	queued := map[string]bool{}
	push := func(r rootT) {
		k := r.fn.Key
		if queued[k] {
			return
		}
		queued[k] = true
		queue = append(queue, r)
	}
	for _, f := range c.P.Funcs {
		if userCallable(f) {
			push(rootT{fn: f, how: "api"})
		}
	}
	for _, f := range c.publicInterfaceMethods() {
		push(rootT{fn: f, how: "api"})
	}
	drain := func() {
		for len(queue) > 0 {
			r := queue[0]
			queue = queue[1:]
			d.root = r.fn
			d.spawned = nil
			ip := NewInterp(c.P, d)
			ip.MaxDepth = 10
			ip.RunWithArgs(r.fn, &State{Dom: kv("")}, r.args)
			facts.Roots = append(facts.Roots, r.how+":"+r.fn.Short())
			facts.Reached[r.fn.Key] = true
			for k := range ip.Inlined {
				facts.Reached[k] = true
			}
			seen := map[string]bool{}
			for _, u := range ip.Undecided {
				if !seen[u] {
					seen[u] = true
					facts.Problems = append(facts.Problems, u)
				}
			}
			for _, s := range d.spawned {
				push(rootT{fn: s.fn, args: s.args, how: s.how})
			}
		}
	}
	drain()
	// function literals nobody was seen to call (returned closures, values
	// stored for later): they run at an unknown time with no lock of ours
	for _, f := range c.P.Funcs {
		if f.Lit != nil && f.Body != nil && !facts.Reached[f.Key] {
			push(rootT{fn: f, how: "closure"})
		}
	}
	drain()
	for _, f := range c.P.Funcs {
		if f.Body != nil && !facts.Reached[f.Key] && f.Decl != nil {
			facts.Skipped = append(facts.Skipped, f.Short())
		}
	}
	sort.Strings(facts.Skipped)
	c.cache["lockfacts"] = facts
	return facts
}
