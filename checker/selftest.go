package main

// Mutation self-test: positive controls for the rules. Each mutant rewrites
// one construct of /repo's *current* source in memory (go/packages overlay;
// nothing is written into /repo or /verif), the analyser is re-run on the
// variant in its own process, and the rule named by the mutant must report.
// quick tier: the mutants marked Quick (a handful per property); thorough
// tier: all of them. A missed mutant means the checker is broken: the run
// exits non-zero with SELFTEST-MISS and *no* VIOLATION line.

import (
	"context"
	"encoding/json"
	"fmt"
	"os"
	"os/exec"
	"path/filepath"
	"sort"
	"strings"
	"sync"
	"time"
)

type mutant struct {
	ID     string
	Prop   string
	File   string // path relative to the repository root
	Old    string // text to replace (must occur exactly once, or Nth occurrence if N>0)
	New    string
	N      int
	Expect string // rule id that must report
	Quick  bool
	Why    string   // the realistic change it imitates
	Append string   // text appended to the file (helper functions a refactoring introduces)
	Benign bool     // behaviour-preserving variant: NO rule of any property may report
	Env    []string // extra environment for the child (an alternative build configuration of the unchanged tree)
	Patch  string   // a seeded change (unified diff under <verif>/seeded/<id>/patch.diff) applied as a multi-file overlay
}

var mutants []mutant

func addMutants(ms ...mutant) { mutants = append(mutants, ms...) }

type mutantResult struct {
	ID       string   `json:"id"`
	Why      string   `json:"imitates"`
	Expect   string   `json:"must_be_reported_by"`
	Status   string   `json:"status"` // detected | MISSED | skipped (target absent) | invalid (does not type-check)
	Reported []string `json:"reported,omitempty"`
}

func nthIndex(s, sub string, n int) int {
	if n <= 0 {
		if strings.Count(s, sub) != 1 {
			return -1
		}
		return strings.Index(s, sub)
	}
	idx := -1
	from := 0
	for i := 0; i < n; i++ {
		j := strings.Index(s[from:], sub)
		if j < 0 {
			return -1
		}
		idx = from + j
		from = idx + len(sub)
	}
	return idx
}

func runSelfTest(c *Ctx, def *propDef, repo, verif string) (bool, any) {
	var todo []mutant
	for _, m := range mutants {
		if only := os.Getenv("VARMQLINT_ONLY"); only != "" && !strings.Contains(m.ID, only) {
			continue
		}
		if m.Benign {
			// benign variants are run against every property (thorough), a few of them on every run
			if c.Tier != "thorough" && !m.Quick {
				continue
			}
			m.Prop = def.ID
			todo = append(todo, m)
			continue
		}
		if m.Prop != def.ID {
			continue
		}
		if c.Tier != "thorough" && !m.Quick {
			continue
		}
		todo = append(todo, m)
	}
	if c.Tier == "thorough" {
		todo = append(todo, seededMutants(verif, def.ID)...)
		todo = append(todo, refactorMutants(verif, def.ID)...)
		// the same source under the other word size the build supports: every rule must hold there too (int is 32 bits:
		// conversions, comparator extremes and constant folding differ)
		if only := os.Getenv("VARMQLINT_ONLY"); only == "" || strings.Contains("config/GOARCH=386", only) {
			todo = append(todo, mutant{ID: "config/GOARCH=386", Prop: def.ID, Benign: true, Env: []string{"GOARCH=386", "CGO_ENABLED=0"}, Why: "the unchanged tree analysed for a 32-bit target"})
		}
	}
	exe, err := os.Executable()
	if err != nil {
		return false, map[string]any{"error": err.Error()}
	}
	results := make([]mutantResult, len(todo))
	sem := make(chan struct{}, 12)
	var wg sync.WaitGroup
	for i, m := range todo {
		wg.Add(1)
		go func(i int, m mutant) {
			defer wg.Done()
			sem <- struct{}{}
			defer func() { <-sem }()
			results[i] = runMutant(exe, repo, verif, m)
		}(i, m)
	}
	wg.Wait()
	ok := true
	counts := map[string]int{}
	for _, r := range results {
		counts[r.Status]++
		if r.Status == "MISSED" {
			ok = false
			fmt.Printf("SELFTEST-MISS rule=%s mutant=%s (%s): reported %v\n", r.Expect, r.ID, r.Why, r.Reported)
		}
		if strings.HasPrefix(r.Status, "invalid (analysis did not finish") {
			ok = false
			fmt.Printf("SELFTEST-HANG variant=%s (%s): %s\n", r.ID, r.Why, r.Status)
		}
		if r.Status == "FALSE-ALARM" {
			ok = false
			fmt.Printf("SELFTEST-FALSE-ALARM variant=%s (%s): reported %v\n", r.ID, r.Why, r.Reported)
		}
	}
	sort.Slice(results, func(i, j int) bool { return results[i].ID < results[j].ID })
	fmt.Printf("%s self-test: %d variant(s): %d detected, %d missed, %d benign quiet, %d false alarm(s), %d skipped, %d invalid\n", def.ID, len(results), counts["detected"], counts["MISSED"], counts["quiet (benign)"], counts["FALSE-ALARM"], counts["skipped (target absent)"], counts["invalid (does not type-check)"])
	return ok, map[string]any{"mutants": results, "detected": counts["detected"], "missed": counts["MISSED"], "benign_quiet": counts["quiet (benign)"], "false_alarms": counts["FALSE-ALARM"], "skipped": counts["skipped (target absent)"], "invalid": counts["invalid (does not type-check)"],
		"how": "each mutant is an in-memory overlay of one source file of the current tree, analysed in a separate process; the named rule must report"}
}

const variantTimeout = 10 * time.Minute

func runMutant(exe, repo, verif string, m mutant) mutantResult {
	res := mutantResult{ID: m.ID, Why: m.Why, Expect: m.Expect}
	var ov []byte
	if len(m.Env) > 0 {
		ctx, cancel := context.WithTimeout(context.Background(), variantTimeout)
		defer cancel()
		cmd := exec.CommandContext(ctx, exe, "-p", m.Prop, "-repo", repo, "-verif", verif, "-json", "-no-selftest")
		cmd.Env = append(os.Environ(), m.Env...)
		out, _ := cmd.Output()
		line := strings.TrimSpace(string(out))
		if i := strings.LastIndex(line, "\n"); i >= 0 {
			line = line[i+1:]
		}
		var fs []Finding
		if err := json.Unmarshal([]byte(line), &fs); err != nil {
			res.Status = "invalid (does not type-check)"
			res.Reported = []string{line}
			return res
		}
		res.Expect = "(nothing)"
		res.Status = "quiet (benign)"
		for _, f := range fs {
			res.Reported = append(res.Reported, f.Rule+" "+f.Func+": "+f.Construct)
			res.Status = "FALSE-ALARM"
		}
		return res
	}
	if m.Patch != "" {
		files, err := patchOverlay(repo, m.Patch)
		if err != nil {
			res.Status = "skipped (target absent)"
			res.Reported = []string{err.Error()}
			return res
		}
		ov, _ = json.Marshal(files)
	} else {
		path := filepath.Join(repo, m.File)
		src, err := os.ReadFile(path)
		if err != nil {
			res.Status = "skipped (target absent)"
			return res
		}
		s := string(src)
		idx := nthIndex(s, m.Old, m.N)
		if idx < 0 {
			res.Status = "skipped (target absent)"
			return res
		}
		mut := s[:idx] + m.New + s[idx+len(m.Old):] + m.Append
		ov, _ = json.Marshal(map[string]string{path: mut})
	}
	tmp, err := os.CreateTemp("", "varmqlint-mutant-*.json")
	if err != nil {
		res.Status = "invalid (does not type-check)"
		return res
	}
	defer os.Remove(tmp.Name())
	tmp.Write(ov)
	tmp.Close()
	// an analysis that does not finish is reported as an invalid variant (which fails the self-test), not waited for
	ctx, cancel := context.WithTimeout(context.Background(), variantTimeout)
	defer cancel()
	cmd := exec.CommandContext(ctx, exe, "-p", m.Prop, "-repo", repo, "-verif", verif, "-overlay", tmp.Name(), "-json", "-no-selftest")
	out, _ := cmd.Output()
	if ctx.Err() != nil {
		res.Status = "invalid (analysis did not finish within " + variantTimeout.String() + ")"
		return res
	}
	line := strings.TrimSpace(string(out))
	if i := strings.LastIndex(line, "\n"); i >= 0 {
		line = line[i+1:]
	}
	var fs []Finding
	if err := json.Unmarshal([]byte(line), &fs); err != nil {
		res.Status = "invalid (does not type-check)"
		res.Reported = []string{strings.TrimSpace(string(out))}
		if len(res.Reported[0]) > 300 {
			res.Reported[0] = res.Reported[0][:300]
		}
		return res
	}
	for _, f := range fs {
		res.Reported = append(res.Reported, f.Rule+" "+f.Func+": "+f.Construct)
		if f.Rule == m.Expect || m.Expect == "" {
			res.Status = "detected"
		}
	}
	if m.Benign {
		res.Expect = "(nothing)"
		if len(fs) == 0 {
			res.Status = "quiet (benign)"
		} else {
			res.Status = "FALSE-ALARM"
		}
	}
	if res.Status == "" {
		res.Status = "MISSED"
	}
	if len(res.Reported) > 6 {
		res.Reported = append(res.Reported[:6], fmt.Sprintf("… %d more", len(res.Reported)-6))
	}
	return res
}

// seededMutants: the confirmed seeded changes kept under <verif>/seeded (each one compiles, passes the existing test
// suite and breaks the named property — see its meta.json) are replayed at the thorough tier as overlays: the check of
// the property each was written against has to report it.
func seededMutants(verif, prop string) []mutant {
	var out []mutant
	metas, _ := filepath.Glob(filepath.Join(verif, "seeded", "*", "meta.json"))
	sort.Strings(metas)
	for _, mp := range metas {
		b, err := os.ReadFile(mp)
		if err != nil {
			continue
		}
		var meta struct {
			Property string `json:"property"`
			Breaks   string `json:"breaks_property"`
			Summary  string `json:"summary"`
			What     string `json:"what"`
		}
		if json.Unmarshal(b, &meta) != nil {
			continue
		}
		p := meta.Breaks
		if p == "" {
			p = meta.Property
		}
		if p != prop {
			continue
		}
		dir := filepath.Dir(mp)
		why := meta.Summary
		if why == "" {
			why = meta.What
		}
		if len(why) > 160 {
			why = why[:160]
		}
		out = append(out, mutant{ID: "seeded/" + filepath.Base(dir), Prop: prop, Patch: filepath.Join(dir, "patch.diff"), Why: "seeded change: " + why})
	}
	return out
}

// patchOverlay applies a unified diff to copies of the files it names and returns {absolute path in repo: patched content}.
func patchOverlay(repo, patch string) (map[string]string, error) {
	b, err := os.ReadFile(patch)
	if err != nil {
		return nil, err
	}
	var rel []string
	for _, line := range strings.Split(string(b), "\n") {
		if strings.HasPrefix(line, "+++ b/") {
			rel = append(rel, strings.TrimSpace(line[len("+++ b/"):]))
		}
	}
	if len(rel) == 0 {
		return nil, fmt.Errorf("no files in patch")
	}
	tmp, err := os.MkdirTemp("", "varmqlint-seed-*")
	if err != nil {
		return nil, err
	}
	defer os.RemoveAll(tmp)
	for _, r := range rel {
		src, err := os.ReadFile(filepath.Join(repo, r))
		if err != nil {
			src = nil // a file the patch creates
		}
		dst := filepath.Join(tmp, r)
		os.MkdirAll(filepath.Dir(dst), 0o755)
		if src != nil {
			if err := os.WriteFile(dst, src, 0o644); err != nil {
				return nil, err
			}
		}
	}
	cmd := exec.Command("git", "apply", "--whitespace=nowarn", patch)
	cmd.Dir = tmp
	cmd.Env = append(os.Environ(), "GIT_CEILING_DIRECTORIES="+filepath.Dir(tmp), "GIT_DIR=/nonexistent")
	if out, err := cmd.CombinedOutput(); err != nil {
		return nil, fmt.Errorf("patch does not apply: %s", strings.TrimSpace(string(out)))
	}
	files := map[string]string{}
	for _, r := range rel {
		nb, err := os.ReadFile(filepath.Join(tmp, r))
		if err != nil {
			return nil, err
		}
		files[filepath.Join(repo, r)] = string(nb)
	}
	return files, nil
}

// refactorMutants: behaviour-preserving refactorings written independently (sub-agents, given only a property text) and
// confirmed here (they compile, the suite passes, the argument why they preserve behaviour was read): kept under
// <verif>/refactors/<id>/ and replayed at the thorough tier against every property; any finding is a false alarm.
func refactorMutants(verif, prop string) []mutant {
	var out []mutant
	patches, _ := filepath.Glob(filepath.Join(verif, "refactors", "*", "patch.diff"))
	sort.Strings(patches)
	for _, p := range patches {
		id := filepath.Base(filepath.Dir(p))
		if only := os.Getenv("VARMQLINT_ONLY"); only != "" && !strings.Contains("refactor/"+id, only) {
			continue
		}
		why := "independently written behaviour-preserving refactoring"
		if b, err := os.ReadFile(filepath.Join(filepath.Dir(p), "meta.json")); err == nil {
			var meta struct {
				Summary string `json:"summary"`
			}
			if json.Unmarshal(b, &meta) == nil && meta.Summary != "" {
				why = meta.Summary
				if len(why) > 160 {
					why = why[:160]
				}
			}
		}
		out = append(out, mutant{ID: "refactor/" + id, Prop: prop, Benign: true, Patch: p, Why: why})
	}
	return out
}
