package main

func runSelfTest(c *Ctx, def *propDef, repo, verif string) (bool, any) { return true, nil }
