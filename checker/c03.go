package main

import (
	"fmt"
	"go/ast"
	"go/token"
	"go/types"
	"sort"
	"strings"
)

func init() {
	register(&propDef{
		ID: "C03",
		Info: propInfo{
			Technique:   "path analysis + lockset/lock-order analysis + lifecycle table on the type-checked AST",
			Explanation: "Decides structural necessary conditions of progress: (R03.1) a notify follows every enabling state change: a successful Enqueue in every submit function bound to a worker, the in-flight decrement in the completion callback, every store of Running (Resume, start, Restart), a limit store in TunePool unless a comparison showed the limit did not grow, the 'enqueued' case of the subscription handler, and Purge; (R03.2) every send on the signal and error channels is a select case with a default, under the worker lock; they are closed and re-assigned only under the write lock, closed behind a nil test and followed by a nil assignment; nobody else sends on them; (R03.3) the lock-order graph is acyclic, no lock is re-acquired while held, and no blocking operation (plain channel send/receive, WaitGroup.Wait, Sleep) is performed while a lock is held, Cond.Wait only under exactly its own lock; (R03.4) the dispatcher calls the step only inside a loop whose condition tests running, capacity and pending>0 in the same iteration, and a step error neither returns nor breaks out; (R03.5) every path of the completion callback either pushes the node back or stops and recycles it, exactly one of the two, before the in-flight decrement; plus the pool-node ownership typestate (R01.4), since a job sent to a node nobody serves is stuck in Processing.",
			NotDecided:  []string{"sufficiency of the wake-up protocol as a whole (that the one-slot coalescing signal cannot be consumed before the state it announces is visible)", "worker functions that never return", "fairness of the Go scheduler"},
			Assumptions: []string{"sync.Cond, channels and RWMutex behave as documented", "lock identity is per (type, field)"},
		},
		Run: runC03,
	})
}

func runC03(c *Ctx) {
	c.ruleNotifyAfterChange("R03.1")
	c.ruleProtectedSends("R03.2")
	c.ruleLockOrder("R03.3")
	c.ruleDispatcherLoop("R03.4")
	c.ruleNodeKeptOrRetired("R03.5")
	c.Rep.rule("R01.4", "typestate", "Send/Stop/PushNode/Cache.Put on a pool node require ownership (a job sent to a node nobody serves never finishes)", 6)
	c.runOwnership("R01.4")
}

func (c *Ctx) ruleNotifyAfterChange(rule string) {
	R := c.R
	c.Rep.rule(rule, "E2 path + E3", "notify follows every enabling state change (enqueue, completion, Running stored, limit raised, 'enqueued' announcement, purge, a queue bound to a running worker)", 20)
	// (a) submit functions bound to a worker
	for _, f := range c.submitFuncs() {
		if !c.hasWorker(f) {
			continue
		}
		for _, sg := range c.submitSegments(f) {
			if !sg.has("enqok=true") {
				continue
			}
			c.Rep.check(sg.followedBy("enq", "notify"), rule, f.Short(), "accepted enqueue not followed by notify", sg.End,
				"notify after the successful Enqueue", "a successful Enqueue is not followed by a notify of the dispatcher: the job can stay pending until some other event ["+strings.Join(sg.Syms, " ")+"]")
		}
	}
	// (b) completion callback
	if R.Completion != nil {
		v := c.vocab([]string{"inflight-", "notify"}, nil)
		for _, sg := range v.seq(rule, false).segments(R.Completion) {
			c.Rep.check(sg.has("inflight-") && sg.followedBy("inflight-", "notify"), rule, R.Completion.Short(), "completion not followed by notify", sg.End,
				"notify after the in-flight decrement", "the completion callback does not notify the dispatcher after freeing its slot: pending jobs are not picked up ["+strings.Join(sg.Syms, " ")+"]")
		}
	}
	// (b') a queue registered on a worker that is already Running (a second bind) may hold items: the bind notifies
	ws0 := c.workerStatus()
	for _, f := range c.bindMethods() {
		v := c.vocab([]string{"register", "notify", "wstatus:"}, nil)
		v.also = map[string]bool{"wstatus?": true}
		sr := v.seq(rule, false)
		sr.trackField = R.FStatus
		sr.init = kv("").set("T", ws0.ByName["Running"])
		for _, sg := range sr.segments(f) {
			if sg.Kind != "path" || !sg.has("register") {
				continue
			}
			c.Rep.check(sg.followedBy("register", "notify"), rule, f.Short(), "queue bound to a running worker without a notify", sg.End, "register … notify (worker Running)",
				f.Short()+" registers a queue on a worker that is already running and does not wake the dispatcher: items the queue already holds (a persistent or distributed store) stay pending until an unrelated event ["+strings.Join(sg.Syms, " ")+"]")
		}
	}
	// (c) every lifecycle outcome that stores Running notifies afterwards
	t := c.lifecycle()
	for _, m := range t.Methods {
		for _, s := range t.States {
			for _, o := range t.cell(m, s) {
				last := -1
				for i, e := range o.Effects {
					if e == "wstatus:Running" {
						last = i
					}
				}
				if last < 0 {
					continue
				}
				ok := false
				for _, e := range o.Effects[last+1:] {
					if e == "notify" {
						ok = true
					}
				}
				c.Rep.check(ok, rule, m, "Running stored without a following notify (from "+s+")", o.End,
					fmt.Sprintf("%s from %s: notify after Running is stored", m, s), fmt.Sprintf("%s from %s stores Running but does not notify the dispatcher afterwards: jobs that were pending stay pending (%s)", m, s, o))
			}
		}
	}
	// (d) TunePool: limit raised => notify
	if tp := c.methodOf(R.WorkerT, "TunePool"); tp != nil {
		c.tunePoolNotifies(rule, tp)
	}
	// (e) subscription handler
	for _, h := range c.subscriptionHandlers() {
		c.handlerSegments(rule, h, true)
	}
	// (f) Purge notifies (the dispatcher then re-evaluates the barrier release)
	if purge := c.P.FuncByKey("externalBaseQueue.Purge"); purge != nil {
		v := c.vocab([]string{"qpurge", "notify"}, nil)
		for _, sg := range v.seq(rule, false).segments(purge) {
			if sg.Kind != "path" {
				continue
			}
			c.Rep.check(sg.has("qpurge") && sg.followedBy("qpurge", "notify"), rule, purge.Short(), "Purge not followed by notify", sg.End,
				"notify after the queue was purged", "Purge empties the queue without notifying the dispatcher: barrier waiters that counted the purged jobs are never re-evaluated ["+strings.Join(sg.Syms, " ")+"]")
		}
	} else {
		c.Rep.undecided(rule, "externalBaseQueue.Purge", "missing", "", "Purge of the external queue not found")
	}
}

// tunePoolNotifies: on every path that stores the limit, a notify follows
// unless a comparison on that path established new <= old.
func (c *Ctx) tunePoolNotifies(rule string, tp *Func) {
	R := c.R
	info := tp.Info()
	// old := limit.Load(); new := the variable stored
	var oldVar, newVar types.Object
	ast.Inspect(tp.Body, func(n ast.Node) bool {
		switch x := n.(type) {
		case *ast.AssignStmt:
			if len(x.Rhs) == len(x.Lhs) {
				for i := range x.Rhs {
					if call, ok := ast.Unparen(x.Rhs[i]).(*ast.CallExpr); ok {
						if fk, m := atomicOp(info, call); fk == R.FLimit && m == "Load" {
							if id, ok := x.Lhs[i].(*ast.Ident); ok {
								oldVar = info.ObjectOf(id)
							}
						}
					}
				}
			}
		case *ast.CallExpr:
			if fk, m := atomicOp(info, x); fk == R.FLimit && m == "Store" && len(x.Args) == 1 {
				newVar = rootIdent(info, x.Args[0])
			}
		}
		return true
	})
	v := c.vocab([]string{"limit=", "notify"}, nil)
	sr := v.seq(rule, false)
	sr.trackField = R.FStatus
	sr.init = kv("").set("T", c.workerStatus().ByName["Running"])
	sr.condExpr = func(fr *Frame, e ast.Expr, branch bool, ip *Interp, st *State) string {
		be, op := binOp(e)
		if be == nil || fr.Caller != nil || oldVar == nil || newVar == nil {
			return ""
		}
		l, r := rootIdent(info, be.X), rootIdent(info, be.Y)
		if l == oldVar && r == newVar {
			// old <op> new  ==>  mirror to new <op'> old
			switch op {
			case token.LSS:
				op = token.GTR
			case token.GTR:
				op = token.LSS
			case token.LEQ:
				op = token.GEQ
			case token.GEQ:
				op = token.LEQ
			}
			l, r = r, l
		}
		if l != newVar || r != oldVar {
			return ""
		}
		// new <op> old
		notGrown := false
		switch {
		case op == token.GTR && !branch, op == token.LEQ && branch, op == token.LSS && branch, op == token.EQL && branch:
			notGrown = true
		}
		if notGrown {
			return "grow=false"
		}
		return ""
	}
	n := 0
	for _, sg := range sr.segments(tp) {
		if !sg.has("limit=") || sg.Kind != "path" {
			continue
		}
		n++
		ok := sg.followedBy("limit=", "notify") || sg.has("grow=false")
		c.Rep.check(ok, rule, tp.Short(), "limit raised without notify", sg.End, "limit store is followed by notify, or the path established that the limit did not grow",
			"TunePool stores a new limit and returns without notifying the dispatcher on a path where the limit may have grown: the extra capacity is not used until another event ["+strings.Join(sg.Syms, " ")+"]")
	}
	if n == 0 {
		c.Rep.undecided(rule, tp.Short(), "no path stores the limit", c.P.pos(tp.Body), "TunePool never stores the limit")
	}
}

// subscriptionHandlers: functions passed to ISubscribable.Subscribe.
func (c *Ctx) subscriptionHandlers() []*Func {
	var out []*Func
	for _, cs := range c.P.allCalls(false) {
		if cs.Callee.Key != kSubscribe || len(cs.Call.Args) != 1 {
			continue
		}
		info := cs.In.Info()
		switch x := ast.Unparen(cs.Call.Args[0]).(type) {
		case *ast.FuncLit:
			out = appendUnique(out, c.P.byLit[x])
		case *ast.SelectorExpr:
			if sel, ok := info.Selections[x]; ok {
				if fn, ok := sel.Obj().(*types.Func); ok {
					if f := c.P.byObj[funcKey(fn)]; f != nil {
						out = appendUnique(out, f)
					}
				}
			}
		case *ast.Ident:
			if fn, ok := info.Uses[x].(*types.Func); ok {
				if f := c.P.byObj[funcKey(fn)]; f != nil {
					out = appendUnique(out, f)
				}
			}
		}
	}
	return out
}

// handlerSegments checks the subscription handler with its action parameter
// bound to "enqueued" (one Submitted, then notify) and to another action
// (no metric, which is R13.2/R17.2).
func (c *Ctx) handlerSegments(rule string, h *Func, wantNotify bool) {
	v := c.vocab([]string{"Submitted", "notify", "Completed", "Successful", "Failed"}, nil)
	sr := v.seq(rule, false)
	sr.args = []Value{{Kind: VConst, S: `"enqueued"`}}
	for _, sg := range sr.segments(h) {
		if wantNotify {
			c.Rep.check(sg.has("notify"), rule, h.Short(), "'enqueued' announcement without notify", sg.End, "notify on 'enqueued'",
				"the subscription handler does not notify the dispatcher on an 'enqueued' announcement ["+strings.Join(sg.Syms, " ")+"]")
		} else {
			c.Rep.check(sg.count("Submitted") == 1 && sg.count("Completed")+sg.count("Successful")+sg.count("Failed") == 0, rule, h.Short(), "'enqueued' announcement not counted exactly once", sg.End,
				"one Submitted per 'enqueued' announcement", "the subscription handler must count exactly one submission per 'enqueued' announcement ["+strings.Join(sg.Syms, " ")+"]")
		}
	}
	if !wantNotify {
		sr2 := v.seq(rule, false)
		sr2.args = []Value{{Kind: VConst, S: `"some-other-action"`}}
		for _, sg := range sr2.segments(h) {
			c.Rep.check(sg.count("Submitted")+sg.count("Completed")+sg.count("Successful")+sg.count("Failed") == 0, rule, h.Short(), "metrics changed by an action other than 'enqueued'", sg.End,
				"no metric on other actions", "the subscription handler changes metrics for an action other than 'enqueued' ["+strings.Join(sg.Syms, " ")+"]")
		}
	}
}

func (c *Ctx) ruleProtectedSends(rule string) {
	R := c.R
	c.Rep.rule(rule, "E1+E4", "signal/error channel: sends are select-with-default cases under the worker lock; close and re-assignment only under the write lock, close behind a nil test and followed by nil; nobody else touches them", 6)
	lf := c.lockFacts()
	for k := range lf.Reached {
		c.Rep.Analysed[k] = true
	}
	chName := map[string]string{R.FSignal: "signal", R.FErr: "error"}
	for _, o := range lf.Ops {
		switch o.Op {
		case "send(signal)", "send(err)":
			_, held := o.Locks[R.FMx]
			good := o.Extra == "true" && held
			c.Rep.check(good, rule, o.Fn.Short(), "unprotected or blocking "+o.Op, c.P.posOf(o.Pos),
				"select case with default, under "+shortKey(R.FMx), fmt.Sprintf("%s must be a select case with a default clause, executed while %s is held (a send on a closed or nil-ed channel panics or blocks for ever); here: select-with-default=%s, locks %s (via %s)", o.Op, shortKey(R.FMx), o.Extra, locksString(o.Locks), o.Chain))
			want := R.Notify
			if o.Op == "send(err)" {
				want = R.SendErr
			}
			c.Rep.check(o.Fn == want, rule, o.Fn.Short(), o.Op+" outside its one sender", c.P.posOf(o.Pos), "sent by the designated function", o.Op+" is performed in "+o.Fn.Short()+"; only one function may send on that channel")
		case "close":
			if n, ok := chName[o.Extra]; ok {
				c.Rep.check(o.Locks[R.FMx] == "W", rule, o.Fn.Short(), "close("+n+" channel) without the write lock", c.P.posOf(o.Pos),
					"closed under the write lock", fmt.Sprintf("the %s channel is closed while %s is not held in write mode (locks %s, via %s): a concurrent non-blocking send panics", n, shortKey(R.FMx), locksString(o.Locks), o.Chain))
			}
		}
	}
	for _, a := range lf.Accesses {
		if !a.Write || a.Private {
			continue
		}
		if n, ok := chName[a.Field]; ok {
			c.Rep.check(a.Locks[R.FMx] == "W", rule, a.Fn.Short(), "assignment to the "+n+" channel without the write lock", c.P.posOf(a.Pos),
				"assigned under the write lock", fmt.Sprintf("the %s channel field is assigned while %s is not held in write mode (locks %s, via %s)", n, shortKey(R.FMx), locksString(a.Locks), a.Chain))
		}
	}
	// close-once idiom in the closing function
	if R.CloseChans != nil {
		v := c.vocab([]string{"close(signal)", "close(err)", "nil(signal)", "nil(err)"}, nil)
		sr := v.seq(rule, false)
		sr.condExpr = func(fr *Frame, e ast.Expr, branch bool, ip *Interp, st *State) string {
			be, op := binOp(e)
			if be == nil || (op != token.NEQ && op != token.EQL) {
				return ""
			}
			x, y := be.X, be.Y
			if isNilExpr(fr.Fn.Info(), x) {
				x, y = y, x
			}
			if !isNilExpr(fr.Fn.Info(), y) {
				return ""
			}
			nonNil := (op == token.NEQ) == branch
			switch selField(fr.Fn.Info(), x) {
			case R.FSignal:
				return fmt.Sprintf("signal-nonnil=%v", nonNil)
			case R.FErr:
				return fmt.Sprintf("err-nonnil=%v", nonNil)
			}
			return ""
		}
		for _, sg := range sr.segments(R.CloseChans) {
			for _, ch := range []string{"signal", "err"} {
				if !sg.has("close(" + ch + ")") {
					continue
				}
				good := sg.before(ch+"-nonnil=true", "close("+ch+")") && sg.followedBy("close("+ch+")", "nil("+ch+")") && sg.count("close("+ch+")") == 1
				c.Rep.check(good, rule, R.CloseChans.Short(), "close("+ch+") not in the close-once idiom", sg.End, "nil test, close, nil assignment",
					"close of the "+ch+" channel must be guarded by a nil test and followed by a nil assignment (second Stop would close a closed channel) ["+strings.Join(sg.Syms, " ")+"]")
			}
		}
	}
}

func (c *Ctx) ruleLockOrder(rule string) {
	c.Rep.rule(rule, "E4", "lock-order graph acyclic; no re-acquisition; no blocking operation under a lock (Cond.Wait only under exactly its own lock)", 3)
	lf := c.lockFacts()
	adj := map[string]map[string]LockEdge{}
	for _, e := range lf.Edges {
		if adj[e.From] == nil {
			adj[e.From] = map[string]LockEdge{}
		}
		if _, ok := adj[e.From][e.To]; !ok {
			adj[e.From][e.To] = e
		}
	}
	var nodes []string
	for n := range adj {
		nodes = append(nodes, n)
	}
	sort.Strings(nodes)
	// cycle detection (DFS)
	color := map[string]int{}
	var stack []string
	var cycle []string
	var dfs func(n string) bool
	dfs = func(n string) bool {
		color[n] = 1
		stack = append(stack, n)
		var tos []string
		for t := range adj[n] {
			tos = append(tos, t)
		}
		sort.Strings(tos)
		for _, t := range tos {
			if color[t] == 1 {
				for i, s := range stack {
					if s == t {
						cycle = append(append([]string(nil), stack[i:]...), t)
					}
				}
				return true
			}
			if color[t] == 0 && dfs(t) {
				return true
			}
		}
		stack = stack[:len(stack)-1]
		color[n] = 2
		return false
	}
	found := false
	for _, n := range nodes {
		if color[n] == 0 && dfs(n) {
			found = true
			break
		}
	}
	nedges := 0
	for _, m := range adj {
		nedges += len(m)
	}
	if found {
		var parts []string
		for _, n := range cycle {
			parts = append(parts, shortKey(n))
		}
		e := adj[cycle[0]][cycle[1]]
		c.Rep.fail(rule, "-", "lock-order cycle "+strings.Join(parts, " → "), c.P.posOf(e.Pos), "locks are acquired in a cyclic order ("+strings.Join(parts, " → ")+"): two goroutines can deadlock; one edge: "+e.Chain)
	} else {
		var es []string
		for _, n := range nodes {
			for t := range adj[n] {
				es = append(es, shortKey(n)+"→"+shortKey(t))
			}
		}
		sort.Strings(es)
		c.Rep.ok(rule, fmt.Sprintf("lock-order graph acyclic (%d locks, %d edges: %s)", len(nodes), nedges, strings.Join(es, ", ")), "", "DFS found no cycle", true)
	}
	nops := 0
	for _, o := range lf.Ops {
		held := len(o.Locks) > 0
		switch {
		case o.Op == "relock":
			c.Rep.fail(rule, o.Fn.Short(), "lock re-acquired while held: "+shortKey(o.Extra), c.P.posOf(o.Pos), fmt.Sprintf("%s is acquired while it is already held (via %s): self-deadlock (also for read locks once a writer waits)", shortKey(o.Extra), o.Chain))
		case strings.HasPrefix(o.Op, "block:"), (o.Op == "send(chan)" || o.Op == "recv") && o.Extra == "false":
			nops++
			c.Rep.check(!held, rule, o.Fn.Short(), "blocking "+o.Op+" under a lock", c.P.posOf(o.Pos), "no lock held at this blocking operation",
				fmt.Sprintf("a blocking operation (%s) is performed while %s is held (via %s)", o.Op, locksString(o.Locks), o.Chain))
		case o.Op == "condwait":
			nops++
			own := c.condLock(o.Extra)
			_, hasOwn := o.Locks[own]
			c.Rep.check(hasOwn && len(o.Locks) == 1, rule, o.Fn.Short(), "Cond.Wait not under exactly its own lock", c.P.posOf(o.Pos), "Cond.Wait under exactly its own lock",
				fmt.Sprintf("Cond.Wait must be called with exactly the Cond's own lock (%s) held; here %s (via %s)", shortKey(own), locksString(o.Locks), o.Chain))
		}
	}
	if nops == 0 {
		c.Rep.undecided(rule, "-", "no blocking operation found", "", "the walker found no blocking operation at all: the fact layer is broken")
	}
}

// condLock: the mutex field passed to sync.NewCond when the Cond field is initialised.
func (c *Ctx) condLock(condField string) string {
	for _, f := range c.P.Funcs {
		if f.Body == nil {
			continue
		}
		res := ""
		ast.Inspect(f.Body, func(n ast.Node) bool {
			as, ok := n.(*ast.AssignStmt)
			if !ok || len(as.Lhs) != 1 || len(as.Rhs) != 1 || selField(f.Info(), as.Lhs[0]) != condField {
				return true
			}
			if call, ok := ast.Unparen(as.Rhs[0]).(*ast.CallExpr); ok && resolveCallee(f.Info(), call).Key == "sync.NewCond" && len(call.Args) == 1 {
				if u, ok := ast.Unparen(call.Args[0]).(*ast.UnaryExpr); ok {
					res = selField(f.Info(), u.X)
				}
			}
			return true
		})
		if res != "" {
			return res
		}
	}
	return ""
}

func (c *Ctx) ruleDispatcherLoop(rule string) {
	R := c.R
	c.Rep.rule(rule, "E2 path", "the step runs only in a loop whose condition tests running, capacity and pending>0 in the same iteration; a step error neither returns nor breaks out of the loop", 2)
	if R.DispLoop == nil || R.Step == nil {
		return
	}
	isRunning := c.methodOf(R.WorkerT, "IsRunning")
	v := c.vocab([]string{"step", "senderr", "cap=", "running=", "pending="}, map[string]bool{"step": true})
	sr := v.seq(rule, false)
	base := sr.classify
	var runningKeys map[string]bool
	if isRunning != nil {
		runningKeys = c.P.roleKeys(isRunning)
	}
	sr.classify = func(fr *Frame, call *ast.CallExpr, ce *Callee, args []Value) *callEvent {
		if runningKeys[ce.Key] {
			return &callEvent{Atomic: true, Results: tok("running")}
		}
		if ce.Key == kMgrLen {
			// the pending count is recognised at its call (condExpr); its loop over the queues is of no interest here
			return &callEvent{Atomic: true}
		}
		return base(fr, call, ce, args)
	}
	sr.condSym = func(fr *Frame, token, rel string) string {
		if token == "running" {
			return "running=" + rel
		}
		return ""
	}
	// the loop condition (or its parts) may sit in a helper predicate (canDispatch(), hasFreeSlot()): inline whatever
	// the goroutine calls; the step itself stays one atomic event
	sr.relevant = func(f *Func) bool { return f != R.Step }
	sr.condExpr = func(fr *Frame, e ast.Expr, branch bool, ip *Interp, st *State) string {
		if s := c.capSym(fr, e, branch); s != "" {
			return s
		}
		// pending: Manager.Len() > 0  (or != 0, or 0 < Len())
		be, op := binOp(e)
		if be == nil {
			return ""
		}
		x, y := be.X, be.Y
		if call, ok := ast.Unparen(y).(*ast.CallExpr); ok && resolveCallee(fr.Fn.Info(), call).Key == kMgrLen {
			x, y = y, x
			switch op {
			case token.LSS:
				op = token.GTR
			case token.GTR:
				op = token.LSS
			}
		}
		call, ok := ast.Unparen(x).(*ast.CallExpr)
		if !ok || resolveCallee(fr.Fn.Info(), call).Key != kMgrLen {
			return ""
		}
		if tv := fr.Fn.Info().Types[y]; tv.Value == nil || tv.Value.ExactString() != "0" {
			return ""
		}
		pos := (op == token.GTR || op == token.NEQ) == branch
		if op != token.GTR && op != token.NEQ && op != token.EQL && op != token.LEQ {
			return ""
		}
		if op == token.EQL || op == token.LEQ {
			pos = !branch
		}
		return fmt.Sprintf("pending=%v", pos)
	}
	n := 0
	for _, sg := range sr.segments(R.DispLoop) {
		if !sg.has("step") {
			continue
		}
		n++
		desc := "[" + strings.Join(sg.Syms, " ") + "] ends:" + sg.How
		guard := sg.Kind == "iter" && sg.before("running=true", "step") && sg.before("cap=true", "step") && sg.before("pending=true", "step")
		c.Rep.check(guard, rule, R.DispLoop.Short(), "step not guarded by running ∧ capacity ∧ pending", sg.End, "step behind running, capacity and pending tests of the same iteration",
			"the dispatcher step is reached without the tests running, inflight<limit and pending>0 all having been evaluated true in the same loop iteration: "+desc)
		c.Rep.check(sg.How == "next", rule, R.DispLoop.Short(), "dispatcher leaves the loop after a step", sg.End, "after a step the loop condition is re-evaluated",
			"after a step the dispatcher returns or breaks out instead of re-evaluating its loop condition: one bad entry or failed dequeue would stop the processing of the jobs behind it: "+desc)
	}
	if n == 0 {
		c.Rep.undecided(rule, R.DispLoop.Short(), "no step found", "", "no call of the dispatcher step in the dispatcher goroutine")
	}
	// the goroutine consumes its signal channel at exactly one place, once per pass, and ends when the channel is
	// closed: either its outer loop ranges over the channel, or a bare outer loop starts each pass with a comma-ok
	// receive and leaves (does not go round again) when the channel is found closed. The signal is a one-slot coalescing
	// wake-up: any other receive (e.g. "drop the stale wake-up" after a pass) can swallow a notify that arrived after
	// the last look at the queue.
	dinfo := R.DispLoop.Info()
	isChanExpr := func(e ast.Expr) bool {
		_, isChan := dinfo.TypeOf(e).Underlying().(*types.Chan)
		return isChan
	}
	var ranges []*ast.RangeStmt
	var recvs []*ast.UnaryExpr
	commaOK := map[*ast.UnaryExpr]bool{}
	ast.Inspect(R.DispLoop.Body, func(x ast.Node) bool {
		switch n := x.(type) {
		case *ast.RangeStmt:
			if isChanExpr(n.X) {
				ranges = append(ranges, n)
			}
		case *ast.UnaryExpr:
			if n.Op == token.ARROW && isChanExpr(n.X) {
				recvs = append(recvs, n)
			}
		case *ast.AssignStmt:
			if len(n.Lhs) == 2 && len(n.Rhs) == 1 {
				if u, ok := ast.Unparen(n.Rhs[0]).(*ast.UnaryExpr); ok && u.Op == token.ARROW {
					if id, ok := n.Lhs[1].(*ast.Ident); !ok || id.Name != "_" {
						commaOK[u] = true
					}
				}
			}
		}
		return true
	})
	switch {
	case len(ranges) == 1 && len(recvs) == 0:
		c.Rep.ok(rule, R.DispLoop.Short()+": the outer loop ranges over the signal channel, which is consumed nowhere else", c.P.pos(ranges[0]), "one range over the signal channel, no other receive", true)
	case len(ranges) == 0 && len(recvs) == 1:
		u := recvs[0]
		c.Rep.check(commaOK[u], rule, R.DispLoop.Short(), "dispatcher does not range over its signal channel", c.P.pos(u), "receive in comma-ok form",
			"the dispatcher goroutine receives from its signal channel without looking at the second result: it cannot tell a closed channel from a wake-up and never ends (Stop waits for it for ever, or it spins)")
		if commaOK[u] {
			sq := &seqRule{c: c, rule: rule}
			sq.exprVal = func(fr *Frame, e ast.Expr) (Value, bool) {
				if ast.Unparen(e) == ast.Expr(u) {
					return Value{Kind: VTok, S: "sig"}, true
				}
				return Value{}, false
			}
			sq.classify = func(fr *Frame, call *ast.CallExpr, ce *Callee, args []Value) *callEvent {
				if f := c.P.byObj[ce.Key]; f != nil && (f == R.Step || c.reachesSync(f, R.Step.Key)) {
					return &callEvent{Name: "pass", Atomic: true}
				}
				if ce.Builtin != "" || ce.Conv {
					return nil
				}
				return &callEvent{Atomic: true}
			}
			sq.condSym = func(fr *Frame, token, rel string) string {
				if token == "sigok" {
					return "open=" + rel
				}
				return ""
			}
			leaves, again, unguarded := false, "", ""
			for _, sg := range sq.segments(R.DispLoop) {
				if sg.has("open=false") {
					if sg.How == "next" {
						again = sg.End
					} else {
						leaves = true
					}
				}
				if sg.has("pass") && !sg.before("open=true", "pass") && sg.Kind == "iter" {
					unguarded = sg.End
				}
			}
			c.Rep.check(leaves && again == "", rule, R.DispLoop.Short(), "dispatcher does not range over its signal channel", c.P.pos(u), "closed channel ⇒ the goroutine leaves its loop",
				"the dispatcher goroutine does not leave its loop when its signal channel is found closed (it goes round again at "+again+"): after Stop it spins or never ends")
			c.Rep.check(unguarded == "", rule, R.DispLoop.Short(), "dispatcher does not range over its signal channel", c.P.pos(u), "each pass follows one successful receive",
				"a pass of the dispatcher (ending at "+unguarded+") runs without a wake-up having been received in that iteration")
		}
	default:
		if len(ranges) == 0 {
			c.Rep.fail(rule, R.DispLoop.Short(), "dispatcher does not range over its signal channel", c.P.pos(R.DispLoop.Body), "the dispatcher goroutine must range over its signal channel (so that it ends when the channel is closed and wakes on every notify)")
		}
		for _, u := range recvs {
			c.Rep.fail(rule, R.DispLoop.Short(), "extra receive in the dispatcher goroutine", c.P.pos(u), "the dispatcher goroutine receives from a channel outside its range loop: a wake-up consumed there is lost (jobs stay pending with free capacity until some other event)")
		}
		for _, r := range ranges[min(1, len(ranges)):] {
			c.Rep.fail(rule, R.DispLoop.Short(), "extra receive in the dispatcher goroutine", c.P.pos(r), "the dispatcher goroutine ranges over a channel a second time: a wake-up consumed there is lost")
		}
	}
}

func (c *Ctx) ruleNodeKeptOrRetired(rule string) {
	R := c.R
	c.Rep.rule(rule, "E2 path", "every path of the completion callback either pushes its node back or stops and recycles it (exactly one), before the in-flight decrement", 2)
	if R.Completion == nil {
		return
	}
	v := c.vocab([]string{"push", "stop", "cacheput", "inflight-"}, nil)
	for _, sg := range v.seq(rule, false).segments(R.Completion) {
		kept := sg.count("push") == 1 && sg.count("stop") == 0 && sg.count("cacheput") == 0
		retired := sg.count("push") == 0 && sg.count("stop") == 1 && sg.count("cacheput") == 1 && sg.before("stop", "cacheput")
		order := sg.index("inflight-") >= 0 && (sg.index("push") >= 0 && sg.index("push") < sg.index("inflight-") || sg.index("stop") >= 0 && sg.index("stop") < sg.index("inflight-"))
		c.Rep.check((kept || retired) && order, rule, R.Completion.Short(), "node neither kept nor retired exactly once before the decrement", sg.End,
			"node pushed back, or stopped and recycled, before the in-flight decrement", "a path of the completion callback does not (exactly once) push its node back or stop+recycle it before freeing the slot: the pool goroutine leaks or the node is both idle and stopped ["+strings.Join(sg.Syms, " ")+"]")
	}
}
