package main

import (
	"fmt"
	"go/ast"
	"go/token"
	"go/types"
	"math"
	"strings"
)

func init() {
	register(&propDef{
		ID: "C04",
		Info: propInfo{
			Technique:   "table extraction of the heap comparator over all order types + who-may-call + path rules on the queue implementations",
			Explanation: "Decides the finite, structural part of the dispatch order: (R04.1) the heap comparator, evaluated on all order types of (priority_i, priority_j) x (index_i, index_j) including the int64 extremes, equals 'priority ascending, then insertion index ascending'; (R04.2) the heap's Push/Pop/Swap/Less are called by nobody but container/heap, the item slice is replaced only by an empty one, and Dequeue returns the value of the item heap.Pop returned; (R04.3) Enqueue reads the tie index from the insertion counter and increments the counter exactly once before heap.Push on every accepting path, and the counter is otherwise only reset together with emptying the heap; (R04.4) FIFO segments: Chunk.Push writes the slot then advances behind a correct full test, Chunk.Pop reads the slot before clearing/advancing behind a correct empty test and returns what it read; Queue.Enqueue links the new segment before switching to it and creates one only after a failed Push; Queue.Dequeue advances to the next segment only after a failed Pop and returns an item only after a successful one, with one count per item; (R04.5) one consumer (R01.1).",
			NotDecided:  []string{"that these pieces compose to FIFO / heap order for every queue length and priority multiset (run-time arithmetic over unbounded sizes)", "order among concurrent producers beyond mutual exclusion of Enqueue", "user-supplied adapters"},
			Assumptions: []string{"container/heap implements a binary heap correctly for a consistent Less", "int is 64 bit"},
		},
		Run: runC04,
	})
}

type pqRoles struct {
	pq, fifo         *types.Named
	pqEnq, pqDeq     *Func
	fifoEnq, fifoDeq *Func
	heapT            *types.Named
	less             *Func
	itemT            *types.Named
	fPrio, fIndex    string // field names in the item struct
	fCounter         string // field key of the insertion counter
	fItems           string // field key of the heap's item slice
	chunkT           *types.Named
	push, pop        *Func
	itemLit          *ast.CompositeLit // the item literal built by the priority Enqueue
	enqHelpers       map[*Func]bool    // unexported helpers only the priority Enqueue calls (analysed as part of it)
}

func (c *Ctx) pqRoles(rule string) *pqRoles {
	r := &pqRoles{}
	qp := c.P.ByPath[modPath+"/internal/queues"]
	if qp == nil {
		return r
	}
	for _, f := range c.P.pkgFuncs(qp.PkgPath) {
		if f.Obj == nil || f.Decl.Recv == nil {
			continue
		}
		recv := namedOf(f.Obj.Type().(*types.Signature).Recv().Type())
		if recv == nil {
			continue
		}
		sig := f.Obj.Type().(*types.Signature)
		switch f.Obj.Name() {
		case "Enqueue":
			if sig.Params().Len() == 2 {
				r.pq, r.pqEnq = recv.Origin(), f
			} else if sig.Params().Len() == 1 {
				r.fifo, r.fifoEnq = recv.Origin(), f
			}
		}
	}
	for _, f := range c.P.pkgFuncs(qp.PkgPath) {
		if f.Obj == nil || f.Decl.Recv == nil || f.Obj.Name() != "Dequeue" {
			continue
		}
		recv := namedOf(f.Obj.Type().(*types.Signature).Recv().Type())
		if recv == nil {
			continue
		}
		if recv.Origin() == r.pq {
			r.pqDeq = f
		}
		if recv.Origin() == r.fifo {
			r.fifoDeq = f
		}
	}
	if r.pqEnq != nil {
		info := r.pqEnq.Info()
		var prioParam types.Object
		if ps := r.pqEnq.Type.Params.List; len(ps) > 0 {
			last := ps[len(ps)-1]
			if len(last.Names) > 0 {
				prioParam = info.ObjectOf(last.Names[len(last.Names)-1])
			}
		}
		// Enqueue and the helpers of its package it calls; for a helper, which of its parameters receives the priority
		type scope struct {
			f    *Func
			prio types.Object
		}
		scopes := []scope{{r.pqEnq, prioParam}}
		for _, cs := range c.P.calls(r.pqEnq) {
			g := c.P.byObj[cs.Callee.Key]
			if g == nil || g.Pkg != r.pqEnq.Pkg || g.Body == nil || g == r.pqEnq {
				continue
			}
			var gp types.Object
			var names []*ast.Ident
			if g.Type.Params != nil {
				for _, fld := range g.Type.Params.List {
					names = append(names, fld.Names...)
				}
			}
			for i, a := range cs.Call.Args {
				if id, ok := ast.Unparen(a).(*ast.Ident); ok && prioParam != nil && info.ObjectOf(id) == prioParam && i < len(names) {
					gp = g.Info().ObjectOf(names[i])
				}
			}
			scopes = append(scopes, scope{g, gp})
			only := g.Obj != nil && !g.Obj.Exported()
			for _, other := range c.P.allCalls(false) {
				if other.Callee.Key == cs.Callee.Key && other.In != r.pqEnq {
					only = false
				}
			}
			if only {
				if r.enqHelpers == nil {
					r.enqHelpers = map[*Func]bool{}
				}
				r.enqHelpers[g] = true
			}
		}
		for _, sc := range scopes {
			finfo := sc.f.Info()
			ast.Inspect(sc.f.Body, func(n ast.Node) bool {
				switch x := n.(type) {
				case *ast.CallExpr:
					if resolveCallee(finfo, x).Key == "container/heap.Push" && len(x.Args) == 2 {
						if hn := namedOf(finfo.TypeOf(x.Args[0])); hn != nil {
							r.heapT = hn.Origin()
						}
					}
				case *ast.IncDecStmt:
					if fk := selField(finfo, x.X); fk != "" && strings.HasPrefix(fk, qualTypeName(r.pq)+".") {
						r.fCounter = fk
					}
				case *ast.AssignStmt:
					for _, l := range x.Lhs {
						if fk := selField(finfo, l); fk != "" && strings.HasPrefix(fk, qualTypeName(r.pq)+".") {
							if b, ok := finfo.TypeOf(l).Underlying().(*types.Basic); ok && b.Info()&types.IsInteger != 0 {
								r.fCounter = fk
							}
						}
					}
				case *ast.CompositeLit:
					n := namedOf(finfo.TypeOf(x))
					if n == nil {
						return true
					}
					for _, el := range x.Elts {
						kvx, ok := el.(*ast.KeyValueExpr)
						if !ok {
							continue
						}
						key, _ := kvx.Key.(*ast.Ident)
						if key == nil {
							continue
						}
						if id, ok := ast.Unparen(kvx.Value).(*ast.Ident); ok && sc.prio != nil && finfo.ObjectOf(id) == sc.prio {
							r.fPrio = key.Name
							r.itemT = n.Origin()
							r.itemLit = x
						}
					}
				}
				return true
			})
		}
	}
	if r.heapT != nil {
		for _, f := range c.P.pkgFuncs(qp.PkgPath) {
			if f.Obj != nil && f.Decl.Recv != nil && f.Obj.Name() == "Less" {
				if recv := namedOf(f.Obj.Type().(*types.Signature).Recv().Type()); recv != nil && recv.Origin() == r.heapT {
					r.less = f
				}
			}
		}
		if st, ok := r.heapT.Underlying().(*types.Struct); ok {
			for i := 0; i < st.NumFields(); i++ {
				if _, isSlice := st.Field(i).Type().Underlying().(*types.Slice); isSlice {
					r.fItems = qualTypeName(r.heapT) + "." + st.Field(i).Name()
				}
			}
		}
	}
	if r.fIndex == "" && r.itemT != nil {
		// the tie-break field: the other integer field of the item struct
		if st, ok := r.itemT.Underlying().(*types.Struct); ok {
			for i := 0; i < st.NumFields(); i++ {
				if b, ok := st.Field(i).Type().Underlying().(*types.Basic); ok && b.Info()&types.IsInteger != 0 && st.Field(i).Name() != r.fPrio {
					r.fIndex = st.Field(i).Name()
				}
			}
		}
	}
	r.push = c.P.byObj[modPath+"/internal/linkedbuffer.Chunk.Push"]
	r.pop = c.P.byObj[modPath+"/internal/linkedbuffer.Chunk.Pop"]
	for name, v := range map[string]any{"priority queue type": r.pq, "priority Enqueue": r.pqEnq, "priority Dequeue": r.pqDeq, "fifo Enqueue": r.fifoEnq, "fifo Dequeue": r.fifoDeq,
		"heap type": r.heapT, "heap Less": r.less, "item priority field": r.fPrio, "item index field": r.fIndex, "heap items": r.fItems, "Chunk.Push": r.push, "Chunk.Pop": r.pop} {
		missing := false
		switch x := v.(type) {
		case *types.Named:
			missing = x == nil
		case *Func:
			missing = x == nil
		case string:
			missing = x == ""
		}
		if missing {
			c.Rep.undecided(rule, "-", "UNRESOLVED role="+name, "", "cannot find the "+name+" of the in-memory queues")
		}
	}
	return r
}

func runC04(c *Ctx) {
	r := c.pqRoles("R04.0")
	if r.less != nil && r.fPrio != "" && r.fIndex != "" {
		c.ruleComparatorTable("R04.1", r)
	}
	c.ruleHeapDiscipline("R04.2", r)
	c.ruleTieIndex("R04.3", r)
	c.ruleFifoSegments("R04.4", r)
	c.ruleSingleConsumer("R04.5")
	c.ruleBatchOrder("R04.6")
	// one dispatcher at a time, also across a Restart: two dispatchers start jobs out of queue order
	c.ruleOneDispatcher("R04.7")
	c.ruleDispatcherJoined("R04.8")
	// a node is offered to the dispatcher (and its slot released) only when its job is over, Close included: a node
	// that is still inside Close() would park the next job in its buffer while a later job starts elsewhere
	c.ruleDecrementAfterClose("R04.9")
	// what was taken out of a queue is never put back: an Enqueue appends behind everything accepted meanwhile
	c.ruleNoRequeue("R04.10")
}

// ruleNoRequeue: the consuming side (the dispatcher goroutine, the completion callback, the pool goroutine) never
// enqueues. A job that was dequeued and is put back with Enqueue lands behind every job accepted after it (and a
// priority queue re-stamps its tie index): the dispatch order is no longer the acceptance order.
func (c *Ctx) ruleNoRequeue(rule string) {
	R := c.R
	c.Rep.rule(rule, "E1 who-may-call", "no Enqueue on a bound queue is reachable from the dispatcher goroutine or the completion callback", 2)
	for name, f := range map[string]*Func{"dispatcher goroutine": R.DispLoop, "completion callback": R.Completion} {
		if f == nil {
			c.Rep.undecided(rule, "-", name, "", name+" not resolved")
			continue
		}
		hit := ""
		for _, k := range []string{kEnqueueQ, kEnqueuePQ} {
			if c.reachesSync(f, k) {
				hit = shortKey(k)
			}
		}
		c.Rep.check(hit == "", rule, f.Short(), name+" re-enqueues", c.P.pos(f.Body), name+" never reaches Enqueue",
			"the "+name+" can reach "+hit+": a job that was already taken out of its queue is appended again behind the jobs accepted meanwhile, so jobs are started out of their queue order")
	}
}

func (c *Ctx) ruleComparatorTable(rule string, r *pqRoles) {
	c.Rep.rule(rule, "E7 table", "heap Less(i,j) over all order types of (priority_i,priority_j) x (index_i,index_j), int64 extremes included, equals: priority ascending, then index ascending", 25)
	f := r.less
	info := f.Info()
	// parameters i, j
	var pi, pj types.Object
	if ps := f.Type.Params.List; len(ps) > 0 {
		var names []*ast.Ident
		for _, fld := range ps {
			names = append(names, fld.Names...)
		}
		if len(names) == 2 {
			pi, pj = info.ObjectOf(names[0]), info.ObjectOf(names[1])
		}
	}
	if pi == nil {
		c.Rep.undecided(rule, f.Short(), "parameters", c.P.pos(f.Body), "Less does not have two named parameters")
		return
	}
	pairs := [][2]int64{{0, 1}, {1, 1}, {1, 0}, {math.MinInt64, math.MaxInt64}, {math.MaxInt64, math.MinInt64}}
	for _, pp := range pairs {
		for _, ii := range pairs {
			vals := map[string]int64{"Pi": pp[0], "Pj": pp[1], "Ii": ii[0], "Ij": ii[1]}
			te := &tableEval{c: c}
			te.field = func(base tval, name string) (tval, bool) {
				if !strings.HasPrefix(base.Obj, "item:") {
					return tval{}, false
				}
				which := base.Obj[len("item:"):]
				switch name {
				case r.fPrio:
					return tval{I: vals["P"+which]}, true
				case r.fIndex:
					return tval{I: vals["I"+which]}, true
				}
				return tval{}, false
			}
			te.leaf = func(g *Func, e ast.Expr) (tval, bool) {
				// <heap>.items[<i|j>]  (the item itself, e.g. bound to a local)
				if ix, ok := e.(*ast.IndexExpr); ok && selField(g.Info(), ix.X) == r.fItems {
					if id, ok := ast.Unparen(ix.Index).(*ast.Ident); ok {
						switch g.Info().ObjectOf(id) {
						case pi:
							return tval{Obj: "item:i"}, true
						case pj:
							return tval{Obj: "item:j"}, true
						}
					}
				}
				// <heap>.items[<i|j>].<Priority|Index>
				sel, ok := e.(*ast.SelectorExpr)
				if !ok {
					return tval{}, false
				}
				ix, ok := ast.Unparen(sel.X).(*ast.IndexExpr)
				if !ok {
					return tval{}, false
				}
				id, ok := ast.Unparen(ix.Index).(*ast.Ident)
				if !ok {
					return tval{}, false
				}
				which := ""
				switch g.Info().ObjectOf(id) {
				case pi:
					which = "i"
				case pj:
					which = "j"
				default:
					return tval{}, false
				}
				switch sel.Sel.Name {
				case r.fPrio:
					return tval{I: vals["P"+which]}, true
				case r.fIndex:
					return tval{I: vals["I"+which]}, true
				}
				return tval{}, false
			}
			res, ok := te.call(f, []tval{{I: 0}, {I: 1}})
			inst := fmt.Sprintf("Less with priority %d vs %d, index %d vs %d", pp[0], pp[1], ii[0], ii[1])
			if !ok || len(res) != 1 || !res[0].IsBool {
				c.Rep.undecided(rule, f.Short(), inst, c.P.pos(f.Body), "comparator not evaluable: "+te.why)
				return
			}
			want := pp[0] < pp[1] || (pp[0] == pp[1] && ii[0] < ii[1])
			c.Rep.check(res[0].B == want, rule, f.Short(), inst, c.P.pos(f.Body), fmt.Sprintf("%s = %v", inst, want),
				fmt.Sprintf("%s returns %v, the dispatch order requires %v (smaller priority first, equal priorities in insertion order)", inst, res[0].B, want))
		}
	}
}

func (c *Ctx) ruleHeapDiscipline(rule string, r *pqRoles) {
	c.Rep.rule(rule, "E1", "heap methods called only by container/heap; items replaced only by an empty slice; Dequeue returns the value of the popped item", 3)
	if r.heapT == nil {
		return
	}
	heapKeys := map[string]bool{}
	for _, m := range []string{"Push", "Pop", "Swap", "Less"} {
		heapKeys[qualTypeName(r.heapT)+"."+m] = true
	}
	n := 0
	for _, cs := range c.P.allCalls(false) {
		if heapKeys[cs.Callee.Key] {
			n++
			c.Rep.fail(rule, cs.In.Short(), "direct call of "+shortKey(cs.Callee.Key), c.P.pos(cs.Call), "the heap's "+shortKey(cs.Callee.Key)+" is called directly; only container/heap may call it (a direct Push/Pop breaks the heap invariant)")
		}
	}
	if n == 0 {
		c.Rep.ok(rule, "no direct call of the heap's Push/Pop/Swap/Less in the library", "", "call sites enumerated", false)
	}
	// assignments to the items slice outside the heap's own methods
	for _, f := range c.P.Funcs {
		if f.Body == nil {
			continue
		}
		info := f.Info()
		inHeap := false
		if f.Obj != nil && f.Decl.Recv != nil {
			if recv := namedOf(f.Obj.Type().(*types.Signature).Recv().Type()); recv != nil && recv.Origin() == r.heapT {
				inHeap = true
			}
		}
		ast.Inspect(f.Body, func(x ast.Node) bool {
			as, ok := x.(*ast.AssignStmt)
			if !ok {
				return true
			}
			for i, l := range as.Lhs {
				target := l
				if ix, ok := ast.Unparen(l).(*ast.IndexExpr); ok {
					target = ix.X
				}
				if selField(info, target) != r.fItems {
					continue
				}
				if inHeap {
					continue
				}
				empty := false
				if len(as.Rhs) == len(as.Lhs) && target == l {
					empty = isEmptySlice(info, as.Rhs[i])
				}
				c.Rep.check(empty, rule, f.Short(), "heap items modified outside container/heap", c.P.pos(as), "items replaced by an empty slice",
					"the heap's item slice is modified outside the heap's own methods by something other than replacing it with an empty slice")
			}
			return true
		})
	}
	// Dequeue returns .Value of heap.Pop's result
	if r.pqDeq != nil {
		info := r.pqDeq.Info()
		popped := map[types.Object]bool{}
		ast.Inspect(r.pqDeq.Body, func(x ast.Node) bool {
			if as, ok := x.(*ast.AssignStmt); ok && len(as.Lhs) == 1 && len(as.Rhs) == 1 {
				e := ast.Unparen(as.Rhs[0])
				if ta, ok := e.(*ast.TypeAssertExpr); ok {
					e = ast.Unparen(ta.X)
				}
				if call, ok := e.(*ast.CallExpr); ok && resolveCallee(info, call).Key == "container/heap.Pop" {
					if id, ok := as.Lhs[0].(*ast.Ident); ok {
						popped[info.ObjectOf(id)] = true
					}
				}
			}
			return true
		})
		found := false
		ast.Inspect(r.pqDeq.Body, func(x ast.Node) bool {
			ret, ok := x.(*ast.ReturnStmt)
			if !ok || len(ret.Results) != 2 {
				return true
			}
			if tv := info.Types[ret.Results[1]]; tv.Value == nil || tv.Value.ExactString() != "true" {
				return true
			}
			found = true
			sel, isSel := ast.Unparen(ret.Results[0]).(*ast.SelectorExpr)
			good := isSel && popped[rootIdent(info, sel.X)] && sel.Sel.Name != r.fPrio && sel.Sel.Name != r.fIndex
			c.Rep.check(good, rule, r.pqDeq.Short(), "Dequeue does not return the popped item's value", c.P.pos(ret), "returns the value field of the item heap.Pop returned",
				"the priority queue's Dequeue must return the value of the item that heap.Pop returned")
			return true
		})
		if !found {
			c.Rep.undecided(rule, r.pqDeq.Short(), "no successful return", c.P.pos(r.pqDeq.Body), "no `return x, true` found in the priority queue's Dequeue")
		}
	}
}

func isEmptySlice(info *types.Info, e ast.Expr) bool {
	e = ast.Unparen(e)
	if isNilExpr(info, e) {
		return true
	}
	switch x := e.(type) {
	case *ast.CallExpr:
		if resolveCallee(info, x).Builtin == "make" && len(x.Args) >= 2 {
			if tv := info.Types[x.Args[1]]; tv.Value != nil && tv.Value.ExactString() == "0" {
				return true
			}
		}
	case *ast.CompositeLit:
		return len(x.Elts) == 0
	case *ast.SliceExpr:
		// s[:0]
		if x.Low == nil && x.High != nil {
			if tv := info.Types[x.High]; tv.Value != nil && tv.Value.ExactString() == "0" {
				return true
			}
		}
	}
	return false
}

func (c *Ctx) ruleTieIndex(rule string, r *pqRoles) {
	c.Rep.rule(rule, "E2 path", "Enqueue: the item's tie index is read from the insertion counter, which is then incremented exactly once before heap.Push on every accepting path; the counter is otherwise only reset (to 0) together with emptying the heap", 2)
	if r.pqEnq == nil {
		return
	}
	if r.fCounter == "" {
		src := "nothing"
		if r.itemLit != nil {
			for _, el := range r.itemLit.Elts {
				if kvx, ok := el.(*ast.KeyValueExpr); ok {
					if key, _ := kvx.Key.(*ast.Ident); key != nil && key.Name == r.fIndex {
						src = types.ExprString(kvx.Value)
					}
				}
			}
		}
		c.Rep.fail(rule, r.pqEnq.Short(), "tie index does not come from a monotone insertion counter", c.P.pos(r.pqEnq.Body),
			"the item's tie-break index is taken from `"+src+"`, not from a counter field of the queue that only ever grows: after a Dequeue a later item can get an index below that of an earlier, still queued item of the same priority, and overtakes it")
		return
	}
	// the counter is followed as an offset from its value at entry: reading it gives "n+k", x+1 of "n+k" is "n+(k+1)",
	// ++ / += 1 / a store of such a value move it. The item built for the heap must carry "n+0" as its tie index and an
	// accepting path must leave the counter at "n+1" (Enqueue runs under the queue's lock, so the order of the store and
	// heap.Push is not observable).
	bump := func(t string) string {
		switch t {
		case "n+0":
			return "n+1"
		case "n+1":
			return "n+2"
		}
		return "n+*"
	}
	isN := func(v Value) bool { return v.Kind == VTok && strings.HasPrefix(v.S, "n+") }
	sr := &seqRule{c: c, rule: rule}
	sr.init = kv("").set("T", "n+0")
	sr.classify = func(fr *Frame, call *ast.CallExpr, ce *Callee, args []Value) *callEvent {
		switch ce.Key {
		case "container/heap.Push":
			return &callEvent{Name: "heappush", Atomic: true}
		case "container/heap.Pop":
			return &callEvent{Name: "heappop", Atomic: true}
		}
		return nil
	}
	sr.exprValSt = func(ip *Interp, fr *Frame, st *State, e ast.Expr) (Value, bool) {
		fi := fr.Fn.Info()
		switch x := ast.Unparen(e).(type) {
		case *ast.SelectorExpr:
			if selField(fi, x) == r.fCounter {
				return Value{Kind: VTok, S: st.Dom.(kv).get("T")}, true
			}
		case *ast.BinaryExpr:
			if x.Op == token.ADD {
				a, b := x.X, x.Y
				if tv := fi.Types[a]; tv.Value != nil {
					a, b = b, a
				}
				if tv := fi.Types[b]; tv.Value != nil && tv.Value.ExactString() == "1" {
					if pv := ip.pureValue(fr, st, a); isN(pv) {
						return Value{Kind: VTok, S: bump(pv.S)}, true
					}
				}
			}
		}
		return Value{}, false
	}
	sr.fieldStore = func(ip *Interp, fr *Frame, st *State, sel *ast.SelectorExpr, v Value) *State {
		fi := fr.Fn.Info()
		if selField(fi, sel) == r.fItems && v.Kind != VUnknown {
			return st
		}
		if selField(fi, sel) != r.fCounter {
			return st
		}
		cur := st.Dom.(kv).get("T")
		t := "?"
		switch {
		case isN(v):
			t = v.S
		case v.Kind == VConst && (v.S == "++" || v.S == "+=1"):
			if strings.HasPrefix(cur, "n+") {
				t = bump(cur)
			}
		case v.Kind == VConst && v.S == "0":
			t = "zero"
		}
		return st.WithDom(st.Dom.(kv).set("T", t))
	}
	sr.visit = func(fr *Frame, n ast.Node) string {
		if x, ok := n.(*ast.AssignStmt); ok {
			for i, l := range x.Lhs {
				if selField(fr.Fn.Info(), l) == r.fItems && len(x.Rhs) == len(x.Lhs) && isEmptySlice(fr.Fn.Info(), x.Rhs[i]) {
					return "items=empty"
				}
			}
		}
		return ""
	}
	sr.litElem = func(ip *Interp, fr *Frame, st *State, lit *ast.CompositeLit, key string, v Value) *State {
		if n := namedOf(fr.Fn.Info().TypeOf(lit)); n == nil || n.Origin() != r.itemT || key != r.fIndex {
			return st
		}
		if isN(v) {
			return addSym(st, "index="+v.S)
		}
		return addSym(st, "index=?")
	}
	for _, sg := range sr.segments(r.pqEnq) {
		if sg.Kind != "path" {
			continue
		}
		desc := "[" + strings.Join(sg.Syms, " ") + "] counter left at " + sg.T
		accepted := len(sg.Ret) == 1 && sg.Ret[0].isTrue()
		if sg.has("heappush") || accepted {
			good := sg.count("heappush") == 1 && sg.count("index=n+0") == 1 && !sg.has("index=?") && sg.T == "n+1" && accepted
			c.Rep.check(good, rule, r.pqEnq.Short(), "tie index not read-then-incremented once before heap.Push", sg.End, "item carries the counter's value, counter left one higher, one heap.Push, returns true",
				"on an accepting path Enqueue must give the item the insertion counter's current value as its tie index, leave the counter exactly one higher, heap.Push once and return true: "+desc)
		} else {
			c.Rep.check(sg.T == "n+0", rule, r.pqEnq.Short(), "counter changed on a rejecting path", sg.End, "rejecting path leaves the counter alone", "a rejecting path of Enqueue modifies the insertion counter: "+desc)
		}
	}
	// other writers of the counter
	for _, f := range c.P.Funcs {
		if f.Body == nil || f == r.pqEnq || r.enqHelpers[f] {
			continue
		}
		writes := false
		ast.Inspect(f.Body, func(x ast.Node) bool {
			switch s := x.(type) {
			case *ast.FuncLit:
				return false
			case *ast.IncDecStmt:
				if selField(f.Info(), s.X) == r.fCounter {
					writes = true
				}
			case *ast.AssignStmt:
				for _, l := range s.Lhs {
					if selField(f.Info(), l) == r.fCounter {
						writes = true
					}
				}
			}
			return true
		})
		if !writes {
			continue
		}
		for _, sg := range sr.segments(f) {
			if sg.Kind != "path" {
				continue
			}
			desc := "[" + strings.Join(sg.Syms, " ") + "] counter left at " + sg.T
			bad := sg.T != "n+0" && !(sg.T == "zero" && sg.has("items=empty"))
			c.Rep.check(!bad, rule, f.Short(), "insertion counter modified outside Enqueue", sg.End, "counter only reset together with emptying the heap",
				"the insertion counter is modified outside Enqueue other than by a reset that also empties the heap: items already queued could be overtaken by later ones of equal priority: "+desc)
		}
	}
}

// cmpLeafTable evaluates a parameterless boolean method over representative
// values of two integer operands and compares with want(a,b).
func (c *Ctx) cmpPredicate(rule string, f *Func, leafA, leafB func(g *Func, e ast.Expr) bool, nameA, nameB string, want func(a, b int64) bool, text string) {
	if f == nil {
		c.Rep.undecided(rule, "-", "predicate missing: "+text, "", "function not found")
		return
	}
	for _, p := range [][2]int64{{0, 1}, {1, 1}, {2, 1}, {0, 0}, {5, 1024}, {1024, 1024}, {1025, 1024}} {
		te := &tableEval{c: c}
		te.leaf = func(g *Func, e ast.Expr) (tval, bool) {
			if leafA(g, e) {
				return tval{I: p[0]}, true
			}
			if leafB(g, e) {
				return tval{I: p[1]}, true
			}
			return tval{}, false
		}
		res, ok := te.call(f, nil)
		inst := fmt.Sprintf("%s with %s=%d %s=%d", f.Short(), nameA, p[0], nameB, p[1])
		if !ok || len(res) != 1 || !res[0].IsBool {
			c.Rep.undecided(rule, f.Short(), inst, c.P.pos(f.Body), "predicate not evaluable: "+te.why)
			return
		}
		c.Rep.check(res[0].B == want(p[0], p[1]), rule, f.Short(), inst, c.P.pos(f.Body), fmt.Sprintf("%s = %v", inst, want(p[0], p[1])),
			fmt.Sprintf("%s returns %v, expected %v (%s)", inst, res[0].B, want(p[0], p[1]), text))
	}
}

func (c *Ctx) ruleFifoSegments(rule string, r *pqRoles) {
	c.Rep.rule(rule, "E7+E2", "Chunk.Push/Pop slot-then-index behind correct full/empty tests; Queue.Enqueue links before switching and grows only after a failed Push; Queue.Dequeue advances only after a failed Pop; one count per item", 12)
	chunk := modPath + "/internal/linkedbuffer.Chunk"
	fData, fW, fR, fNext := chunk+".Data", chunk+".NextWriteIndex", chunk+".NextReadIndex", chunk+".Next"
	isField := func(fk string) func(g *Func, e ast.Expr) bool {
		return func(g *Func, e ast.Expr) bool { return selField(g.Info(), e) == fk }
	}
	isCapData := func(g *Func, e ast.Expr) bool {
		call, ok := e.(*ast.CallExpr)
		if !ok {
			return false
		}
		ce := resolveCallee(g.Info(), call)
		if (ce.Builtin == "cap" || ce.Builtin == "len") && len(call.Args) == 1 && selField(g.Info(), call.Args[0]) == fData {
			return true
		}
		return false
	}
	c.cmpPredicate(rule, c.P.byObj[chunk+".IsFull"], isField(fW), isCapData, "writeIndex", "capacity", func(a, b int64) bool { return a >= b }, "a chunk is full iff its write index reached its capacity")
	c.cmpPredicate(rule, c.P.byObj[chunk+".IsEmpty"], isField(fR), isField(fW), "readIndex", "writeIndex", func(a, b int64) bool { return a >= b }, "a chunk is empty iff its read index reached its write index")

	chunkSeq := func() *seqRule {
		sr := &seqRule{c: c, rule: rule}
		sr.classify = func(fr *Frame, call *ast.CallExpr, ce *Callee, args []Value) *callEvent {
			switch ce.Key {
			case chunk + ".IsFull":
				return &callEvent{Atomic: true, Results: tok("full")}
			case chunk + ".IsEmpty":
				return &callEvent{Atomic: true, Results: tok("empty")}
			case chunk + ".Push":
				return &callEvent{Name: "push", Atomic: true, Results: tok("pushok")}
			case chunk + ".Pop":
				return &callEvent{Name: "pop", Atomic: true, Results: []Value{{Kind: VTok, S: "popval"}, {Kind: VTok, S: "popok"}}}
			case modPath + "/internal/linkedbuffer.NewChunk":
				return &callEvent{Name: "newchunk", Atomic: true, Results: []Value{{Kind: VTok, S: "newchunk"}}}
			}
			if fk, m := atomicOp(fr.Fn.Info(), call); m == "Add" && strings.HasSuffix(fk, ".writeCount") {
				return &callEvent{Name: "wcount++", Atomic: true}
			} else if m == "Add" && strings.HasSuffix(fk, ".readCount") {
				return &callEvent{Name: "rcount++", Atomic: true}
			}
			return nil
		}
		sr.condSym = func(fr *Frame, token, rel string) string { return token + "=" + rel }
		sr.visit = func(fr *Frame, n ast.Node) string {
			info := fr.Fn.Info()
			slot := func(e ast.Expr, idx string) bool {
				ix, ok := ast.Unparen(e).(*ast.IndexExpr)
				return ok && selField(info, ix.X) == fData && selField(info, ix.Index) == idx
			}
			// Data[idx-1]: the slot addressed after the index was advanced
			slotPrev := func(e ast.Expr, idx string) bool {
				ix, ok := ast.Unparen(e).(*ast.IndexExpr)
				if !ok || selField(info, ix.X) != fData {
					return false
				}
				be, ok := ast.Unparen(ix.Index).(*ast.BinaryExpr)
				if !ok || be.Op != token.SUB || selField(info, be.X) != idx {
					return false
				}
				tv := info.Types[be.Y]
				return tv.Value != nil && tv.Value.ExactString() == "1"
			}
			switch x := n.(type) {
			case *ast.AssignStmt:
				var syms []string
				for i, l := range x.Lhs {
					switch {
					case slot(l, fW):
						syms = append(syms, "data[w]=")
					case slotPrev(l, fW):
						syms = append(syms, "data[w-1]=")
					case slotPrev(l, fR):
						syms = append(syms, "data[r-1]=")
					case slot(l, fR):
						syms = append(syms, "data[r]=")
					case selField(info, l) == fNext:
						syms = append(syms, "link")
					case strings.HasSuffix(selField(info, l), ".writeChunk"):
						syms = append(syms, "switch-write")
					case strings.HasSuffix(selField(info, l), ".readChunk"):
						syms = append(syms, "switch-read")
					case selField(info, l) == fW || selField(info, l) == fR:
						syms = append(syms, "index=?")
					}
					if len(x.Rhs) == len(x.Lhs) && slot(x.Rhs[i], fR) {
						syms = append(syms, "=data[r]")
					}
					if len(x.Rhs) == len(x.Lhs) && slotPrev(x.Rhs[i], fR) {
						syms = append(syms, "=data[r-1]")
					}
				}
				return strings.Join(syms, ",")
			case *ast.IncDecStmt:
				if x.Tok == token.INC {
					switch selField(info, x.X) {
					case fW:
						return "w++"
					case fR:
						return "r++"
					}
				}
				if fk := selField(info, x.X); fk == fW || fk == fR {
					return "index=?"
				}
			}
			return ""
		}
		sr.condExpr = func(fr *Frame, e ast.Expr, branch bool, ip *Interp, st *State) string {
			be, op := binOp(e)
			if be == nil || (op != token.NEQ && op != token.EQL) {
				return ""
			}
			x, y := be.X, be.Y
			if isNilExpr(fr.Fn.Info(), x) {
				x, y = y, x
			}
			if isNilExpr(fr.Fn.Info(), y) && (selField(fr.Fn.Info(), x) == fNext || localOfField(fr.Fn, x, fNext)) {
				return fmt.Sprintf("next-nonnil=%v", (op == token.NEQ) == branch)
			}
			return ""
		}
		return sr
	}
	flat := func(sg Segment) Segment {
		var out []string
		for _, s := range sg.Syms {
			out = append(out, strings.Split(s, ",")...)
		}
		sg.Syms = out
		return sg
	}
	// the read/write indices are written only by Chunk.Push / Chunk.Pop
	for _, a := range c.lockFacts().Accesses {
		if (a.Field == fW || a.Field == fR) && a.Write && !a.Private {
			c.Rep.check(a.Fn == r.push || a.Fn == r.pop, rule, a.Fn.Short(), "chunk index written outside Push/Pop", c.P.posOf(a.Pos), shortKey(a.Field)+" written only by Chunk.Push/Pop",
				shortKey(a.Field)+" is written in "+a.Fn.Short()+": only Chunk.Push and Chunk.Pop may move a segment's indices (rewinding or skipping a segment reorders or drops the items behind it)")
		}
	}
	// Chunk.Push
	if r.push != nil {
		for _, sg := range chunkSeq().segments(r.push) {
			sg = flat(sg)
			desc := "[" + strings.Join(sg.Syms, " ") + "]"
			ok := len(sg.Ret) == 1 && sg.Ret[0].isTrue()
			if ok {
				good := sg.has("full=false") && sg.count("data[w]=") == 1 && sg.count("w++") == 1 && sg.index("full=false") < sg.index("data[w]=") && sg.index("data[w]=") < sg.index("w++") && !sg.has("index=?") && !sg.has("data[w-1]=")
				// equivalent order: advance first, then fill the slot just left behind
				alt := sg.has("full=false") && sg.count("data[w-1]=") == 1 && sg.count("w++") == 1 && sg.index("full=false") < sg.index("w++") && sg.index("w++") < sg.index("data[w-1]=") && !sg.has("index=?") && !sg.has("data[w]=")
				good = good || alt
				c.Rep.check(good, rule, r.push.Short(), "Push does not write the slot then advance behind the full test", sg.End, "not full, slot written, write index advanced once, true", "Chunk.Push (accepting path) must test not-full, write Data[NextWriteIndex], then advance the index exactly once: "+desc)
			} else {
				c.Rep.check(!sg.has("data[w]=") && !sg.has("w++") && !sg.has("index=?") && len(sg.Ret) == 1 && sg.Ret[0].isFalse(), rule, r.push.Short(), "Push modifies the chunk on a rejecting path", sg.End, "full chunk left untouched, false", "Chunk.Push (rejecting path) must not modify the chunk and must return false: "+desc)
			}
		}
	}
	// Chunk.Pop
	if r.pop != nil {
		for _, sg := range chunkSeq().segments(r.pop) {
			sg = flat(sg)
			desc := "[" + strings.Join(sg.Syms, " ") + "]"
			ok := len(sg.Ret) == 2 && sg.Ret[1].isTrue()
			if ok {
				good := sg.has("empty=false") && sg.count("=data[r]") == 1 && sg.count("r++") == 1 && sg.index("empty=false") < sg.index("=data[r]") && sg.index("=data[r]") < sg.index("r++") && !sg.has("index=?")
				if i := sg.index("data[r]="); i >= 0 && i < sg.index("=data[r]") {
					good = false // slot cleared before it was read
				}
				if i := sg.lastIndex("data[r]="); i > sg.index("r++") {
					good = false // clears the next slot
				}
				c.Rep.check(good, rule, r.pop.Short(), "Pop does not read the slot before clearing/advancing", sg.End, "not empty, slot read, (cleared), read index advanced once, true", "Chunk.Pop (accepting path) must test not-empty, read Data[NextReadIndex] before clearing it, then advance the index exactly once: "+desc)
			} else {
				c.Rep.check(!sg.has("r++") && !sg.has("data[r]=") && !sg.has("index=?") && len(sg.Ret) == 2 && sg.Ret[1].isFalse(), rule, r.pop.Short(), "Pop modifies the chunk on a rejecting path", sg.End, "empty chunk left untouched, false", "Chunk.Pop (rejecting path) must not modify the chunk and must return false: "+desc)
			}
		}
		c.popReturnsWhatItRead(rule, r.pop, fData, fR)
	}
	// Queue.Enqueue
	if r.fifoEnq != nil {
		for _, sg := range chunkSeq().segments(r.fifoEnq) {
			sg = flat(sg)
			desc := "[" + strings.Join(sg.Syms, " ") + "]"
			accepted := len(sg.Ret) == 1 && sg.Ret[0].isTrue()
			good := true
			if accepted {
				good = sg.count("pushok=true") == 1 && sg.count("wcount++") == 1 && sg.index("pushok=true") < sg.index("wcount++")
			} else {
				good = !sg.has("wcount++") && !sg.has("pushok=true")
			}
			if sg.has("newchunk") {
				good = good && sg.index("pushok=false") >= 0 && sg.index("pushok=false") < sg.index("newchunk") && sg.count("newchunk") == 1 &&
					sg.count("link") == 1 && sg.count("switch-write") == 1 && sg.index("newchunk") < sg.index("link") && sg.index("link") < sg.index("switch-write")
			} else {
				good = good && !sg.has("link") && !sg.has("switch-write")
			}
			c.Rep.check(good, rule, r.fifoEnq.Short(), "FIFO Enqueue segment discipline", sg.End, "one successful Push counted once; new segment only after a failed Push, linked before the switch",
				"Queue.Enqueue must count exactly one successful Push per accepted item, create a new segment only after a failed Push, and link it (Next) before switching the write segment to it: "+desc)
		}
		c.linkAndSwitchSameChunk(rule, r.fifoEnq, fNext)
	}
	// Queue.Dequeue
	if r.fifoDeq != nil {
		for _, sg := range chunkSeq().segments(r.fifoDeq) {
			sg = flat(sg)
			desc := "[" + strings.Join(sg.Syms, " ") + "]"
			got := len(sg.Ret) == 2 && sg.Ret[1].isTrue()
			good := true
			if got {
				good = sg.count("popok=true") == 1 && sg.count("rcount++") == 1 && sg.index("popok=true") < sg.index("rcount++") && sg.Ret[0].Kind == VTok && sg.Ret[0].S == "popval"
			} else {
				good = !sg.has("rcount++") && !sg.has("popok=true")
			}
			if sg.has("switch-read") {
				good = good && sg.count("switch-read") == 1 && sg.index("popok=false") >= 0 && sg.index("popok=false") < sg.index("switch-read") &&
					sg.index("next-nonnil=true") >= 0 && sg.index("next-nonnil=true") < sg.index("switch-read")
			}
			c.Rep.check(good, rule, r.fifoDeq.Short(), "FIFO Dequeue segment discipline", sg.End, "item returned only after a successful Pop, counted once; next segment only after a failed Pop and a non-nil Next",
				"Queue.Dequeue must return the popped item only after a successful Pop (counted once) and advance to the next segment only after a failed Pop on the current one and a non-nil Next: "+desc)
		}
		c.switchReadToNext(rule, r.fifoDeq, fNext)
	}
}

// popReturnsWhatItRead: the first result of the accepting return is the local
// assigned from Data[NextReadIndex].
func (c *Ctx) popReturnsWhatItRead(rule string, pop *Func, fData, fR string) {
	info := pop.Info()
	read := map[types.Object]bool{}
	ast.Inspect(pop.Body, func(n ast.Node) bool {
		if as, ok := n.(*ast.AssignStmt); ok && len(as.Lhs) == 1 && len(as.Rhs) == 1 {
			if ix, ok := ast.Unparen(as.Rhs[0]).(*ast.IndexExpr); ok && selField(info, ix.X) == fData && selField(info, ix.Index) == fR {
				if id, ok := as.Lhs[0].(*ast.Ident); ok {
					read[info.ObjectOf(id)] = true
				}
			}
		}
		return true
	})
	ast.Inspect(pop.Body, func(n ast.Node) bool {
		ret, ok := n.(*ast.ReturnStmt)
		if !ok || len(ret.Results) != 2 {
			return true
		}
		if tv := info.Types[ret.Results[1]]; tv.Value == nil || tv.Value.ExactString() != "true" {
			return true
		}
		o := rootIdent(info, ret.Results[0])
		n1, cnt := true, 0
		if o != nil {
			n1, cnt = assignedOnlyFrom(pop, o, func(rhs ast.Expr, idx, n int) bool {
				ix, ok := ast.Unparen(rhs).(*ast.IndexExpr)
				return ok && selField(info, ix.X) == fData && selField(info, ix.Index) == fR
			})
		}
		c.Rep.check(o != nil && read[o] && n1 && cnt == 1, rule, pop.Short(), "Pop returns something other than the slot it read", c.P.pos(ret), "returns the value read from Data[NextReadIndex]", "Chunk.Pop must return the value it read from Data[NextReadIndex]")
		return true
	})
}

// linkAndSwitchSameChunk: `x.Next = n` and `writeChunk = n` use the same
// freshly created chunk variable.
func (c *Ctx) linkAndSwitchSameChunk(rule string, f *Func, fNext string) {
	info := f.Info()
	var linked, switched types.Object
	ast.Inspect(f.Body, func(n ast.Node) bool {
		as, ok := n.(*ast.AssignStmt)
		if !ok || len(as.Lhs) != 1 || len(as.Rhs) != 1 {
			return true
		}
		fk := selField(info, as.Lhs[0])
		switch {
		case fk == fNext:
			linked = rootIdent(info, as.Rhs[0])
		case strings.HasSuffix(fk, ".writeChunk"):
			switched = rootIdent(info, as.Rhs[0])
		}
		return true
	})
	if linked == nil && switched == nil {
		return
	}
	fresh := false
	if linked != nil {
		fresh, _ = assignedOnlyFrom(f, linked, func(rhs ast.Expr, idx, n int) bool {
			call, ok := ast.Unparen(rhs).(*ast.CallExpr)
			return ok && resolveCallee(info, call).Key == modPath+"/internal/linkedbuffer.NewChunk"
		})
	}
	c.Rep.check(linked != nil && linked == switched && fresh, rule, f.Short(), "link and switch use different chunks", c.P.pos(f.Body), "the new chunk is linked and then becomes the write chunk", "the chunk linked as Next and the chunk that becomes the write chunk must be the same freshly created chunk")
}

// switchReadToNext: readChunk is only ever assigned readChunk.Next (or a fresh chunk in Purge).
func (c *Ctx) switchReadToNext(rule string, f *Func, fNext string) {
	info := f.Info()
	ast.Inspect(f.Body, func(n ast.Node) bool {
		as, ok := n.(*ast.AssignStmt)
		if !ok || len(as.Lhs) != 1 || len(as.Rhs) != 1 || !strings.HasSuffix(selField(info, as.Lhs[0]), ".readChunk") {
			return true
		}
		good := false
		if sel, ok := ast.Unparen(as.Rhs[0]).(*ast.SelectorExpr); ok && fieldKey(info, sel) == fNext && strings.HasSuffix(selField(info, sel.X), ".readChunk") {
			good = true
		}
		// next := q.readChunk.Next; ...; q.readChunk = next
		if id, ok := ast.Unparen(as.Rhs[0]).(*ast.Ident); ok {
			if obj := info.ObjectOf(id); obj != nil {
				all, n := assignedOnlyFrom(f, obj, func(rhs ast.Expr, idx, cnt int) bool {
					sel, ok := ast.Unparen(rhs).(*ast.SelectorExpr)
					return ok && fieldKey(info, sel) == fNext && strings.HasSuffix(selField(info, sel.X), ".readChunk")
				})
				good = good || (all && n == 1)
			}
		}
		c.Rep.check(good, rule, f.Short(), "read chunk advanced to something other than its Next", c.P.pos(as), "readChunk = readChunk.Next", "Dequeue must advance the read chunk to readChunk.Next only")
		return true
	})
}

// ruleBatchOrder: AddAll enqueues the items in the order of the caller's slice (FIFO among equal priorities, FIFO on the
// plain queue, is defined by that order): the loop that enqueues ranges over the slice parameter itself, and that
// parameter is used for nothing else than its length — it is not handed to a sort, reversed, copied or re-assigned.
func (c *Ctx) ruleBatchOrder(rule string) {
	c.Rep.rule(rule, "def-use", "every batch submit loop ranges over the caller's slice parameter itself, which is otherwise only measured (len)", 6)
	for _, f := range c.submitFuncs() {
		info := f.Info()
		var loop *ast.RangeStmt
		var other ast.Stmt
		ast.Inspect(f.Body, func(n ast.Node) bool {
			var body *ast.BlockStmt
			switch x := n.(type) {
			case *ast.RangeStmt:
				body = x.Body
			case *ast.ForStmt:
				body = x.Body
			default:
				return true
			}
			has := false
			ast.Inspect(body, func(m ast.Node) bool {
				if call, ok := m.(*ast.CallExpr); ok {
					if k := resolveCallee(info, call).Key; k == kEnqueueQ || k == kEnqueuePQ {
						has = true
					}
				}
				return true
			})
			if has {
				if rs, ok := n.(*ast.RangeStmt); ok {
					loop = rs
				} else {
					other = n.(ast.Stmt)
				}
			}
			return true
		})
		if loop == nil && other == nil {
			continue // not a batch function
		}
		if loop == nil {
			// the index form over a slice parameter: for i := 0; i < len(items); i++ { item := items[i] ... }
			good := false
			if fs, ok := other.(*ast.ForStmt); ok && f.Type.Params != nil {
				for _, fld := range f.Type.Params.List {
					for _, nm := range fld.Names {
						p := info.ObjectOf(nm)
						if _, isSlice := p.Type().Underlying().(*types.Slice); !isSlice || !indexLoopOver(info, fs, p) {
							continue
						}
						good = true
						// every use of the parameter is len(p) or a read of p[i]
						ast.Inspect(f.Body, func(n ast.Node) bool {
							switch x := n.(type) {
							case *ast.CallExpr:
								if resolveCallee(info, x).Builtin == "len" && len(x.Args) == 1 && rootIdent(info, x.Args[0]) == p {
									return false
								}
							case *ast.IndexExpr:
								if id, ok := ast.Unparen(x.X).(*ast.Ident); ok && info.ObjectOf(id) == p {
									return false
								}
							case *ast.AssignStmt:
								for _, l := range x.Lhs {
									if ix, ok := ast.Unparen(l).(*ast.IndexExpr); ok && rootIdent(info, ix.X) == p {
										good = false // writes an element
									}
								}
							case *ast.Ident:
								if info.ObjectOf(x) == p {
									good = false
								}
							}
							return true
						})
					}
				}
			}
			c.Rep.check(good, rule, f.Short(), "batch loop is not a range over the items", c.P.pos(other), "ascending index loop over the caller's slice",
				f.Short()+" enqueues its batch in a loop that is neither a plain range nor an ascending index loop over the caller's slice (which it otherwise only measures and reads): the enqueue order is not evidently the caller's order")
			continue
		}
		id, isId := ast.Unparen(loop.X).(*ast.Ident)
		var param *types.Var
		if isId {
			if v, ok := info.ObjectOf(id).(*types.Var); ok && v.Pos() < f.Body.Pos() && v.Pos() > f.Pos() {
				param = v
			}
		}
		if !c.Rep.check(param != nil, rule, f.Short(), "batch loop ranges over something other than the items parameter", c.P.pos(loop), "range over the slice parameter",
			f.Short()+" enqueues in the order of "+types.ExprString(loop.X)+", not of the slice the caller passed: a sorted or otherwise re-ordered copy changes the FIFO order among items of equal priority") {
			continue
		}
		// every other use of the parameter is len(param)
		ast.Inspect(f.Body, func(n ast.Node) bool {
			switch x := n.(type) {
			case *ast.CallExpr:
				if resolveCallee(info, x).Builtin == "len" && len(x.Args) == 1 {
					if a, ok := ast.Unparen(x.Args[0]).(*ast.Ident); ok && info.ObjectOf(a) == param {
						return false
					}
				}
			case *ast.RangeStmt:
				if x == loop {
					// skip the range expression itself, keep looking at the body
					ast.Inspect(x.Body, func(m ast.Node) bool {
						if a, ok := m.(*ast.Ident); ok && info.ObjectOf(a) == param {
							c.Rep.fail(rule, f.Short(), "items slice used inside the batch loop", c.P.pos(a), f.Short()+" touches the items slice inside the loop that ranges over it")
						}
						return true
					})
					return false
				}
			case *ast.Ident:
				if info.ObjectOf(x) == param {
					c.Rep.fail(rule, f.Short(), "items slice used other than by len and range", c.P.pos(x), f.Short()+" passes or modifies the caller's items slice (sort, reverse, copy, re-slice): the order in which the batch is enqueued is no longer the caller's order")
				}
			}
			return true
		})
	}
}

// localOfField: e is a local variable whose only assignment reads the given field.
func localOfField(f *Func, e ast.Expr, field string) bool {
	id, ok := ast.Unparen(e).(*ast.Ident)
	if !ok {
		return false
	}
	info := f.Info()
	obj := info.ObjectOf(id)
	if obj == nil {
		return false
	}
	all, n := assignedOnlyFrom(f, obj, func(rhs ast.Expr, idx, cnt int) bool { return selField(info, rhs) == field })
	return all && n == 1
}
