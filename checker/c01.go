package main

import (
	"fmt"
	"go/ast"
	"go/types"
	"strings"
)

func init() {
	register(&propDef{
		ID: "C01",
		Info: propInfo{
			Technique:   "who-may-call + path/typestate analysis over the type-checked AST (abstract interpretation with callee inlining)",
			Explanation: "Decides structural necessary conditions of exactly-once execution: (R01.1) items are dequeued only by the dispatcher step, which is called only from the one dispatcher goroutine spawned by start; (R01.2) every path of the step after a successful dequeue ends in an error return, the closed-skip, or exactly one hand-off of the dequeued job, and the closed test precedes the hand-off; the hand-off performs exactly one Node.Send; (R01.3) the worker function is invoked only in the completion callback, exactly once per payload, and Node.Serve calls its callback exactly once per payload; (R01.4) pool-node ownership typestate: Send/Stop/PushNode/Cache.Put only on a node the path owns (popped non-nil, Remove()==true, fresh, or the callback's own node), nothing after release; (R01.5) in every submit function the reject branch has no Submitted/notify, returns failure, closes the item in AddAll, and the accept branch returns the job that was enqueued.",
			NotDecided:  []string{"that the queue implementations neither lose nor duplicate items internally (C04 covers their discipline)", "the cancel/dispatch race (C10)", "user-supplied adapters", "sufficiency of the local rules as a protocol (needs a model)"},
			Assumptions: []string{"the queue adapter's Dequeue removes the item it returns", "sync.Pool and channels behave as documented"},
		},
		Run: runC01,
	})
}

func runC01(c *Ctx) {
	c.ruleSingleConsumer("R01.1")
	c.ruleOneHandOff("R01.2")
	c.ruleOneInvocation("R01.3")
	c.Rep.rule("R01.4", "typestate", "Send/Stop/PushNode/Cache.Put on a pool node require ownership; a released node is not touched again", 6)
	c.runOwnership("R01.4")
	c.ruleSubmitPaths("R01.5", submitChecks{reject: true, sameJob: true})
	// the in-memory queues neither lose nor duplicate what they accepted (the structural part: C04's segment rules)
	c.ruleFifoSegments("R01.6", c.pqRoles("R01.6"))
	// an accepted job is only ever invoked if the dispatcher cannot lose the wake-up that announces it
	c.ruleDispatcherLoop("R01.7")
	// "single dispatcher" across runs: the previous run's dispatcher has exited before the next one is spawned
	c.ruleDispatcherJoined("R01.8")
	// a job cancelled before it started is never invoked: Queued is stored before the job is published, so a late
	// store cannot overwrite Processing and let Close() "succeed" on a running job
	c.ruleQueuedBeforePublication("R01.9")
	// an accepted job runs once the worker is running: the wake-ups that announce it are not lost
	c.ruleNotifyAfterChange("R01.10")
}

// concreteDequeues: the library's own queue implementations of Dequeue.
func (c *Ctx) dequeueKeys() map[string]bool {
	keys := map[string]bool{kDequeue: true, kDequeueAck: true}
	for _, f := range c.P.Funcs {
		if f.Obj != nil && (f.Obj.Name() == "Dequeue" || f.Obj.Name() == "DequeueWithAckId") && f.Decl.Recv != nil {
			keys[f.Key] = true
		}
	}
	return keys
}

func (c *Ctx) ruleSingleConsumer(rule string) {
	R := c.R
	c.Rep.rule(rule, "E1 who-may-call", "Dequeue/DequeueWithAckId only in the dispatcher step; the step only in the dispatcher goroutine; that goroutine spawned only by the spawner; the spawner called only by start", 4)
	dq := c.dequeueKeys()
	c.whoMayCall(rule, "Dequeue", func(cs CallSite) bool { return dq[cs.Callee.Key] && cs.In.Pkg.PkgPath == modPath }, isFunc(R.Step), "the dispatcher step")
	if R.Step != nil {
		c.whoMayCall(rule, "the dispatcher step", keyIn(R.Step.Key), isFunc(R.DispLoop), "the dispatcher goroutine")
		c.noEscape(rule, R.Step)
	}
	if R.SpawnDisp != nil {
		c.whoMayCall(rule, "the dispatcher spawner", keyIn(R.SpawnDisp.Key), isFunc(R.Start), "start")
		c.noEscape(rule, R.SpawnDisp)
	}
	// the dispatcher literal is used exactly once, as the operand of a go statement
	if R.DispLoop != nil && R.SpawnDisp != nil {
		n := 0
		var goStmt ast.Node
		ast.Inspect(R.SpawnDisp.Body, func(x ast.Node) bool {
			if g, ok := x.(*ast.GoStmt); ok {
				if lit, ok := ast.Unparen(g.Call.Fun).(*ast.FuncLit); ok && c.P.byLit[lit] == R.DispLoop {
					n++
					goStmt = g
				} else if R.DispLoop.Lit == nil && resolveCallee(R.SpawnDisp.Info(), g.Call).Key == R.DispLoop.Key {
					n++
					goStmt = g
				}
			}
			return true
		})
		if R.DispLoop.Lit == nil {
			// a declared function as the goroutine body: nobody else starts or calls it
			c.whoMayCall(rule, "the dispatcher goroutine's function", keyIn(R.DispLoop.Key), isFunc(R.SpawnDisp), "the dispatcher spawner")
		}
		c.Rep.check(n == 1 && goStmt != nil && c.loopDepthOf(R.SpawnDisp, goStmt) == 0, rule, R.SpawnDisp.Short(), "one go statement for the dispatcher", c.P.pos(R.SpawnDisp.Body),
			"the dispatcher is the operand of exactly one go statement outside any loop", "the dispatcher must be spawned by exactly one go statement outside any loop")
	}
}

// loopDepthOf returns the number of loops of f enclosing node n.
func (c *Ctx) loopDepthOf(f *Func, n ast.Node) int {
	depth := 0
	var walk func(x ast.Node, d int) bool
	found := false
	walk = func(x ast.Node, d int) bool {
		if x == nil || found {
			return false
		}
		ast.Inspect(x, func(y ast.Node) bool {
			if found || y == nil {
				return false
			}
			if y == n {
				depth = d
				found = true
				return false
			}
			switch l := y.(type) {
			case *ast.ForStmt:
				if y != x {
					walk(l, d+1)
					return false
				}
			case *ast.RangeStmt:
				if y != x {
					walk(l, d+1)
					return false
				}
			}
			return true
		})
		return true
	}
	walk(f.Body, 0)
	return depth
}

func isNonNilErr(v Value) bool { return v.Kind == VNonNil || v.Kind == VObj }

func (c *Ctx) ruleOneHandOff(rule string) {
	R := c.R
	c.Rep.rule(rule, "E2 path", "after a successful dequeue every path ends in an error return, the closed-skip, or exactly one hand-off of the dequeued job; IsClosed precedes the hand-off; the hand-off sends exactly once", 4)
	if R.Step == nil || R.HandOff == nil {
		return
	}
	v := c.vocab([]string{"deq", "deqok=", "isclosed", "closed=", "gate", "gate=", "handoff", "send", "perr=", "nexterr="}, map[string]bool{"isclosed": true, "handoff": true})
	sr := v.seq(rule, false)
	segs := sr.segments(R.Step)
	for _, sg := range segs {
		inst := R.Step.Short() + " path [" + strings.Join(sg.Syms, " ") + "]"
		if !sg.has("deq") || sg.has("deqok=false") {
			// nothing was dequeued: must not hand anything off
			c.Rep.check(!sg.has("handoff"), rule, R.Step.Short(), "hand-off without a dequeued job", sg.End, "no hand-off on a path without a successful dequeue", "a path hands a job off without a successful dequeue")
			continue
		}
		n := sg.count("handoff")
		retNil := len(sg.Ret) == 1 && sg.Ret[0].Kind == VNil
		retErr := len(sg.Ret) == 1 && nonNilOnPath(sg, sg.Ret[0])
		switch {
		case n == 1:
			ok := (sg.before("closed=false", "handoff") || sg.before("gate=true", "handoff")) && sg.count("deq") == 1
			c.Rep.check(ok, rule, R.Step.Short(), "hand-off not preceded by a negative closed test", sg.End,
				"one dequeue, closed test negative, one hand-off", "the job is handed off without the closed test (IsClosed() false, or a won compare-and-swap to processing) on this path, or more than one dequeue per hand-off: "+inst)
		case n == 0 && (sg.has("closed=true") || sg.has("gate=false")):
			c.Rep.check(retNil || retErr, rule, R.Step.Short(), "closed-skip path", sg.End, "closed job skipped without hand-off", "closed-skip must return")
		case n == 0 && retErr:
			c.Rep.ok(rule, inst, sg.End, "error return without hand-off", true)
		case n == 0:
			c.Rep.fail(rule, R.Step.Short(), "dequeued job dropped", sg.End, "a path dequeues a job and neither hands it off, nor skips it as closed, nor returns an error: "+inst)
		default:
			c.Rep.fail(rule, R.Step.Short(), "more than one hand-off", sg.End, "a dequeued job is handed off more than once: "+inst)
		}
	}
	// the job handed off is the dequeued one (def-use on locals)
	c.handOffArgIsDequeued(rule)
	// hand-off: exactly one Send on every path
	hv := c.vocab([]string{"send"}, nil)
	for _, sg := range hv.seq(rule, false).segments(R.HandOff) {
		c.Rep.check(sg.count("send") == 1, rule, R.HandOff.Short(), "exactly one Node.Send per hand-off", sg.End,
			"one Send on this path", fmt.Sprintf("hand-off path performs %d Node.Send (must be exactly one): [%s]", sg.count("send"), strings.Join(sg.Syms, " ")))
	}
}

func (c *Ctx) handOffArgIsDequeued(rule string) {
	R := c.R
	// value identity is followed by the interpreter: the Dequeue result is a token that survives assignments, type
	// assertions and type switches and the return values of inlined helpers; parseToJob applied to that token yields
	// the token "parsed". The hand-off must receive one of the two.
	sr := c.stepProvenanceSeq(rule)
	n := 0
	for _, sg := range sr.segments(R.Step) {
		if sg.Kind != "path" {
			continue
		}
		for _, sym := range sg.Syms {
			if !strings.HasPrefix(sym, "handoff:") {
				continue
			}
			n++
			c.Rep.check(sym == "handoff:deqval" || sym == "handoff:parsed", rule, R.Step.Short(), "hand-off argument is the dequeued job", sg.End,
				"argument is this invocation's Dequeue result (or the job decoded from it)", "the value handed off is not this invocation's Dequeue result (nor the job decoded from it): "+sym+" ["+strings.Join(sg.Syms, " ")+"]")
		}
	}
	if n == 0 {
		c.Rep.undecided(rule, R.Step.Short(), "no hand-off seen", c.P.pos(R.Step.Body), "the provenance walk found no hand-off call in the dispatcher step")
	}
}

// stepProvenanceSeq walks the dispatcher step with every library helper that takes part in dequeue / decode / attach /
// hand-off inlined, and names the values that reach the hand-off and the two setters:
//
//	handoff:<tok>   setack:<tok>   setqueue:<tok>   (tok = deqval, parsed, ackid, nextq, ... or "other")
func (c *Ctx) stepProvenanceSeq(rule string) *seqRule {
	R := c.R
	base := c.classifier(map[string]bool{"handoff": true}, nil)
	name := func(v Value) string {
		if v.Kind == VTok {
			return v.S
		}
		return "other"
	}
	sr := &seqRule{c: c, rule: rule}
	sr.classify = func(fr *Frame, call *ast.CallExpr, ce *Callee, args []Value) *callEvent {
		if R.HandOff != nil && ce.Key == R.HandOff.Key {
			a := "other"
			if len(args) == 1 {
				a = name(args[0])
			}
			return &callEvent{Name: "handoff:" + a, Atomic: true}
		}
		switch jobMethod(fr.Fn.Info(), call, ce) {
		case "setAckId":
			a := "other"
			if len(args) == 1 {
				a = name(args[0])
			}
			return &callEvent{Name: "setack:" + a, Atomic: true}
		case "setInternalQueue":
			a := "other"
			if len(args) == 1 {
				a = name(args[0])
			}
			return &callEvent{Name: "setqueue:" + a, Atomic: true}
		}
		ev := base(fr, call, ce, args)
		if ev == nil {
			return nil
		}
		switch ev.Name {
		case "deq", "parse", "nextq":
			return ev
		}
		if ev.Atomic {
			return &callEvent{Atomic: true, Results: ev.Results}
		}
		return nil
	}
	sr.relevant = func(f *Func) bool {
		em := c.emits(f)
		return em["deq"] || em["parse"] || em["nextq"] || em["handoff"] || em["setack"] || em["setqueue"]
	}
	return sr
}

func (c *Ctx) ruleOneInvocation(rule string) {
	R := c.R
	c.Rep.rule(rule, "E1+E2", "the worker function is called only in the completion callback, exactly once on every path, outside loops; Node.Serve calls its callback once per payload and not for a stop payload", 3)
	if R.Completion == nil {
		return
	}
	c.whoMayCall(rule, "the worker function field", func(cs CallSite) bool { return cs.Callee.Field == R.FWorkerFn && R.FWorkerFn != "" }, isFunc(R.Completion), "the completion callback")
	v := c.vocab([]string{"wf"}, nil)
	for _, sg := range v.seq(rule, false).segments(R.Completion) {
		c.Rep.check(sg.count("wf") == 1 && !hasLoopMarkerBefore(sg, "wf"), rule, R.Completion.Short(), "worker function invoked exactly once per payload", sg.End,
			"exactly one invocation on this path", fmt.Sprintf("the completion callback invokes the worker function %d times on a path (or inside a loop): [%s]", sg.count("wf"), strings.Join(sg.Syms, " ")))
	}
	// Node.Serve: for payload := range ch { if !payload.ok { return }; fn(payload.data) }
	serve := c.P.byObj[kNodeServe]
	if serve == nil {
		c.Rep.undecided(rule, "pool.Node.Serve", "missing", "", "pool.Node.Serve not found")
		return
	}
	var fnParam types.Object
	if serve.Type.Params != nil {
		for _, fld := range serve.Type.Params.List {
			for _, nm := range fld.Names {
				if _, ok := serve.Info().TypeOf(nm).Underlying().(*types.Signature); ok {
					fnParam = serve.Info().ObjectOf(nm)
				}
			}
		}
	}
	sr := &seqRule{c: c, rule: rule, cutLoops: true,
		classify: func(fr *Frame, call *ast.CallExpr, ce *Callee, args []Value) *callEvent {
			if ce.Var != nil && ce.Var == fnParam {
				return &callEvent{Name: "fn", Atomic: true}
			}
			return nil
		},
		condExpr: func(fr *Frame, e ast.Expr, branch bool, ip *Interp, st *State) string {
			if sel, ok := ast.Unparen(e).(*ast.SelectorExpr); ok && strings.HasSuffix(fieldKey(fr.Fn.Info(), sel), "pool.Payload.ok") {
				return fmt.Sprintf("ok=%v", branch)
			}
			return ""
		}}
	for _, sg := range sr.segments(serve) {
		switch sg.Kind {
		case "iter":
			good := (sg.has("ok=true") && sg.count("fn") == 1 && sg.before("ok=true", "fn")) || (sg.has("ok=false") && sg.count("fn") == 0 && sg.Ret != nil || sg.has("ok=false") && sg.count("fn") == 0)
			c.Rep.check(good, rule, "pool.Node.Serve", "one callback per payload", sg.End, "payload with ok → one callback; stop payload → none",
				"Serve iteration does not call the callback exactly once for a job payload / calls it for a stop payload: ["+strings.Join(sg.Syms, " ")+"]")
		default:
			c.Rep.check(sg.count("fn") == 0, rule, "pool.Node.Serve", "no callback outside the receive loop", sg.End, "callback only per received payload", "Serve calls the callback outside its receive loop")
		}
	}
}

func hasLoopMarkerBefore(sg Segment, sym string) bool {
	for _, s := range sg.Syms {
		if strings.HasPrefix(s, "__loop@") {
			return true
		}
		if s == sym {
			return false
		}
	}
	return false
}

// ---------------------------------------------------------------- submit family

type submitChecks struct {
	reject  bool // R01.5: reject branch clean, AddAll closes, accept returns the enqueued job
	sameJob bool
	notify  bool // R03.1: notify after a successful enqueue
	queued  bool // R16.1: status Queued stored before the enqueue
	metrics bool // R17.2: Submitted exactly once on accept
	encode  bool // R12.3: encode error => no enqueue
}

// submitFuncs: every function of package varmq that enqueues into a queue.
func (c *Ctx) submitFuncs() []*Func {
	return filterPkg(c.P.funcsCalling(kEnqueueQ, kEnqueuePQ), modPath)
}

// hasWorker: the receiver of f can reach a Worker (its struct, through
// embedding, has a field of interface type Worker).
func (c *Ctx) hasWorker(f *Func) bool {
	if f.Obj == nil {
		return false
	}
	recv := f.Obj.Type().(*types.Signature).Recv()
	if recv == nil {
		return false
	}
	var visit func(t types.Type, depth int) bool
	visit = func(t types.Type, depth int) bool {
		st := structOf(t)
		if st == nil || depth > 4 {
			return false
		}
		for i := 0; i < st.NumFields(); i++ {
			ft := st.Field(i).Type()
			if qualTypeName(ft) == modPath+".Worker" {
				return true
			}
			if st.Field(i).Embedded() && visit(ft, depth+1) {
				return true
			}
		}
		return false
	}
	return visit(recv.Type(), 0)
}

func (c *Ctx) submitSegments(f *Func) []Segment {
	key := "submitsegs:" + f.Key
	if c.cache == nil {
		c.cache = map[string]any{}
	}
	if s, ok := c.cache[key]; ok {
		return s.([]Segment)
	}
	v := c.vocab([]string{"enq", "enqok=", "Submitted", "notify", "close", "status:", "json", "jsonerr=", "break"}, map[string]bool{"close": true})
	sr := v.seq("submit", true)
	segs := sr.segments(f)
	c.cache[key] = segs
	return segs
}

func (c *Ctx) ruleSubmitPaths(rule string, chk submitChecks) {
	fs := c.submitFuncs()
	switch {
	case chk.reject:
		c.Rep.rule(rule, "E6 sibling/E2 path", "every submit function: on a refused Enqueue no Submitted, no notify, failure result, (AddAll) the item is closed; on acceptance the enqueued job itself is returned", 10)
	}
	for _, f := range fs {
		segs := c.submitSegments(f)
		isBatch := false
		for _, sg := range segs {
			if sg.Kind == "iter" && sg.has("enq") {
				isBatch = true
			}
		}
		for _, sg := range segs {
			if !sg.has("enq") {
				continue
			}
			desc := "[" + strings.Join(sg.Syms, " ") + "]"
			if chk.reject && isBatch && sg.Kind == "iter" {
				c.Rep.check(!sg.has("break") && !sg.Exit, rule, f.Short(), "batch loop abandoned", sg.End, "every item of the batch is visited",
					"the batch loop is left (break/return) before all items were submitted or closed: the remaining items are never counted off, the batch never completes and its stream never closes: "+desc)
			}
			switch {
			case sg.has("enqok=false"):
				if chk.reject {
					clean := !sg.has("Submitted") && !sg.has("notify")
					c.Rep.check(clean, rule, f.Short(), "reject branch has side effects", sg.End, "refused enqueue: no Submitted, no notify", "a refused Enqueue is followed by Submitted/notify: "+desc)
					if isBatch {
						c.Rep.check(sg.has("close"), rule, f.Short(), "rejected batch item not closed", sg.End, "rejected batch item is closed", "a batch item whose Enqueue was refused is not closed (the batch could never complete): "+desc)
					} else if sg.Kind == "path" {
						last := Value{}
						if len(sg.Ret) > 0 {
							last = sg.Ret[len(sg.Ret)-1]
						}
						c.Rep.check(last.isFalse(), rule, f.Short(), "reject branch reports success", sg.End, "refused enqueue returns false", "a refused Enqueue does not return false: "+desc)
						if len(sg.Ret) == 2 {
							c.Rep.check(sg.Ret[0].Kind == VNil, rule, f.Short(), "reject branch returns a handle", sg.End, "no handle on rejection", "a refused Enqueue returns a job handle")
						}
					}
				}
			case sg.has("enqok=true"):
				if chk.reject && !isBatch && sg.Kind == "path" {
					last := Value{}
					if len(sg.Ret) > 0 {
						last = sg.Ret[len(sg.Ret)-1]
					}
					c.Rep.check(last.isTrue(), rule, f.Short(), "accept branch reports failure", sg.End, "accepted enqueue returns true", "an accepted Enqueue does not return true: "+desc)
				}
			}
		}
		if chk.sameJob {
			c.sameJobReturned(rule, f)
		}
		if chk.reject {
			c.closedIsRejected(rule, f)
		}
	}
}

// closedIsRejected: a submit function only ever closes the job it has just tried to enqueue (its reject branch); a
// Close on anything else — the batch parent, another item — counts the wrong job off.
func (c *Ctx) closedIsRejected(rule string, f *Func) {
	info := f.Info()
	var enqArg types.Object
	for _, cs := range c.P.calls(f) {
		if (cs.Callee.Key == kEnqueueQ || cs.Callee.Key == kEnqueuePQ) && len(cs.Call.Args) >= 1 {
			enqArg = rootIdent(info, cs.Call.Args[0])
		}
	}
	if enqArg == nil {
		return
	}
	for _, cs := range c.P.calls(f) {
		if jobMethod(info, cs.Call, cs.Callee) != "Close" {
			continue
		}
		recv := cs.Callee.Recv
		_, isId := ast.Unparen(recv).(*ast.Ident)
		ro := rootIdent(info, recv)
		same := ro == enqArg
		if bt, isSlice := enqArg.Type().Underlying().(*types.Slice); !same && ro != nil && isSlice && types.Identical(bt.Elem(), types.Typ[types.Byte]) {
			// the encoded form of the job was enqueued: val, err := j.Json()
			all, n := assignedOnlyFrom(f, enqArg, func(rhs ast.Expr, idx, cnt int) bool {
				call, ok := ast.Unparen(rhs).(*ast.CallExpr)
				if !ok || idx != 0 {
					return false
				}
				ce := resolveCallee(info, call)
				return ce.Recv != nil && rootIdent(info, ce.Recv) == ro
			})
			same = all && n > 0
		}
		if !same && ro != nil {
			// job and encoded form come out of one call: j, val, err := encode(...)
			ast.Inspect(f.Body, func(n ast.Node) bool {
				if as, ok := n.(*ast.AssignStmt); ok && len(as.Rhs) == 1 && len(as.Lhs) > 1 {
					hasJob, hasArg := false, false
					for _, l := range as.Lhs {
						if o := rootIdent(info, l); o == ro {
							hasJob = true
						} else if o == enqArg {
							hasArg = true
						}
					}
					if hasJob && hasArg {
						same = true
					}
				}
				return true
			})
		}
		c.Rep.check(isId && same, rule, f.Short(), "Close on something other than the refused job", c.P.pos(cs.Call), "the reject branch closes the job whose Enqueue was refused",
			f.Short()+" closes "+types.ExprString(recv)+", which is not the job it has just tried to enqueue: the refused item is never counted off (and the batch parent or another job is closed instead)")
	}
}

// sameJobReturned: in Add variants returning a handle, the returned handle is
// the variable that was passed to Enqueue.
func (c *Ctx) sameJobReturned(rule string, f *Func) {
	info := f.Info()
	if f.Type.Results == nil || len(f.Type.Results.List) != 2 {
		return
	}
	var enqArg types.Object
	for _, cs := range c.P.calls(f) {
		if (cs.Callee.Key == kEnqueueQ || cs.Callee.Key == kEnqueuePQ) && len(cs.Call.Args) >= 1 {
			enqArg = rootIdent(info, cs.Call.Args[0])
		}
	}
	ast.Inspect(f.Body, func(n ast.Node) bool {
		if _, ok := n.(*ast.FuncLit); ok {
			return false
		}
		ret, ok := n.(*ast.ReturnStmt)
		if !ok || len(ret.Results) != 2 {
			return true
		}
		if tv := info.Types[ret.Results[1]]; tv.Value == nil || tv.Value.ExactString() != "true" {
			return true
		}
		o := rootIdent(info, ret.Results[0])
		c.Rep.check(o != nil && o == enqArg, rule, f.Short(), "returned handle is the enqueued job", c.P.pos(ret),
			"the handle returned on acceptance is the value passed to Enqueue", "the handle returned on acceptance is not the job that was enqueued")
		return true
	})
}
