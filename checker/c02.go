package main

import (
	"fmt"
	"go/ast"
	"go/constant"
	"go/token"
	"go/types"
	"math"
	"os"
	"strings"
)

func init() {
	register(&propDef{
		ID: "C02",
		Info: propInfo{
			Technique:   "who-may-call + path analysis + finite-domain status propagation (lifecycle table) on the type-checked AST",
			Explanation: "Decides the in-flight counter protocol structurally: (R02.1) the counter is raised only in the dispatcher path, every call of the dispatcher step is control-dependent on `inflight.Load() < limit.Load()` evaluated in the same loop iteration (a <= or != guard is a violation), and on every path of the step the net number of increments equals the number of hand-offs; (R02.2) it is lowered only in the completion callback, exactly once per invocation and after the worker function (or as the undo of a reservation in the dispatcher path); (R02.3) every value stored into the limit, and into configs.concurrency, comes from a function all of whose returns are provably >= 1 (or from configs.concurrency / a constant >= 1), and TunePool stores before it notifies; (R02.4) from the extracted lifecycle table: the dispatcher goroutine is spawned only by start from status Initiated, and Initiated is stored only after the old signal channel was closed and a fresh one made; (R02.5) the dispatcher goroutine closes a per-run exit channel when it returns, that field is written only by the spawner, and every path of a lifecycle method that re-spawns a dispatcher receives from it after closing the old signal channel and before the spawn (a closed channel still delivers a buffered signal, so without the join the old dispatcher can make a pass next to the new one).",
			NotDecided:  []string{"the peak during concurrent TunePool calls", "anything about the relative timing of the limit store and in-flight jobs"},
			Assumptions: []string{"runtime.NumCPU() >= 1", "control calls are sequential (the lifecycle table is a sequential semantics)"},
		},
		Run: runC02,
	})
}

func runC02(c *Ctx) {
	c.ruleIncrementSite("R02.1")
	c.ruleDecrementSite("R02.2")
	c.ruleLimitWrites("R02.3")
	c.ruleOneDispatcher("R02.4")
	c.ruleDispatcherJoined("R02.5")
	// the capacity check-then-act is sound only with one actor: nobody but the dispatcher goroutine runs the step
	c.ruleSingleConsumer("R02.6")
}

// capSym recognises a comparison of the in-flight counter with the limit and
// returns "cap=true" when the branch implies inflight < limit, "cap=false"
// when it implies inflight >= limit, "cap=weak" for any other comparison of
// the two (<=, !=, ==: not a capacity guard).
func (c *Ctx) capSym(fr *Frame, e ast.Expr, branch bool) string {
	be, ok := ast.Unparen(e).(*ast.BinaryExpr)
	if !ok {
		return ""
	}
	info := fr.Fn.Info()
	// an operand is a Load of the field, or a local whose only assignment is such a Load; in the latter case
	// the value is "stale" unless the assignment sits inside the innermost loop that contains the comparison
	operand := func(x ast.Expr) (field string, stale bool) {
		x = ast.Unparen(x)
		if call, ok := x.(*ast.CallExpr); ok {
			if fk, m := atomicOp(info, call); m == "Load" {
				return fk, false
			}
			return "", false
		}
		id, ok := x.(*ast.Ident)
		if !ok {
			return "", false
		}
		obj := info.ObjectOf(id)
		var src *ast.CallExpr
		var at ast.Node
		n := 0
		ast.Inspect(fr.Fn.Body, func(nd ast.Node) bool {
			as, ok := nd.(*ast.AssignStmt)
			if !ok {
				return true
			}
			for i, l := range as.Lhs {
				if lid, ok := l.(*ast.Ident); ok && info.ObjectOf(lid) == obj && obj != nil {
					n++
					if len(as.Rhs) == len(as.Lhs) {
						if call, ok := ast.Unparen(as.Rhs[i]).(*ast.CallExpr); ok {
							src, at = call, as
						}
					}
				}
			}
			return true
		})
		if n != 1 || src == nil {
			return "", false
		}
		fk, m := atomicOp(info, src)
		if m != "Load" {
			return "", false
		}
		// innermost loop containing the comparison
		var loop ast.Node
		for _, nd := range enclosingChain(fr.Fn.Body, e) {
			switch nd.(type) {
			case *ast.ForStmt, *ast.RangeStmt:
				loop = nd
			}
		}
		if loop == nil {
			return fk, false
		}
		inside := at.Pos() >= loop.Pos() && at.End() <= loop.End()
		return fk, !inside
	}
	lf, ls := operand(be.X)
	rf, rs := operand(be.Y)
	op := be.Op
	switch {
	case lf == c.R.FInflight && rf == c.R.FLimit && lf != "":
	case lf == c.R.FLimit && rf == c.R.FInflight && lf != "":
		// mirror
		switch op {
		case token.LSS:
			op = token.GTR
		case token.GTR:
			op = token.LSS
		case token.LEQ:
			op = token.GEQ
		case token.GEQ:
			op = token.LEQ
		}
	default:
		return ""
	}
	if ls || rs {
		return "cap=stale"
	}
	// now: inflight <op> limit
	switch {
	case op == token.LSS && branch, op == token.GEQ && !branch:
		return "cap=true"
	case op == token.LSS && !branch, op == token.GEQ && branch:
		return "cap=false"
	}
	return "cap=weak"
}

func (c *Ctx) ruleIncrementSite(rule string) {
	R := c.R
	c.Rep.rule(rule, "E1+E2", "in-flight counter raised only in the dispatcher path; the step is called only under `inflight < limit` of the same iteration; net increments per step path = hand-offs", 4)
	if R.Step == nil || R.DispLoop == nil {
		return
	}
	n := c.whoMayCall(rule, "in-flight increment", func(cs CallSite) bool {
		fk, m := atomicOp(cs.In.Info(), cs.Call)
		if fk != R.FInflight || fk == "" {
			return false
		}
		if m == "Add" && len(cs.Call.Args) == 1 {
			if tv := cs.In.Info().Types[cs.Call.Args[0]]; tv.Value != nil && tv.Value.ExactString() == "1" {
				return true
			}
			return false
		}
		return m == "Store" || m == "Swap" || m == "CompareAndSwap"
	}, inOrUnder(R.Step, R.DispLoop), "the dispatcher step / dispatcher goroutine")
	if n == 0 {
		c.Rep.undecided(rule, "-", "no increment of the in-flight counter found", "", "the in-flight counter is never raised: role resolution is wrong or the counter is dead")
	}
	// guard in the dispatcher loop
	v := c.vocab([]string{"step", "cap="}, map[string]bool{"step": true})
	sr := v.seq(rule, false)
	sr.condExpr = func(fr *Frame, e ast.Expr, branch bool, ip *Interp, st *State) string { return c.capSym(fr, e, branch) }
	sr.relevant = func(f *Func) bool { return f != R.Step } // the guard may sit in a helper predicate
	steps := 0
	for _, sg := range sr.segments(R.DispLoop) {
		if !sg.has("step") {
			continue
		}
		steps++
		desc := "[" + strings.Join(sg.Syms, " ") + "]"
		good := sg.Kind == "iter" && sg.before("cap=true", "step") && !sg.has("cap=weak") && !sg.has("cap=stale") && sg.count("step") == 1
		c.Rep.check(good, rule, R.DispLoop.Short(), "dispatcher step not guarded by inflight < limit", sg.End,
			"step is control-dependent on inflight.Load() < limit.Load() in the same iteration",
			"the dispatcher step is reached without `inflight.Load() < limit.Load()` having been evaluated true in the same loop iteration (or with a weaker comparison, or against a limit/in-flight value loaded outside the loop, which a TunePool in between makes stale): "+desc)
	}
	if steps == 0 {
		c.Rep.undecided(rule, R.DispLoop.Short(), "no step call found in the dispatcher goroutine", "", "the dispatcher goroutine never reaches the step")
	}
	// step: net increments = hand-offs
	sv := c.vocab([]string{"inflight+", "inflight-", "handoff"}, map[string]bool{"handoff": true})
	for _, sg := range sv.seq(rule, false).segments(R.Step) {
		net := sg.count("inflight+") - sg.count("inflight-")
		h := sg.count("handoff")
		desc := "[" + strings.Join(sg.Syms, " ") + "]"
		c.Rep.check(net == h && h <= 1 && sg.before("inflight+", "handoff"), rule, R.Step.Short(), "in-flight increments do not match hand-offs on a path", sg.End,
			"net increments = hand-offs on this path, increment before hand-off",
			fmt.Sprintf("a path of the dispatcher step has net %d in-flight increment(s) for %d hand-off(s) (counter leaks, or a job is handed off uncounted): %s", net, h, desc))
	}
}

func (c *Ctx) ruleDecrementSite(rule string) {
	R := c.R
	c.Rep.rule(rule, "E1+E2", "in-flight counter lowered only in the completion callback (once per invocation, after the worker function) or as the undo of a reservation in the dispatcher path", 2)
	if R.Completion == nil {
		return
	}
	c.whoMayCall(rule, "in-flight decrement", func(cs CallSite) bool {
		fk, m := atomicOp(cs.In.Info(), cs.Call)
		if fk != R.FInflight || fk == "" || m != "Add" || len(cs.Call.Args) != 1 {
			return false
		}
		tv := cs.In.Info().Types[cs.Call.Args[0]]
		return tv.Value == nil || tv.Value.ExactString() != "1"
	}, inOrUnder(R.Completion, R.Step, R.DispLoop), "the completion callback (or the dispatcher path, as an undo)")
	v := c.vocab([]string{"wf", "inflight-", "inflight+"}, nil)
	for _, sg := range v.seq(rule, false).segments(R.Completion) {
		desc := "[" + strings.Join(sg.Syms, " ") + "]"
		good := sg.count("inflight-") == 1 && sg.count("inflight+") == 0 && sg.before("wf", "inflight-")
		c.Rep.check(good, rule, R.Completion.Short(), "completion does not lower the in-flight counter exactly once after the worker function", sg.End,
			"one decrement, after the worker function", "the completion callback must lower the in-flight counter exactly once, after the worker function returned: "+desc)
	}
}

// geOneFunc decides that every return of f yields a value >= 1: a conversion
// of an integer parameter on a path where the parameter was compared >= 1, a
// constant >= 1, or a call of utils.Cpus / runtime.NumCPU.
func (c *Ctx) geOneFunc(rule string, f *Func) bool {
	info := f.Info()
	params := map[types.Object]bool{}
	if f.Type.Params != nil {
		for _, fld := range f.Type.Params.List {
			for _, nm := range fld.Names {
				params[info.ObjectOf(nm)] = true
			}
		}
	}
	sr := &seqRule{c: c, rule: rule}
	sr.condExpr = func(fr *Frame, e ast.Expr, branch bool, ip *Interp, st *State) string {
		be, ok := ast.Unparen(e).(*ast.BinaryExpr)
		if !ok {
			return ""
		}
		x, y, op := be.X, be.Y, be.Op
		if _, isParam := params[rootIdent(info, y)]; isParam && info.Types[x].Value != nil {
			x, y = y, x
			switch op {
			case token.LSS:
				op = token.GTR
			case token.GTR:
				op = token.LSS
			case token.LEQ:
				op = token.GEQ
			case token.GEQ:
				op = token.LEQ
			}
		}
		// the parameter, possibly widened by a conversion (uint64(p) > math.MaxUint32)
		xe := ast.Unparen(x)
		if call, ok := xe.(*ast.CallExpr); ok && len(call.Args) == 1 && resolveCallee(info, call).Conv {
			if bt, ok := info.TypeOf(call).Underlying().(*types.Basic); ok && (bt.Kind() == types.Uint64 || bt.Kind() == types.Int64 || bt.Kind() == types.Uint || bt.Kind() == types.Int) {
				xe = ast.Unparen(call.Args[0])
			}
		}
		id, ok := xe.(*ast.Ident)
		if !ok || !params[info.ObjectOf(id)] {
			return ""
		}
		cv := info.Types[y].Value
		if cv == nil {
			return ""
		}
		k := cv.ExactString()
		// p > K false / p <= K true with K <= MaxUint32: the value fits the 32-bit limit
		if kv, exact := constant.Uint64Val(constant.ToInt(cv)); exact && kv <= math.MaxUint32 && kv >= 1 {
			if (op == token.GTR && !branch) || (op == token.LEQ && branch) {
				return "fits:" + id.Name
			}
		}
		// p < 1, p <= 0 false  => p >= 1 ; p >= 1, p > 0 true => p >= 1
		ge1 := false
		switch {
		case op == token.LSS && k == "1" && !branch, op == token.LEQ && k == "0" && !branch,
			op == token.GEQ && k == "1" && branch, op == token.GTR && k == "0" && branch:
			ge1 = true
		}
		if ge1 {
			return "ge1:" + id.Name
		}
		return ""
	}
	sr.visit = func(fr *Frame, n ast.Node) string {
		ret, ok := n.(*ast.ReturnStmt)
		if !ok || fr.Caller != nil || len(ret.Results) != 1 {
			return ""
		}
		e := ast.Unparen(ret.Results[0])
		if tv := info.Types[e]; tv.Value != nil {
			if k := tv.Value.ExactString(); !strings.HasPrefix(k, "-") && k != "0" {
				return "ret:const"
			}
			return "ret:bad"
		}
		if call, ok := e.(*ast.CallExpr); ok {
			ce := resolveCallee(info, call)
			if ce.Conv && len(call.Args) == 1 {
				if id, ok := ast.Unparen(call.Args[0]).(*ast.Ident); ok && params[info.ObjectOf(id)] {
					// a conversion to a narrower type wraps around: int → uint32 turns 1<<32 into 0
					if narrowing(info.TypeOf(call.Args[0]), info.TypeOf(call)) {
						return "ret:narrow:" + id.Name
					}
					return "ret:param:" + id.Name
				}
				if inner, ok := ast.Unparen(call.Args[0]).(*ast.CallExpr); ok && resolveCallee(info, inner).Key == "runtime.NumCPU" {
					return "ret:cpus"
				}
			}
			if ce.Key == modPath+"/utils.Cpus" || ce.Key == "runtime.NumCPU" {
				return "ret:cpus"
			}
		}
		return "ret:bad"
	}
	all := true
	nret := 0
	for _, sg := range sr.segments(f) {
		for _, s := range sg.Syms {
			if !strings.HasPrefix(s, "ret:") {
				continue
			}
			nret++
			good := s == "ret:const" || s == "ret:cpus"
			if strings.HasPrefix(s, "ret:param:") {
				good = sg.before("ge1:"+s[len("ret:param:"):], s)
			}
			if strings.HasPrefix(s, "ret:narrow:") {
				p := s[len("ret:narrow:"):]
				good = sg.before("ge1:"+p, s)
				if good && !sg.before("fits:"+p, s) {
					c.Rep.fail(rule, f.Short(), "narrowing conversion of an unbounded value", sg.End,
						"a value that flows into the concurrency limit is converted to a narrower integer type without an upper bound having been established on this path: a large argument wraps around (1<<32 becomes a limit of 0, which stalls the worker) ["+strings.Join(sg.Syms, " ")+"]")
					all = false
					continue
				}
			}
			if !c.Rep.check(good, rule, f.Short(), "return value not provably >= 1", sg.End, "return is >= 1 on this path ("+s+")",
				"a value that flows into the concurrency limit is returned without having been shown >= 1 on this path: ["+strings.Join(sg.Syms, " ")+"]") {
				all = false
			}
		}
	}
	if nret == 0 {
		c.Rep.undecided(rule, f.Short(), "no return classified", c.P.pos(f.Body), "could not classify the returns of a function whose result flows into the concurrency limit")
		return false
	}
	return all
}

func (c *Ctx) ruleLimitWrites(rule string) {
	R := c.R
	c.Rep.rule(rule, "value flow + E7", "every value stored into the limit / configs.concurrency comes from a function whose returns are all >= 1, from configs.concurrency, or is a constant >= 1; TunePool stores before it notifies", 5)
	confConc := modPath + ".configs.concurrency"
	safe := map[string]*Func{}
	var okSource func(f *Func, e ast.Expr) (bool, string)
	okSource = func(f *Func, e ast.Expr) (bool, string) {
		info := f.Info()
		e = ast.Unparen(e)
		if tv := info.Types[e]; tv.Value != nil {
			k := tv.Value.ExactString()
			return !strings.HasPrefix(k, "-") && k != "0", "constant " + k
		}
		switch x := e.(type) {
		case *ast.SelectorExpr:
			if fieldKey(info, x) == confConc {
				return true, "configs.concurrency"
			}
		case *ast.CallExpr:
			ce := resolveCallee(info, x)
			if g := c.P.byObj[ce.Key]; g != nil && g.Lib {
				safe[g.Key] = g
				return true, "result of " + g.Short()
			}
		case *ast.Ident:
			obj := info.ObjectOf(x)
			if obj == nil {
				return false, "unknown identifier"
			}
			why := ""
			all, n := assignedOnlyFrom(f, obj, func(rhs ast.Expr, idx, cnt int) bool {
				ok, w := okSource(f, rhs)
				why = w
				return ok && cnt == 1
			})
			if n > 0 && all {
				return true, "local assigned only from " + why
			}
			// the variable may be declared in an enclosing function (closure)
			if f.Parent != nil {
				return okSource(f.Parent, e)
			}
		}
		return false, "unrecognised source " + types.ExprString(e)
	}
	tune := c.methodOf(R.WorkerT, "TunePool")
	for _, cs := range c.P.allCalls(false) {
		fk, m := atomicOp(cs.In.Info(), cs.Call)
		if fk != R.FLimit || fk == "" || (m != "Store" && m != "Swap" && m != "Add" && m != "CompareAndSwap") {
			continue
		}
		// the live limit is set at construction and changed by TunePool only: anything else (e.g. Restart putting
		// the configured value back) silently undoes a TunePool
		c.Rep.check(cs.In == tune || c.storeOnFreshJob(cs), rule, cs.In.Short(), "limit changed outside TunePool", c.P.pos(cs.Call), "limit stored by a constructor or TunePool",
			"the live concurrency limit is changed in "+cs.In.Short()+": only TunePool may change it after construction (a later reset to the configured value raises the parallelism above what TunePool(n) promised)")
		if m != "Store" || len(cs.Call.Args) != 1 {
			c.Rep.fail(rule, cs.In.Short(), "limit modified by "+m, c.P.pos(cs.Call), "the concurrency limit must only be set with Store of a value known to be >= 1")
			continue
		}
		ok, why := okSource(cs.In, cs.Call.Args[0])
		c.Rep.check(ok, rule, cs.In.Short(), "limit stored from an unchecked value", c.P.pos(cs.Call), "stored value: "+why,
			"the value stored into the concurrency limit is not known to be >= 1 ("+why+")")
	}
	// writes to configs.concurrency: assignments and composite literals
	for _, f := range c.P.Funcs {
		if f.Body == nil {
			continue
		}
		ast.Inspect(f.Body, func(n ast.Node) bool {
			switch x := n.(type) {
			case *ast.FuncLit:
				return false
			case *ast.AssignStmt:
				for i, l := range x.Lhs {
					if selField(f.Info(), l) != confConc {
						continue
					}
					if len(x.Rhs) != len(x.Lhs) || x.Tok != token.ASSIGN {
						c.Rep.fail(rule, f.Short(), "configs.concurrency modified in place", c.P.pos(x), "configs.concurrency must be assigned a value known to be >= 1")
						continue
					}
					ok, why := okSource(f, x.Rhs[i])
					c.Rep.check(ok, rule, f.Short(), "configs.concurrency assigned from an unchecked value", c.P.pos(x), "assigned value: "+why,
						"configs.concurrency is assigned a value not known to be >= 1 ("+why+")")
				}
			case *ast.IncDecStmt:
				if selField(f.Info(), x.X) == confConc {
					c.Rep.fail(rule, f.Short(), "configs.concurrency modified in place", c.P.pos(x), "configs.concurrency must not be incremented/decremented")
				}
			case *ast.CompositeLit:
				if qualTypeName(f.Info().TypeOf(x)) != modPath+".configs" {
					return true
				}
				found := false
				for _, el := range x.Elts {
					if kvx, ok := el.(*ast.KeyValueExpr); ok {
						if id, ok := kvx.Key.(*ast.Ident); ok && id.Name == "concurrency" {
							found = true
							ok2, why := okSource(f, kvx.Value)
							c.Rep.check(ok2, rule, f.Short(), "configs literal with unchecked concurrency", c.P.pos(kvx), "literal sets concurrency: "+why, "a configs literal sets concurrency to a value not known to be >= 1 ("+why+")")
						}
					}
				}
				if !found {
					c.Rep.fail(rule, f.Short(), "configs literal without concurrency", c.P.pos(x), "a configs literal leaves concurrency at 0; a worker built from it would have limit 0")
				}
			}
			return true
		})
	}
	for _, g := range safe {
		c.geOneFunc(rule, g)
	}
	// TunePool: limit stored before the notify
	if tp := c.methodOf(R.WorkerT, "TunePool"); tp != nil {
		for _, o := range c.lifecycle().cell("TunePool", "Running") {
			if o.has("notify") {
				c.Rep.check(o.idx("limit=") >= 0 && o.idx("limit=") < o.idx("notify"), rule, tp.Short(), "TunePool notifies before storing the limit", o.End,
					"limit stored before notify", "TunePool notifies the dispatcher before the new limit is stored: "+o.String())
			}
		}
	}
}

func (c *Ctx) ruleOneDispatcher(rule string) {
	R := c.R
	c.Rep.rule(rule, "E3 lifecycle table", "the dispatcher goroutine is spawned only from status Initiated; Initiated is stored only after the old signal channel was closed and a fresh one made", 5)
	t := c.lifecycle()
	ws := c.workerStatus()
	for _, m := range t.Methods {
		for _, s := range t.States {
			for _, o := range t.cell(m, s) {
				// find the status in effect when the dispatcher is spawned
				cur := s
				for _, e := range o.Effects {
					if strings.HasPrefix(e, "wstatus:") {
						cur = e[len("wstatus:"):]
					}
					if e == "go:dispatcher" {
						c.Rep.check(cur == "Initiated", rule, m, "dispatcher spawned from status "+cur, o.End,
							fmt.Sprintf("%s from %s spawns the dispatcher with status Initiated", m, s),
							fmt.Sprintf("%s called in state %s spawns a dispatcher goroutine while the status is %s: a second dispatcher on the same signal channel (%s)", m, s, cur, o))
					}
				}
				if n := countOf(o.Effects, "go:dispatcher"); n > 1 {
					c.Rep.fail(rule, m, "more than one dispatcher spawned", o.End, fmt.Sprintf("%s from %s spawns %d dispatchers", m, s, n))
				}
			}
		}
	}
	// who stores Initiated
	initVal := ws.ByName["Initiated"]
	lm := c.lifecycleMethods()
	for _, cs := range c.P.allCalls(false) {
		fk, m := atomicOp(cs.In.Info(), cs.Call)
		if fk != R.FStatus || fk == "" || m == "Load" {
			continue
		}
		storesInit := false
		for _, a := range cs.Call.Args {
			if tv := cs.In.Info().Types[a]; tv.Value != nil && tv.Value.ExactString() == initVal {
				storesInit = true
			}
		}
		if m == "Store" && !storesInit {
			continue
		}
		if m == "CompareAndSwap" && len(cs.Call.Args) == 2 {
			if tv := cs.In.Info().Types[cs.Call.Args[1]]; tv.Value == nil || tv.Value.ExactString() != initVal {
				continue
			}
		}
		var name string
		for n, f := range lm {
			if f == cs.In {
				name = n
			}
		}
		if name == "" {
			c.Rep.fail(rule, cs.In.Short(), "status reset to Initiated outside a lifecycle method", c.P.pos(cs.Call), "the status is set back to Initiated in "+cs.In.Short()+"; only a restart that closed and re-made the signal channel may do that")
			continue
		}
		for _, s := range t.States {
			for _, o := range t.cell(name, s) {
				i := o.idx("wstatus:Initiated")
				if i < 0 {
					continue
				}
				good := o.idx("closechans") >= 0 && o.idx("closechans") < i && o.idx("make(signal)") >= 0 && o.idx("make(signal)") < i && o.idx("closechans") < o.idx("make(signal)")
				c.Rep.check(good, rule, name, "Initiated stored without closing and re-making the signal channel", o.End,
					fmt.Sprintf("%s from %s: old channel closed, fresh channel made, then Initiated", name, s),
					fmt.Sprintf("%s from %s stores Initiated without first closing the old signal channel and making a fresh one: the previous dispatcher keeps consuming (%s)", name, s, o))
			}
		}
	}
}

func countOf(xs []string, x string) int {
	n := 0
	for _, y := range xs {
		if y == x {
			n++
		}
	}
	return n
}

// doneChanOperand: e is the dispatcher's exit channel (the field, or a local only ever assigned from the field).
func (c *Ctx) doneChanOperand(fn *Func, e ast.Expr) bool {
	R := c.R
	if R.FDispDone == "" {
		return false
	}
	info := fn.Info()
	if selField(info, e) == R.FDispDone {
		return true
	}
	if id, ok := ast.Unparen(e).(*ast.Ident); ok {
		if obj := info.ObjectOf(id); obj != nil {
			if all, n := assignedOnlyFrom(fn, obj, func(rhs ast.Expr, idx, cnt int) bool { return selField(info, rhs) == R.FDispDone }); all && n > 0 {
				return true
			}
		}
	}
	return false
}

// ruleDispatcherJoined: a previous run's dispatcher cannot step in the next run. Closing its signal channel does not
// end it at once (a buffered signal is still delivered by `for range`, and it may be in the middle of a pass), so the
// tear-down that precedes a re-spawn has to wait for the goroutine's exit: the goroutine closes a per-run channel
// when it returns, and every path that stores Initiated and spawns a dispatcher receives from that channel after it
// closed the signal channel and before the spawn.
func (c *Ctx) ruleDispatcherJoined(rule string) {
	R := c.R
	c.Rep.rule(rule, "E2 must-pass-through + who-may-write", "the dispatcher goroutine closes a per-run exit channel on return; every path that re-spawns a dispatcher receives from it between closing the signal channel and the spawn", 3)
	if R.SpawnDisp == nil || R.DispLoop == nil {
		return
	}
	if !c.Rep.check(R.FDispDone != "", rule, R.SpawnDisp.Short(), "the dispatcher goroutine does not announce its exit", c.P.pos(R.DispLoop.Body), "the goroutine body starts with `defer close(done)` on a channel published in a worker field",
		"the dispatcher goroutine has no top-level `defer close(x)` of a channel that its spawner publishes in a worker field: Stop/Restart cannot wait for it, so after Restart the previous run's dispatcher can still make a pass (a buffered signal survives the close of its channel) concurrently with the new one — two dispatchers pass the capacity test together") {
		return
	}
	// the exit channel field is written only by the spawner
	for _, f := range c.P.pkgFuncs(modPath) {
		if f.Body == nil {
			continue
		}
		info := f.Info()
		ast.Inspect(f.Body, func(n ast.Node) bool {
			if as, ok := n.(*ast.AssignStmt); ok {
				for _, l := range as.Lhs {
					if selField(info, l) == R.FDispDone {
						c.Rep.check(f.Root() == R.SpawnDisp, rule, f.Short(), "exit channel field written outside the spawner", c.P.pos(as), "written by the dispatcher spawner",
							"the dispatcher's exit channel field is overwritten in "+f.Short()+": a tear-down that reads it afterwards waits for the wrong goroutine, or for none")
					}
				}
			}
			return true
		})
	}
	v := c.vocab([]string{"closechans", "joindisp", "go:dispatcher", "wstatus:", "dispdone="}, map[string]bool{"closechans": true})
	sr := v.seq(rule, false)
	sr.condExpr = func(fr *Frame, e ast.Expr, branch bool, ip *Interp, st *State) string {
		be, ok := ast.Unparen(e).(*ast.BinaryExpr)
		if !ok || (be.Op != token.EQL && be.Op != token.NEQ) {
			return ""
		}
		x, y := be.X, be.Y
		if tv, ok := fr.Fn.Info().Types[x]; ok && tv.IsNil() {
			x, y = y, x
		}
		if tv, ok := fr.Fn.Info().Types[y]; !ok || !tv.IsNil() || !c.doneChanOperand(fr.Fn, x) {
			return ""
		}
		if (be.Op == token.EQL) == branch {
			return "dispdone=nil"
		}
		return "dispdone=nonnil"
	}
	n := 0
	for name, f := range c.lifecycleMethods() {
		if f == R.Start {
			continue
		}
		for _, sg := range sr.segments(f) {
			if sg.Kind != "path" || !sg.has("go:dispatcher") {
				continue
			}
			gi := sg.index("go:dispatcher")
			// a spawn that is not preceded by a store of Initiated on the same path is a first start (the status
			// was Initiated on entry; R02.4: only a restart stores Initiated): there is no previous dispatcher
			if ii := sg.index("wstatus:Initiated"); ii < 0 || ii > gi {
				continue
			}
			n++
			ci, ji, nilAt := -1, -1, -1
			for i, s := range sg.Syms[:gi] {
				switch s {
				case "closechans":
					ci = i
				case "joindisp":
					if ci >= 0 {
						ji = i
					}
				case "dispdone=nil":
					if ci >= 0 {
						nilAt = i
					}
				}
			}
			good := ci >= 0 && (ji > ci || nilAt > ci)
			c.Rep.check(good, rule, name, "dispatcher re-spawned without waiting for the previous one", sg.End, "signal channel closed, previous dispatcher joined (or none was ever spawned), then the spawn",
				name+" spawns a dispatcher on a path that does not, after closing the old signal channel, wait for the previous dispatcher goroutine to exit: that goroutine still delivers a buffered signal after the close (or is in the middle of a pass) and dispatches concurrently with the new one ["+strings.Join(sg.Syms, " ")+"]")
		}
	}
	c.Rep.check(n > 0, rule, "-", "no re-spawning path found", "", "at least one lifecycle method re-spawns the dispatcher", "no lifecycle method was found that re-spawns the dispatcher: the rule has nothing to check (role resolution changed?)")
}

// narrowing: converting from to to can lose high-order bits (int/uint sized for the target being analysed).
func narrowing(from, to types.Type) bool {
	fb, ok1 := from.Underlying().(*types.Basic)
	tb, ok2 := to.Underlying().(*types.Basic)
	if !ok1 || !ok2 {
		return false
	}
	word := 64
	if a := os.Getenv("GOARCH"); a == "386" || a == "arm" || a == "mips" || a == "mipsle" {
		word = 32
	}
	bits := func(b *types.Basic) int {
		switch b.Kind() {
		case types.Int8, types.Uint8:
			return 8
		case types.Int16, types.Uint16:
			return 16
		case types.Int32, types.Uint32:
			return 32
		case types.Int64, types.Uint64:
			return 64
		case types.Int, types.Uint, types.Uintptr:
			return word
		}
		return 0
	}
	return bits(fb) > 0 && bits(tb) > 0 && bits(fb) > bits(tb)
}
