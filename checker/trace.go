package main

// Generic path-rule engine (E2): a rule classifies calls and other nodes into
// named events and advances a small finite state (a key/value string) on each;
// the interpreter explores every path, so "A before B", "exactly one A on
// every path", "no B after A", "A on every path to a normal exit" are DFA
// questions. Callees in the library are inlined (bounded), so helper
// extraction does not change the verdict.

import (
	"go/ast"
	"go/token"
	"sort"
	"strings"
)

// kv is an immutable string-encoded map used as DFA state.
type kv string

func (s kv) Key() string { return string(s) }

func (s kv) get(k string) string {
	for _, p := range strings.Split(string(s), ";") {
		if strings.HasPrefix(p, k+"=") {
			return p[len(k)+1:]
		}
	}
	return ""
}

func (s kv) set(k, v string) kv {
	var parts []string
	found := false
	for _, p := range strings.Split(string(s), ";") {
		if p == "" {
			continue
		}
		if strings.HasPrefix(p, k+"=") {
			found = true
			if v != "" {
				parts = append(parts, k+"="+v)
			}
			continue
		}
		parts = append(parts, p)
	}
	if !found && v != "" {
		parts = append(parts, k+"="+v)
	}
	sort.Strings(parts)
	return kv(strings.Join(parts, ";"))
}

func (s kv) has(k string) bool { return s.get(k) != "" }

// inc increments a saturating counter (0,1,2=many).
func (s kv) inc(k string) kv {
	switch s.get(k) {
	case "":
		return s.set(k, "1")
	case "1":
		return s.set(k, "2")
	}
	return s
}

type callEvent struct {
	Name    string
	Atomic  bool    // do not look inside the callee
	Results []Value // abstract results (tokens) of an atomic event
}

type Ev struct {
	Name string
	Node ast.Node
	Call *ast.CallExpr
	C    *Callee
	Fr   *Frame
	Args []Value
	Ip   *Interp
	St   *State
}

type traceRule struct {
	c        *Ctx
	rule     string
	classify func(fr *Frame, call *ast.CallExpr, c *Callee, args []Value) *callEvent
	visit    func(fr *Frame, n ast.Node) string
	step     func(s kv, ev Ev) kv
	cond     func(s kv, fr *Frame, token string, rel string) (kv, bool)
	condExpr func(s kv, fr *Frame, e ast.Expr, branch bool, ip *Interp, st *State) (kv, bool)
	exit     func(s kv, fr *Frame, ret *ast.ReturnStmt, vals []Value)
	noInline func(f *Func) bool
	maxDepth int
	relevant func(f *Func) bool // nil = inline everything
	// constant propagation through one atomic status field: Load returns the
	// tracked value, Store/CompareAndSwap update it (state key "T")
	trackField string
	// trackAny: interference mode for trackField. Every Load may return any
	// value of this domain (another goroutine may have stored it), and a
	// compare-and-swap may succeed or fail; used to enumerate the transitions
	// a function can *attempt* under concurrency.
	trackAny   []string
	exprVal    func(fr *Frame, e ast.Expr) (Value, bool) // names the values of receives / field reads (tokens)
	exprValSt  func(ip *Interp, fr *Frame, st *State, e ast.Expr) (Value, bool)
	litElem    func(ip *Interp, fr *Frame, st *State, lit *ast.CompositeLit, key string, v Value) *State
	fieldStore func(ip *Interp, fr *Frame, st *State, sel *ast.SelectorExpr, v Value) *State
	calleeRet  func(entry, s kv) kv // an inlined callee returns (entry: the state it was entered with)
	loadSyms   bool                 // in interference mode, record which value each Load returned ("load:<v>")
	args       []Value              // abstract values bound to the root function's parameters
}

type traceDom struct {
	BaseDomain
	r *traceRule
}

func (d *traceDom) Call(ip *Interp, fr *Frame, st *State, call *ast.CallExpr, c *Callee, args []Value) ([]Out, bool) {
	s := st.Dom.(kv)
	var tracked []Value
	isTracked := false
	if d.r.trackField != "" && d.r.trackAny != nil {
		if fk, m := atomicOp(fr.Fn.Info(), call); fk == d.r.trackField {
			var ev *callEvent
			if d.r.classify != nil {
				ev = d.r.classify(fr, call, c, args)
			}
			if ev != nil && d.r.step != nil && ev.Name != "" {
				s = d.r.step(s, Ev{Name: ev.Name, Node: call, Call: call, C: c, Fr: fr, Args: args, Ip: ip, St: st})
			}
			ns := st.WithDom(s)
			switch m {
			case "Load":
				var outs []Out
				for _, v := range d.r.trackAny {
					o := ns
					if d.r.loadSyms && d.r.step != nil {
						o = st.WithDom(d.r.step(s, Ev{Name: "load:" + v, Node: call, Call: call, C: c, Fr: fr, Args: args, Ip: ip, St: st}))
					}
					outs = append(outs, Out{St: o, Vals: []Value{{Kind: VConst, S: v}}})
				}
				return outs, true
			case "CompareAndSwap":
				won := ns
				if d.r.step != nil {
					won = st.WithDom(d.r.step(s, Ev{Name: "casok", Node: call, Call: call, C: c, Fr: fr, Args: args, Ip: ip, St: st}))
				}
				return []Out{{St: won, Vals: []Value{boolVal(true)}}, {St: ns, Vals: []Value{boolVal(false)}}}, true
			}
			return []Out{{St: ns}}, true
		}
	}
	if d.r.trackField != "" && d.r.trackAny == nil {
		if fk, m := atomicOp(fr.Fn.Info(), call); fk == d.r.trackField {
			isTracked = true
			cur := s.get("T")
			switch m {
			case "Load":
				if cur != "" && cur != "?" {
					tracked = []Value{{Kind: VConst, S: cur}}
				}
			case "Store":
				if len(args) == 1 && args[0].Kind == VConst {
					s = s.set("T", args[0].S)
				} else {
					s = s.set("T", "?")
				}
			case "CompareAndSwap":
				if len(args) == 2 && args[0].Kind == VConst && args[1].Kind == VConst && cur != "" && cur != "?" {
					if cur == args[0].S {
						s = s.set("T", args[1].S)
						tracked = []Value{boolVal(true)}
					} else {
						tracked = []Value{boolVal(false)}
					}
				} else {
					s = s.set("T", "?")
				}
			default:
				s = s.set("T", "?")
			}
			st = st.WithDom(s)
		}
	}
	var ev *callEvent
	if d.r.classify != nil {
		// the receiver's value, when it is a plain variable, for rules that follow values (tokens)
		if c.Recv != nil {
			if _, isId := ast.Unparen(c.Recv).(*ast.Ident); isId {
				c.RecvVal = ip.pureValue(fr, st, c.Recv)
			}
		}
		ev = d.r.classify(fr, call, c, args)
	}
	if isTracked {
		if ev == nil {
			ev = &callEvent{}
		}
		ev.Atomic = true
		ev.Results = tracked
	}
	if ev == nil {
		return nil, false
	}
	if d.r.step != nil && ev.Name != "" {
		s = d.r.step(s, Ev{Name: ev.Name, Node: call, Call: call, C: c, Fr: fr, Args: args, Ip: ip, St: st})
	}
	// a call that produces result tokens makes them fresh: what an earlier test established about a token of the
	// same name (an earlier iteration, an earlier call) no longer holds
	for _, rv := range ev.Results {
		if rv.Kind == VTok {
			s = s.set("k:"+rv.S, "")
		}
	}
	ns := st.WithDom(s)
	if ev.Atomic {
		return []Out{{St: ns, Vals: ev.Results}}, true
	}
	// event recorded, callee still inlined
	targets := d.Inline(ip, fr, ns, call, c)
	if len(targets) == 0 || fr.Depth >= ip.MaxDepth {
		return []Out{{St: ns, Vals: ev.Results}}, true
	}
	var outs []Out
	for _, f := range targets {
		if f.Body == nil || fr.onStack(f) {
			outs = append(outs, Out{St: ns})
			continue
		}
		outs = append(outs, ip.inline(fr, ns, call, f, args)...)
	}
	return outs, true
}

func (d *traceDom) Inline(ip *Interp, fr *Frame, st *State, call *ast.CallExpr, c *Callee) []*Func {
	var out []*Func
	if c.Key == "" {
		return nil
	}
	if c.Iface {
		out = ip.P.implementationsIn(fr.Fn, c)
	} else if f := ip.P.byObj[c.Key]; f != nil && f.Lib {
		out = []*Func{f}
	}
	if d.r.noInline != nil || d.r.relevant != nil {
		var keep []*Func
		for _, f := range out {
			if d.r.noInline != nil && d.r.noInline(f) {
				continue
			}
			if d.r.relevant != nil && !d.r.relevant(f) {
				continue
			}
			keep = append(keep, f)
		}
		out = keep
	}
	return out
}

func (d *traceDom) Visit(ip *Interp, fr *Frame, st *State, n ast.Node) *State {
	if cr, ok := n.(CalleeReturn); ok {
		if d.r.calleeRet != nil {
			return st.WithDom(d.r.calleeRet(cr.Entry.Dom.(kv), st.Dom.(kv)))
		}
		return st
	}
	if d.r.visit == nil {
		return st
	}
	name := d.r.visit(fr, n)
	if name == "" {
		return st
	}
	return st.WithDom(d.r.step(st.Dom.(kv), Ev{Name: name, Node: n, Fr: fr, Ip: ip, St: st}))
}

func (d *traceDom) Cond(ip *Interp, fr *Frame, st *State, e ast.Expr, branch bool) (*State, bool) {
	if e == nil {
		return st, true
	}
	s := st.Dom.(kv)
	if d.r.condExpr != nil {
		ns, ok := d.r.condExpr(s, fr, e, branch, ip, st)
		if !ok {
			return st, false
		}
		s = ns
	}
	tok, rel := condToken(ip, fr, st, e, branch)
	if tok != "" {
		// a token keeps what a test established about it: a second test of the same value (in a caller, after the
		// helper that produced and tested it returned) cannot take the other branch
		class := map[string]string{"nil": "n", "nonnil": "y", "true": "y", "false": "n"}[rel]
		if prev := s.get("k:" + tok); prev != "" && class != "" && prev != class {
			return st, false
		}
		if class != "" {
			s = s.set("k:"+tok, class)
		}
		if d.r.cond != nil {
			ns, ok := d.r.cond(s, fr, tok, rel)
			if !ok {
				return st, false
			}
			s = ns
		}
	}
	return st.WithDom(s), true
}

// condToken recognises `tok`, `tok == nil`, `tok != nil` where tok is a local
// holding a domain token, and returns the token and "true"/"false"/"nil"/"nonnil".
func condToken(ip *Interp, fr *Frame, st *State, e ast.Expr, branch bool) (string, string) {
	e = ast.Unparen(e)
	v := ip.pureValue(fr, st, e)
	if v.Kind != VTok && ip.CondVal.Kind == VTok {
		v = ip.CondVal
	}
	if v.Kind == VTok {
		if branch {
			return v.S, "true"
		}
		return v.S, "false"
	}
	if be, ok := e.(*ast.BinaryExpr); ok && (be.Op == token.EQL || be.Op == token.NEQ) {
		l, r := ip.pureValue(fr, st, be.X), ip.pureValue(fr, st, be.Y)
		if r.Kind == VTok {
			l, r = r, l
		}
		if l.Kind == VTok && r.Kind == VNil {
			isNil := (be.Op == token.EQL) == branch
			if isNil {
				return l.S, "nil"
			}
			return l.S, "nonnil"
		}
	}
	return "", ""
}

func (d *traceDom) Exit(ip *Interp, fr *Frame, st *State, ret *ast.ReturnStmt, vals []Value) {
	if d.r.exit != nil {
		d.r.exit(st.Dom.(kv), fr, ret, vals)
	}
}

// run walks root with the rule and reports walker problems as undecided.
func (tr *traceRule) run(root *Func, init kv) *Interp {
	ip := NewInterp(tr.c.P, &traceDom{r: tr})
	ip.ExprVal = tr.exprVal
	ip.ExprValSt = tr.exprValSt
	ip.LitElem = tr.litElem
	ip.FieldStore = tr.fieldStore
	if tr.maxDepth > 0 {
		ip.MaxDepth = tr.maxDepth
	}
	ip.RunWithArgs(root, &State{Dom: init}, tr.args)
	tr.c.Rep.interpDone(ip, tr.rule, root)
	return ip
}

func tok(s string) []Value { return []Value{{Kind: VTok, S: s}} }

// retPos is the position of an exit for diagnostics.
func (c *Ctx) retPos(fr *Frame, ret *ast.ReturnStmt) string {
	if ret != nil {
		return c.P.pos(ret)
	}
	return c.P.posOf(fr.Fn.Body.Rbrace)
}

// keys returns the keys present in the map.
func (s kv) keys() []string {
	var out []string
	for _, p := range strings.Split(string(s), ";") {
		if i := strings.Index(p, "="); i > 0 {
			out = append(out, p[:i])
		}
	}
	return out
}
