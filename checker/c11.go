package main

import (
	"fmt"
	"go/ast"
	"go/constant"
	"go/token"
	"go/types"
	"strconv"
	"strings"
)

func init() {
	register(&propDef{
		ID: "C11",
		Info: propInfo{
			Technique:   "who-may-call + def-use value flow + path analysis + job-status table",
			Explanation: "Decides the library side of 'acknowledge only after processing, at most once, with the right receipt': (R11.1) IAcknowledgeable.Acknowledge is called only in job.ack, ack only in the Close methods, and Close on a dequeued job only in the completion callback, after the worker function (R05.1/R05.2); (R11.2) the argument of setAckId in the dispatcher step is the third result of the DequeueWithAckId call of the same invocation, the ack id field is written only by setAckId and is what Acknowledge receives, setInternalQueue receives the queue the item was dequeued from, and both setters precede the hand-off; (R11.3) ack performs at most one Acknowledge, none for an empty id or a closed job, and a refused acknowledgement is returned as an error before anything is released (close table); (R11.4) no path of the dispatcher step acknowledges or closes: unprocessed items stay unacknowledged; (R11.5) persistent/distributed Add reports true only where the adapter's Enqueue returned true, and start's initial notify drains what the adapter already holds.",
			NotDecided:  []string{"the adapter's own bookkeeping and crash points inside it", "that concurrent Close calls cannot acknowledge twice (the ack precedes the compare-and-swap that elects the one closer; the loser has already acknowledged — noted, an adapter-level idempotence question)"},
			Assumptions: []string{"an adapter re-delivers unacknowledged items after a crash"},
		},
		Run: runC11,
	})
	register(&propDef{
		ID: "C12",
		Info: propInfo{
			Technique:   "table extraction (status writer/reader tables, wire struct) + path analysis",
			Explanation: "(R12.1) the status writer table (Status(): constant → string) and reader table (parseToJob: string → constant stored) are inverse bijections on all five states, the reader's default branch returns an error; (R12.2) Json() marshals and parseToJob unmarshals the same named struct, whose three fields have distinct non-empty JSON names, Json fills Id/Payload from the job's id/data and parseToJob passes view.Payload and view.Id to the constructor; (R12.3) in the four persistent/distributed Add the encode-error test precedes Enqueue, its true branch returns false without enqueuing, and what is enqueued is the Json() result; (R12.4) decode and cast failures of the dispatcher step return a non-nil error, the dispatcher reports it without blocking and stays in its loop (R03.4), and decoded jobs get their queue attached before the hand-off.",
			NotDecided:  []string{"encoding/json round-trip equality for every payload value", "ordering behind a bad entry (adapter)"},
			Assumptions: []string{"encoding/json honours struct tags"},
		},
		Run: runC12,
	})
	register(&propDef{
		ID: "C13",
		Info: propInfo{
			Technique:   "sibling agreement of the distributed binders + path analysis of the subscription handler",
			Explanation: "(R13.1) both distributed binders perform, on every path, exactly one Register of the adapter, one start and one Subscribe of the worker's own handler, in the effective order Register → start → Subscribe (deferred calls unfolded); (R13.2) the handler, evaluated with its action bound to \"enqueued\", counts exactly one submission and notifies; bound to any other action it changes no metric; the distributed Add itself touches no worker; (R13.3) a failed dequeue (another consumer won) is an error return of the step, not a loop exit (R03.4); (R13.4) completion re-notifies and the dispatcher loops while pending > 0 (R03.1, R03.4).",
			NotDecided:  []string{"that an item is executed by exactly one of k consumers (the adapter's atomic dequeue)", "delivery of notifications by the adapter"},
			Assumptions: []string{"the adapter's Dequeue hands each item to one consumer"},
		},
		Run: runC13,
	})
}

func runC11(c *Ctx) {
	c.ruleWhoAcknowledges("R11.1")
	c.ruleRightReceipt("R11.2")
	c.ruleAckAtMostOnce("R11.3")
	c.ruleStepNeverAcks("R11.4")
	c.rulePersistentAccept("R11.5")
	c.ruleDistributedBinders("R11.5")
	c.ruleCloseSiblings("R11.6", false)
	// recovery: what the adapter holds is drained without further prompting — the dispatcher keeps going after a
	// failed step and no wake-up is lost
	c.ruleDispatcherLoop("R11.7")
	c.ruleNotifyAfterChange("R11.8")
	// "only after the worker function has returned": the completion follows the return of the library's wrapper, which
	// therefore must not return while the user's function is still running
	c.ruleWorkerFuncSynchronous("R11.9")
}

func (c *Ctx) ruleWhoAcknowledges(rule string) {
	R := c.R
	c.Rep.rule(rule, "E1", "Acknowledge only in job.ack; ack only in Close methods; Close on dequeued jobs only in the completion callback after the worker function", 6)
	ack := c.methodOf(R.JobT, "ack")
	c.whoMayCall(rule, "IAcknowledgeable.Acknowledge", keyIn(kAck), isFunc(ack), "job.ack")
	closes := c.closeImpls()
	c.whoMayCall(rule, "ack", func(cs CallSite) bool { return jobMethod(cs.In.Info(), cs.Call, cs.Callee) == "ack" }, isFunc(closes...), "a Close method")
	c.ruleCompletionOrder(rule)
	// Close callers (completion, reject branches, Purge, siblings) — reject-branch and Purge jobs were never dequeued
	c.ruleWhoReleases(rule)
}

func (c *Ctx) ruleRightReceipt(rule string) {
	R := c.R
	c.Rep.rule(rule, "def-use + E2", "setAckId gets the third result of this invocation's DequeueWithAckId; Acknowledge gets the ack id field; setInternalQueue gets the queue dequeued from; both before the hand-off", 5)
	if R.Step == nil {
		return
	}
	fns := filterPkg(c.P.funcsCalling(kDequeue, kDequeueAck), modPath)
	if len(fns) != 1 {
		c.Rep.undecided(rule, R.Step.Short(), "dequeue site", "", fmt.Sprintf("%d functions call Dequeue", len(fns)))
		return
	}
	deqFn, dinfo := fns[0], fns[0].Info()
	// every queue that can issue receipts is dequeued with one: the receiver of DequeueWithAckId is the selected queue
	// narrowed to exactly the interface that declares the method (a narrower type sends other acknowledging adapters
	// to plain Dequeue) — by a type-switch clause or by a type assertion
	for _, cs := range c.P.calls(deqFn) {
		if cs.Callee.Key != kDequeueAck {
			continue
		}
		recv := rootIdent(dinfo, cs.Callee.Recv)
		good := false
		ast.Inspect(deqFn.Body, func(n ast.Node) bool {
			switch x := n.(type) {
			case *ast.TypeSwitchStmt:
				for _, cc := range x.Body.List {
					clause := cc.(*ast.CaseClause)
					if dinfo.Implicits[clause] == recv && recv != nil && len(clause.List) == 1 && qualTypeName(dinfo.TypeOf(clause.List[0])) == modPath+".IAcknowledgeable" {
						good = true
					}
				}
			case *ast.AssignStmt:
				if len(x.Rhs) == 1 && len(x.Lhs) >= 1 && rootIdent(dinfo, x.Lhs[0]) == recv && recv != nil {
					if ta, ok := ast.Unparen(x.Rhs[0]).(*ast.TypeAssertExpr); ok && ta.Type != nil && qualTypeName(dinfo.TypeOf(ta.Type)) == modPath+".IAcknowledgeable" {
						good = true
					}
				}
			}
			return true
		})
		c.Rep.check(good, rule, deqFn.Short(), "receipt branch selected by a narrower type than IAcknowledgeable", c.P.pos(cs.Call), "queue.(IAcknowledgeable) → DequeueWithAckId",
			"the branch that dequeues with a receipt is not selected by the IAcknowledgeable interface itself: acknowledging adapters that do not match the narrower type (e.g. the priority variants) are read with plain Dequeue, without a receipt, and their in-flight jobs are lost on a crash")
	}
	nAck, nQ := 0, 0
	for _, sg := range c.stepProvenanceSeq(rule).segments(R.Step) {
		if sg.Kind != "path" {
			continue
		}
		for _, sym := range sg.Syms {
			switch {
			case strings.HasPrefix(sym, "setack:"):
				nAck++
				c.Rep.check(sym == "setack:ackid", rule, R.Step.Short(), "setAckId argument is not this delivery's receipt", sg.End, "setAckId(third result of this invocation's DequeueWithAckId)",
					"the ack id attached to the job must be exactly the receipt DequeueWithAckId returned for this delivery (a constant, the job id or a stale value acknowledges the wrong item): "+sym+" ["+strings.Join(sg.Syms, " ")+"]")
			case strings.HasPrefix(sym, "setqueue:"):
				nQ++
				c.Rep.check(sym == "setqueue:nextq", rule, R.Step.Short(), "setInternalQueue argument is not the queue dequeued from", sg.End, "setInternalQueue(queue selected by this invocation)",
					"the queue attached to a decoded job must be the queue this invocation selected and dequeued from (Acknowledge would go to another adapter): "+sym+" ["+strings.Join(sg.Syms, " ")+"]")
			}
		}
	}
	if nAck == 0 || nQ == 0 {
		c.Rep.undecided(rule, R.Step.Short(), "setters not found", "", fmt.Sprintf("setAckId calls: %d, setInternalQueue calls: %d", nAck, nQ))
	}
	// field written only by the setter; Acknowledge receives the field
	setter := c.methodOf(R.JobT, "setAckId")
	for _, w := range c.writersOf(R.FJobAckId) {
		c.Rep.check(w.Fn == setter, rule, w.Fn.Short(), "ack id written outside its setter", c.P.posOf(w.Pos), "ack id written only by setAckId", "the ack id field is assigned outside setAckId")
	}
	if setter != nil && setter.Type.Params != nil {
		p := setter.Info().ObjectOf(setter.Type.Params.List[0].Names[0])
		good := false
		ast.Inspect(setter.Body, func(n ast.Node) bool {
			if as, ok := n.(*ast.AssignStmt); ok && len(as.Lhs) == 1 && len(as.Rhs) == 1 && selField(setter.Info(), as.Lhs[0]) == R.FJobAckId && rootIdent(setter.Info(), as.Rhs[0]) == p {
				good = true
			}
			return true
		})
		c.Rep.check(good, rule, setter.Short(), "setAckId does not store its argument", c.P.pos(setter.Body), "stores its argument in the ack id field", "setAckId must store its argument")
	}
	if ack := c.methodOf(R.JobT, "ack"); ack != nil {
		for _, cs := range c.P.calls(ack) {
			if cs.Callee.Key == kAck && len(cs.Call.Args) == 1 {
				c.Rep.check(selField(ack.Info(), cs.Call.Args[0]) == R.FJobAckId && c.isReceiverField(ack, cs.Call.Args[0]), rule, ack.Short(), "Acknowledge called with something other than the job's ack id", c.P.pos(cs.Call), "Acknowledge(receiver's ack id)",
					"Acknowledge must be called with the ack id stored on this job")
				// on the queue stored on this job
				recvOK := false
				if sel, ok := ast.Unparen(cs.Call.Fun).(*ast.SelectorExpr); ok {
					x := ast.Unparen(sel.X)
					if ta, ok := x.(*ast.TypeAssertExpr); ok {
						x = ast.Unparen(ta.X)
					}
					recvOK = selField(ack.Info(), x) == R.FJobQueue || (rootIdent(ack.Info(), x) != nil && c.derivesFromField(ack, rootIdent(ack.Info(), x), R.FJobQueue))
				}
				c.Rep.check(recvOK, rule, ack.Short(), "Acknowledge sent to a queue other than the job's own", c.P.pos(cs.Call), "Acknowledge on the job's own queue", "Acknowledge must go to the queue stored on the job")
			}
		}
	}
	// both setters before the hand-off
	v := c.vocab([]string{"setack", "setqueue", "handoff"}, map[string]bool{"handoff": true})
	for _, sg := range v.seq(rule, false).segments(R.Step) {
		if sg.has("handoff") {
			ok := (!sg.has("setack") || sg.index("setack") < sg.index("handoff")) && (!sg.has("setqueue") || sg.index("setqueue") < sg.index("handoff"))
			c.Rep.check(ok, rule, R.Step.Short(), "ack id / queue attached after the hand-off", sg.End, "attached before the hand-off", "ack id and queue must be attached before the job is handed to a pool goroutine ["+strings.Join(sg.Syms, " ")+"]")
		}
	}
}

func (c *Ctx) derivesFromField(f *Func, o types.Object, field string) bool {
	ok, n := assignedOnlyFrom(f, o, func(rhs ast.Expr, idx, cnt int) bool {
		x := ast.Unparen(rhs)
		if ta, isTA := x.(*ast.TypeAssertExpr); isTA {
			x = ast.Unparen(ta.X)
		}
		return selField(f.Info(), x) == field
	})
	return ok && n > 0
}

func (c *Ctx) ruleAckAtMostOnce(rule string) {
	R := c.R
	c.Rep.rule(rule, "E2 + job table", "ack: at most one Acknowledge per call, none for an empty id or a closed job, refusal is an error; per Close at most one ack, before the transition", 8)
	ack := c.methodOf(R.JobT, "ack")
	if ack == nil {
		c.Rep.undecided(rule, "job.ack", "missing", "", "job.ack not found")
		return
	}
	sr := &seqRule{c: c, rule: rule}
	sr.classify = func(fr *Frame, call *ast.CallExpr, ce *Callee, args []Value) *callEvent {
		if ce.Key == kAck {
			return &callEvent{Name: "Acknowledge", Atomic: true, Results: tok("acked")}
		}
		if jobMethod(fr.Fn.Info(), call, ce) == "IsClosed" {
			return &callEvent{Atomic: true, Results: tok("closed")}
		}
		return nil
	}
	sr.condSym = func(fr *Frame, token, rel string) string { return token + "=" + rel }
	sr.condExpr = func(fr *Frame, e ast.Expr, branch bool, ip *Interp, st *State) string {
		be, op := binOp(e)
		if be == nil || (op != token.EQL && op != token.NEQ) {
			return ""
		}
		x, y := be.X, be.Y
		if selField(fr.Fn.Info(), y) == R.FJobAckId {
			x, y = y, x
		}
		if selField(fr.Fn.Info(), x) != R.FJobAckId {
			return ""
		}
		if tv := fr.Fn.Info().Types[y]; tv.Value != nil && tv.Value.Kind() == constant.String && constant.StringVal(tv.Value) == "" {
			return fmt.Sprintf("noid=%v", (op == token.EQL) == branch)
		}
		return ""
	}
	for _, sg := range sr.segments(ack) {
		if sg.Kind != "path" {
			continue
		}
		desc := "[" + strings.Join(sg.Syms, " ") + "]"
		n := sg.count("Acknowledge")
		good := n <= 1
		if sg.has("noid=true") || sg.has("closed=true") {
			good = good && n == 0 && len(sg.Ret) == 1 && sg.Ret[0].Kind == VNil
		}
		if n == 1 {
			good = good && sg.before("noid=false", "Acknowledge") && sg.before("closed=false", "Acknowledge")
			if sg.has("acked=false") {
				good = good && len(sg.Ret) == 1 && isNonNilErr(sg.Ret[0])
			}
			if sg.has("acked=true") {
				good = good && len(sg.Ret) == 1 && sg.Ret[0].Kind == VNil
			}
		}
		c.Rep.check(good, rule, ack.Short(), "ack path deviates", sg.End, "ack path: "+desc,
			"job.ack must acknowledge at most once, never for an empty ack id or an already closed job, and turn a refused acknowledgement into an error: "+desc)
	}
	// per Close: at most one ack, before the transition (from the close table)
	t := c.jobCloseTable()
	for _, f := range t.Impls {
		for _, s := range t.States {
			for _, o := range t.cell(f, s) {
				n := countOf(o.Effects, "ack")
				ti := -1
				for i, e := range o.Effects {
					if strings.HasSuffix(e, ">Closed") || e == "status:Closed" {
						ti = i
					}
				}
				good := n <= 1 && (ti < 0 || n == 0 || o.idx("ack") < ti)
				c.Rep.check(good, rule, f.Short(), "Close acknowledges more than once or after closing (from "+s+")", o.End, fmt.Sprintf("%s from %s: %s", f.Short(), s, o),
					fmt.Sprintf("%s from %s must acknowledge at most once and before the status becomes Closed (ack is a no-op on a closed job): %s", f.Short(), s, o))
			}
		}
	}
}

func (c *Ctx) ruleStepNeverAcks(rule string) {
	R := c.R
	c.Rep.rule(rule, "E1", "the dispatcher path never acknowledges or closes a job", 1)
	for _, f := range []*Func{R.Step, R.DispLoop, R.HandOff} {
		if f == nil {
			continue
		}
		em := c.emitsSync(f)
		c.Rep.check(!em["Acknowledge"] && !em["ack"] && !em["close"], rule, f.Short(), "dispatcher path acknowledges or closes", c.P.pos(f.Body), f.Short()+" never reaches ack/Close",
			f.Short()+" can reach ack()/Close(): an item would be acknowledged (and lost on a crash) before it was processed")
	}
}

func (c *Ctx) rulePersistentAccept(rule string) {
	c.Rep.rule(rule, "E6", "persistent/distributed Add returns true only where the adapter's Enqueue returned true", 4)
	for _, f := range c.submitFuncs() {
		if !c.P.containsCall(f, c.jsonKey()) {
			continue
		}
		for _, sg := range c.submitSegments(f) {
			if sg.Kind != "path" || len(sg.Ret) != 1 {
				continue
			}
			if sg.Ret[0].isTrue() {
				c.Rep.check(sg.has("enqok=true"), rule, f.Short(), "true returned without an accepted Enqueue", sg.End, "true only after the adapter accepted", "Add reports acceptance although the adapter's Enqueue did not return true: the job is lost ["+strings.Join(sg.Syms, " ")+"]")
			} else {
				c.Rep.check(!sg.has("enqok=true"), rule, f.Short(), "false returned although the adapter accepted", sg.End, "false only when nothing was stored", "Add reports rejection although the adapter stored the job: it will run although the caller was told it would not ["+strings.Join(sg.Syms, " ")+"]")
			}
		}
	}
}

// nonNilOnPath: v is a known non-nil error, or a token the path tested non-nil.
func nonNilOnPath(sg Segment, v Value) bool {
	return isNonNilErr(v) || (v.Kind == VTok && sg.has(v.S+"=nonnil"))
}

func (c *Ctx) jsonKey() string {
	if f := c.methodOf(c.R.JobT, "Json"); f != nil {
		return f.Key
	}
	return "?"
}

// ---------------------------------------------------------------- C12

func runC12(c *Ctx) {
	c.ruleStatusTablesInverse("R12.1")
	c.ruleWireType("R12.2")
	c.ruleEncodeFailure("R12.3")
	c.ruleDecodeFailure("R12.4")
	// the id a stored job carries is the one the bound worker's generator (or WithJobId) chose
	c.Rep.rule("R12.5", "def-use + reachability", "persistent queues load job configs per job from the bound worker's configuration (also through helpers)", 4)
	c.ruleJobConfigsPerJob("R12.5", c.P.FuncByKey("loadJobConfigs"))
	c.ruleDefaultConfigsUnreachable("R12.5", c.P.FuncByKey("loadJobConfigs"))
	// ... and it is stored as given: id and data are written only in the constructors, WithJobId stores its argument
	// unchanged, the wire struct is filled from exactly those fields
	c.ruleIdentityImmutable("R12.6")
}

func (c *Ctx) ruleStatusTablesInverse(rule string) {
	R := c.R
	c.Rep.rule(rule, "E7 table", "Status() and parseToJob's status switch are inverse bijections on the five states; the reader's default returns an error", 6)
	w := c.jobStatus()
	parse := c.P.FuncByKey("parseToJob")
	if parse == nil {
		c.Rep.undecided(rule, "parseToJob", "missing", "", "parseToJob not found")
		return
	}
	// the reader's table is extracted by evaluating parseToJob with the stored status string bound to each name in turn
	// (constant propagation through whatever switch, helper or table the decoder uses): on the paths that return no
	// error the status stored into the new job must be the state whose name it is; an unknown name has no such path
	statusField := ""
	ast.Inspect(parse.Body, func(n ast.Node) bool {
		if sel, ok := n.(*ast.SelectorExpr); ok && sel.Sel.Name == "Status" {
			if fk := selField(parse.Info(), sel); fk != "" && strings.Contains(fk, "jobView") {
				statusField = fk
			}
		}
		return true
	})
	if statusField == "" {
		c.Rep.undecided(rule, parse.Short(), "no status switch", c.P.pos(parse.Body), "parseToJob does not read the stored status string (jobView.Status)")
		return
	}
	evalName := func(name string) (stored map[string]bool, okPaths int) {
		stored = map[string]bool{}
		sr := &seqRule{c: c, rule: rule, trackField: R.FJobStatus}
		sr.exprVal = func(fr *Frame, e ast.Expr) (Value, bool) {
			if sel, ok := ast.Unparen(e).(*ast.SelectorExpr); ok && selField(fr.Fn.Info(), sel) == statusField {
				return Value{Kind: VConst, S: strconv.Quote(name)}, true
			}
			return Value{}, false
		}
		sr.classify = func(fr *Frame, call *ast.CallExpr, ce *Callee, args []Value) *callEvent {
			if ce.Key == "encoding/json.Unmarshal" {
				return &callEvent{Atomic: true, Results: []Value{{Kind: VNil}}}
			}
			return nil
		}
		for _, sg := range sr.segments(parse) {
			if sg.Kind != "path" || len(sg.Ret) != 2 || sg.Ret[1].Kind != VNil {
				continue
			}
			okPaths++
			stored[sg.T] = true
		}
		return
	}
	reader := map[string]string{}
	for _, name := range []string{"Created", "Queued", "Processing", "Finished", "Closed"} {
		st, n := evalName(name)
		if n > 0 && len(st) == 1 {
			for v := range st {
				reader[name] = v
			}
		} else if n > 0 {
			reader[name] = "?"
		}
	}
	// anything Status() never produces — an unknown word, the empty string (a missing field), another spelling —
	// must not decode
	defaultErr := true
	for _, bad := range []string{"no-such-status", "", "created", "CLOSED", " Queued"} {
		if _, n := evalName(bad); n > 0 {
			defaultErr = false
			c.Rep.fail(rule, parse.Short(), fmt.Sprintf("status %q accepted", bad), c.P.pos(parse.Body), fmt.Sprintf("parseToJob decodes an entry whose status is %q, a string Status() never writes: a damaged or foreign entry is run as a job instead of being reported", bad))
		}
	}
	for _, name := range []string{"Created", "Queued", "Processing", "Finished", "Closed"} {
		val, ok := w.ByName[name]
		if !ok {
			c.Rep.fail(rule, "job.Status", "status "+name+" has no string", "", "Status() does not produce \""+name+"\"")
			continue
		}
		got, has := reader[name]
		c.Rep.check(has && got == val, rule, parse.Short(), "status "+name+" does not round-trip", c.P.pos(parse.Body), fmt.Sprintf("%q written for %s and read back as %s", name, val, got),
			fmt.Sprintf("the status string %q written by Json() for state %s is read back by parseToJob as %q (missing or different state): a persisted job changes state (e.g. a Closed job runs, a Queued one is skipped)", name, val, got))
	}
	seen := map[string]string{}
	for s, v := range reader {
		if prev, dup := seen[v]; dup && v != "" {
			c.Rep.fail(rule, parse.Short(), "two strings map to one state", c.P.pos(parse.Body), fmt.Sprintf("%q and %q are both read as state %s", prev, s, v))
		}
		seen[v] = s
	}
	c.Rep.check(defaultErr, rule, parse.Short(), "unknown status accepted", c.P.pos(parse.Body), "an unknown status string has no error-free path", "parseToJob accepts an unknown status string instead of reporting the entry as undecodable")
	// decode error returns an error too
	sr := &seqRule{c: c, rule: rule}
	sr.classify = func(fr *Frame, call *ast.CallExpr, ce *Callee, args []Value) *callEvent {
		if ce.Key == "encoding/json.Unmarshal" {
			return &callEvent{Name: "unmarshal", Atomic: true, Results: tok("uerr")}
		}
		return nil
	}
	sr.condSym = func(fr *Frame, token, rel string) string { return token + "=" + rel }
	for _, sg := range sr.segments(parse) {
		if sg.Kind == "path" && sg.has("uerr=nonnil") {
			c.Rep.check(len(sg.Ret) == 2 && isNonNilErr(sg.Ret[1]), rule, parse.Short(), "decode error not returned", sg.End, "decode error is returned", "parseToJob swallows a JSON decode error")
		}
	}
}

func (c *Ctx) ruleWireType(rule string) {
	R := c.R
	c.Rep.rule(rule, "types", "one wire struct for both directions, distinct non-empty JSON names; Json fills Id/Payload from id/data; parseToJob passes view.Payload, view.Id on", 4)
	js := c.methodOf(R.JobT, "Json")
	parse := c.P.FuncByKey("parseToJob")
	if js == nil || parse == nil {
		c.Rep.undecided(rule, "-", "Json/parseToJob missing", "", "")
		return
	}
	var wOut, wIn *types.Named
	var outLit *ast.CompositeLit
	for _, cs := range c.P.calls(js) {
		if cs.Callee.Key == "encoding/json.Marshal" && len(cs.Call.Args) == 1 {
			wOut = namedOf(js.Info().TypeOf(cs.Call.Args[0]))
			if o := rootIdent(js.Info(), cs.Call.Args[0]); o != nil {
				ast.Inspect(js.Body, func(n ast.Node) bool {
					if as, ok := n.(*ast.AssignStmt); ok && len(as.Lhs) == 1 && rootIdent(js.Info(), as.Lhs[0]) == o {
						if cl, ok := ast.Unparen(as.Rhs[0]).(*ast.CompositeLit); ok {
							outLit = cl
						}
					}
					return true
				})
			}
		}
	}
	var viewVar types.Object
	for _, cs := range c.P.calls(parse) {
		if cs.Callee.Key == "encoding/json.Unmarshal" && len(cs.Call.Args) == 2 {
			t := parse.Info().TypeOf(cs.Call.Args[1])
			if p, ok := t.(*types.Pointer); ok {
				wIn = namedOf(p.Elem())
			}
			viewVar = rootIdent(parse.Info(), cs.Call.Args[1])
		}
	}
	same := wOut != nil && wIn != nil && wOut.Origin() == wIn.Origin()
	c.Rep.check(same, rule, "Json/parseToJob", "different wire types", c.P.pos(js.Body), "same wire struct marshalled and unmarshalled", "Json() and parseToJob use different struct types: field names or shapes can drift apart")
	if wOut != nil {
		if st, ok := wOut.Underlying().(*types.Struct); ok {
			names := map[string]bool{}
			good := true
			for i := 0; i < st.NumFields(); i++ {
				tag := st.Tag(i)
				name := ""
				if j := strings.Index(tag, `json:"`); j >= 0 {
					name = tag[j+6:]
					name = name[:strings.Index(name, `"`)]
					name = strings.Split(name, ",")[0]
				}
				if name == "" {
					name = st.Field(i).Name()
				}
				if name == "-" || names[strings.ToLower(name)] || !st.Field(i).Exported() {
					good = false
				}
				// a dropping option (omitempty, omitzero) or a re-typing one (string) makes the encoder leave out or
				// rewrite some values — an empty non-nil slice or map payload comes back as nil, a zero id is lost
				if j := strings.Index(tag, `json:"`); j >= 0 {
					opts := tag[j+6:]
					opts = opts[:strings.Index(opts, `"`)]
					for k, o := range strings.Split(opts, ",") {
						if k > 0 && o != "" {
							c.Rep.fail(rule, shortKey(qualTypeName(wOut)), "wire field "+st.Field(i).Name()+" has the JSON option "+o, "",
								"the wire struct field "+st.Field(i).Name()+" carries the JSON option `"+o+"`: some values are omitted or rewritten by the encoder and decode to something else (an empty, non-nil slice or map payload decodes as nil)")
						}
					}
				}
				names[strings.ToLower(name)] = true
			}
			c.Rep.check(good && st.NumFields() >= 3, rule, shortKey(qualTypeName(wOut)), "wire struct field names clash or are hidden", "", "three exported fields with distinct JSON names", "the wire struct's fields must be exported with pairwise distinct JSON names (a clash silently drops id, status or payload)")
		}
	}
	if outLit != nil {
		info := js.Info()
		var idOK, payloadOK bool
		for _, el := range outLit.Elts {
			kvx, ok := el.(*ast.KeyValueExpr)
			if !ok {
				continue
			}
			key, _ := kvx.Key.(*ast.Ident)
			if key == nil {
				continue
			}
			v := ast.Unparen(kvx.Value)
			if selField(info, v) == R.FJobData && c.isReceiverField(js, v) {
				payloadOK = true
			}
			if selField(info, v) == R.FJobId && c.isReceiverField(js, v) {
				idOK = true
			}
			if call, ok := v.(*ast.CallExpr); ok && jobMethod(info, call, resolveCallee(info, call)) == "ID" && c.isReceiverField(js, call.Fun) {
				idOK = true
			}
		}
		c.Rep.check(idOK && payloadOK, rule, js.Short(), "Json does not encode the job's own id and data", c.P.pos(outLit), "Id from the job's id, Payload from its data", "Json() must encode the receiver's own id and data")
	} else {
		c.Rep.undecided(rule, js.Short(), "wire literal not found", c.P.pos(js.Body), "cannot find the composite literal that is marshalled")
	}
	// parseToJob: constructor gets view.Payload and view.Id
	if viewVar != nil {
		info := parse.Info()
		good := false
		ast.Inspect(parse.Body, func(n ast.Node) bool {
			call, ok := n.(*ast.CallExpr)
			if !ok {
				return true
			}
			g := c.P.byObj[resolveCallee(info, call).Key]
			if g == nil || !c.isConstructor(g) || len(call.Args) != 2 {
				return true
			}
			payload := false
			if sel, ok := ast.Unparen(call.Args[0]).(*ast.SelectorExpr); ok && rootIdent(info, sel.X) == viewVar && sel.Sel.Name == "Payload" {
				payload = true
			}
			id := false
			ast.Inspect(call.Args[1], func(m ast.Node) bool {
				if sel, ok := m.(*ast.SelectorExpr); ok && rootIdent(info, sel.X) == viewVar && sel.Sel.Name == "Id" {
					id = true
				}
				return true
			})
			if payload && id {
				good = true
			}
			return true
		})
		c.Rep.check(good, rule, parse.Short(), "decoded id/payload not passed to the constructor", c.P.pos(parse.Body), "constructor receives view.Payload and view.Id", "parseToJob must build the job from the decoded payload and id")
	}
}

func (c *Ctx) ruleEncodeFailure(rule string) {
	c.Rep.rule(rule, "E2 path", "persistent/distributed Add: encode error ⇒ false without Enqueue; the value enqueued is the Json() result", 8)
	jk := c.jsonKey()
	n := 0
	// a submit function "encodes" when it calls Json() itself or through a helper of the library
	var reachesJson func(f *Func, depth int) *Func
	reachesJson = func(f *Func, depth int) *Func {
		if c.P.containsCall(f, jk) {
			return f
		}
		if depth == 0 {
			return nil
		}
		for _, cs := range c.P.calls(f) {
			if g := c.P.byObj[cs.Callee.Key]; g != nil && g.Lib && g != f && g.Pkg.PkgPath == modPath && g.Decl != nil && g.Decl.Recv == nil {
				if h := reachesJson(g, depth-1); h != nil {
					return g
				}
			}
		}
		return nil
	}
	for _, f := range c.submitFuncs() {
		enc := reachesJson(f, 2)
		if enc == nil {
			continue
		}
		n++
		for _, sg := range c.submitSegments(f) {
			if sg.Kind != "path" {
				continue
			}
			desc := "[" + strings.Join(sg.Syms, " ") + "]"
			if sg.has("jsonerr=nonnil") {
				c.Rep.check(!sg.has("enq") && !sg.has("Submitted") && !sg.has("notify") && len(sg.Ret) == 1 && sg.Ret[0].isFalse(), rule, f.Short(), "encode failure has effects", sg.End, "encode error: false, nothing enqueued",
					"a payload that cannot be encoded must be rejected with no effect: "+desc)
			}
			if sg.has("enq") {
				c.Rep.check(sg.before("jsonerr=nil", "enq"), rule, f.Short(), "Enqueue before the encode-error test", sg.End, "encode error tested (nil) before Enqueue", "the job is enqueued before the encode error was tested: "+desc)
			}
		}
		// enqueued value is the Json() result
		info := f.Info()
		var jv types.Object
		ast.Inspect(f.Body, func(x ast.Node) bool {
			as, ok := x.(*ast.AssignStmt)
			if !ok || len(as.Rhs) != 1 {
				return true
			}
			call, ok := ast.Unparen(as.Rhs[0]).(*ast.CallExpr)
			if !ok {
				return true
			}
			switch k := resolveCallee(info, call).Key; {
			case k == jk && len(as.Lhs) == 2:
				jv = rootIdent(info, as.Lhs[0])
			case enc != f && k == enc.Key:
				// the helper's result position that carries the bytes Json() produced
				var hv types.Object
				ast.Inspect(enc.Body, func(y ast.Node) bool {
					if has, ok := y.(*ast.AssignStmt); ok && len(has.Rhs) == 1 && len(has.Lhs) == 2 {
						if hc, ok := ast.Unparen(has.Rhs[0]).(*ast.CallExpr); ok && resolveCallee(enc.Info(), hc).Key == jk {
							hv = rootIdent(enc.Info(), has.Lhs[0])
						}
					}
					return true
				})
				for i, kind := range helperResultKinds(enc, func(o types.Object) string {
					if o == hv && hv != nil {
						return "json"
					}
					return ""
				}) {
					if kind == "json" && i < len(as.Lhs) {
						jv = rootIdent(info, as.Lhs[i])
					}
				}
			}
			return true
		})
		for _, cs := range c.P.calls(f) {
			if cs.Callee.Key == kEnqueueQ || cs.Callee.Key == kEnqueuePQ {
				o := rootIdent(info, cs.Call.Args[0])
				_, isId := ast.Unparen(cs.Call.Args[0]).(*ast.Ident)
				c.Rep.check(jv != nil && o == jv && isId, rule, f.Short(), "enqueued value is not the encoded job", c.P.pos(cs.Call), "Enqueue(Json() result)", "what is stored in the adapter must be exactly the bytes Json() produced for this job")
			}
		}
	}
	if n == 0 {
		c.Rep.undecided(rule, "-", "no encoding Add", "", "no submit function encodes its job")
	}
}

func (c *Ctx) ruleDecodeFailure(rule string) {
	R := c.R
	c.Rep.rule(rule, "E2 path", "decode/cast failures return a non-nil error from the step; decoded jobs get their queue before the hand-off; the dispatcher reports and continues", 4)
	if R.Step == nil {
		return
	}
	parse := c.P.FuncByKey("parseToJob")
	v := c.vocab([]string{"deq", "deqok=", "handoff", "setqueue", "parse", "perr="}, map[string]bool{"handoff": true})
	sr := v.seq(rule, false)
	_ = parse
	sawParse := false
	for _, sg := range sr.segments(R.Step) {
		if sg.Kind != "path" {
			continue
		}
		desc := "[" + strings.Join(sg.Syms, " ") + "]"
		if sg.has("perr=nonnil") {
			sawParse = true
			c.Rep.check(len(sg.Ret) == 1 && nonNilOnPath(sg, sg.Ret[0]) && !sg.has("handoff"), rule, R.Step.Short(), "decode failure not returned as an error", sg.End, "decode failure → non-nil error, no hand-off", "an entry that cannot be decoded must make the step return a non-nil error (so that it is reported) and must not be handed off: "+desc)
		}
		if sg.has("parse") && sg.has("handoff") {
			c.Rep.check(sg.has("setqueue") && sg.index("setqueue") < sg.index("handoff") && sg.has("perr=nil"), rule, R.Step.Short(), "decoded job handed off without its queue", sg.End, "decoded job gets its queue before the hand-off", "a decoded job must have its queue attached before the hand-off (otherwise it can never be acknowledged): "+desc)
		}
		if sg.has("deqok=false") {
			c.Rep.check(len(sg.Ret) == 1 && isNonNilErr(sg.Ret[0]), rule, R.Step.Short(), "failed dequeue not returned as an error", sg.End, "failed dequeue → non-nil error", "a failed dequeue must be an error return of the step: "+desc)
		}
	}
	c.Rep.check(sawParse, rule, R.Step.Short(), "no decode-failure path", c.P.pos(R.Step.Body), "the step has a decode-failure path", "the step never tests the decode error")
	c.ruleDispatcherLoop(rule)
}

// ---------------------------------------------------------------- C13

func runC13(c *Ctx) {
	c.ruleDistributedBinders("R13.1")
	c.Rep.rule("R13.2", "E2 path", "handler: one Submitted + notify per 'enqueued', nothing for other actions; distributed Add touches no worker", 4)
	hs := c.subscriptionHandlers()
	if len(hs) == 0 {
		c.Rep.undecided("R13.2", "-", "no subscription handler", "", "nothing is passed to Subscribe")
	}
	for _, h := range hs {
		c.handlerSegments("R13.2", h, false)
		c.handlerSegments("R13.2", h, true)
	}
	for _, f := range c.submitFuncs() {
		if c.hasWorker(f) {
			continue
		}
		em := c.emitsSync(f)
		c.Rep.check(!em["Submitted"] && !em["notify"], "R13.2", f.Short(), "distributed Add touches a worker", c.P.pos(f.Body), "producer-side Add touches no worker metrics", "a producer-side distributed Add must not count submissions or notify: consumers do that when the adapter announces the item")
	}
	c.ruleDecodeFailure("R13.3")
	c.ruleNotifyAfterChange("R13.4")
	// an announcement only drives the consumer if the wake-up is really attempted: the send on the signal channel is
	// tried under the (blocking) read lock on every call, never skipped because a lock was busy or a status was seen
	c.ruleProtectedSends("R13.5")
}

func (c *Ctx) ruleDistributedBinders(rule string) {
	c.Rep.rule(rule, "E6 siblings", "each distributed binder: exactly one Register(adapter) and one Subscribe(handler), both before exactly one start", 2)
	// a distributed binder: a method taking an adapter that can be subscribed to
	var binders []*Func
	for _, f := range c.P.pkgFuncs(modPath) {
		if f.Obj == nil || f.Decl.Recv == nil || f.Body == nil {
			continue
		}
		sig := f.Obj.Type().(*types.Signature)
		for i := 0; i < sig.Params().Len(); i++ {
			ms := types.NewMethodSet(sig.Params().At(i).Type())
			for j := 0; j < ms.Len(); j++ {
				if ms.At(j).Obj().Name() == "Subscribe" {
					binders = appendUnique(binders, f)
				}
			}
		}
	}
	for _, f := range filterPkg(c.P.funcsCalling(kSubscribe), modPath) {
		binders = appendUnique(binders, f)
	}
	if len(binders) == 0 {
		c.Rep.undecided(rule, "-", "no distributed binder", "", "nothing calls Subscribe")
	}
	hs := c.subscriptionHandlers()
	for _, f := range binders {
		v := c.vocab([]string{"register", "start", "subscribe"}, map[string]bool{"start": true})
		for _, sg := range v.seq(rule, false).segments(f) {
			if sg.Kind != "path" {
				continue
			}
			good := sg.count("register") == 1 && sg.count("start") == 1 && sg.count("subscribe") == 1 && sg.index("register") < sg.index("start") && sg.index("subscribe") < sg.index("start")
			c.Rep.check(good, rule, f.Short(), "bind wiring", sg.End, "Register and Subscribe, then start, once each",
				"a distributed binder must register the adapter and subscribe its handler, each exactly once, and only then start the worker: the wake-up start() raises is the only one that covers items already on the adapter and items announced while the bind is in progress — an adapter registered after it is not seen, an item announced between the start-up pass and a later Subscribe is announced to nobody: ["+strings.Join(sg.Syms, " ")+"]")
		}
		// arguments: Register(adapter param), Subscribe(handler of this worker)
		info := f.Info()
		var param types.Object
		if f.Type.Params != nil && len(f.Type.Params.List) == 1 && len(f.Type.Params.List[0].Names) == 1 {
			param = info.ObjectOf(f.Type.Params.List[0].Names[0])
		}
		ast.Inspect(f.Body, func(n ast.Node) bool {
			call, ok := n.(*ast.CallExpr)
			if !ok {
				return true
			}
			switch resolveCallee(info, call).Key {
			case kRegister:
				c.Rep.check(len(call.Args) == 1 && rootIdent(info, call.Args[0]) == param && param != nil, rule, f.Short(), "Register argument is not the adapter being bound", c.P.pos(call), "Register(adapter)", "the binder must register the adapter it was given")
			case kSubscribe:
				ok := false
				if sel, isSel := ast.Unparen(call.Args[0]).(*ast.SelectorExpr); isSel {
					if s, isM := info.Selections[sel]; isM {
						if fn, isF := s.Obj().(*types.Func); isF {
							for _, h := range hs {
								if h.Key == funcKey(fn) && c.isReceiverField(f, sel.X) {
									ok = true
								}
							}
						}
					}
				}
				recvOK := rootIdent(info, call.Fun) == param
				c.Rep.check(ok && recvOK, rule, f.Short(), "Subscribe wiring", c.P.pos(call), "adapter.Subscribe(this worker's handler)", "the binder must subscribe this worker's own handler on the adapter it was given")
			}
			return true
		})
	}
}
