package main

import (
	"fmt"
	"go/ast"
	"go/constant"
	"go/token"
	"go/types"
	"os"
	"sort"
	"strings"
)

func init() {
	register(&propDef{
		ID: "C14",
		Info: propInfo{
			Technique:   "finite-domain status propagation: the lifecycle methods and every public bind method are extracted as a sequential transition table and compared with the documented machine",
			Explanation: "(R14.1) for each of Pause, PauseAndWait, Resume, Stop, WaitAndStop, Restart, TunePool, start and every public Bind*/With* method, from each of the four states, every reachable (returned error, final status, ordered effects) equals the documented machine: errors, state changes, 'spawn a run' only from Initiated, 'fresh run' in Restart, no effect where the machine says none; (R14.2) whenever the run's channels are closed the path ends Stopped or re-makes both channels before going on, and constructors create both channels, so Running/Paused imply live channels; (R14.3) the context listener stops the worker only after comparing its own context with the worker's current one under the lock (or every cancel happens in state Stopped), so Restart's cancel of the previous run cannot stop the new one; (R14.4) Status() maps the four constants to the four documented strings and IsRunning/IsPaused/IsStopped are true exactly on their state.",
			NotDecided:  []string{"concurrent control calls (the machine is sequential)", "the asynchronous listener beyond R14.3", "that a Running worker actually processes jobs (C03)"},
			Assumptions: []string{"one control call at a time"},
		},
		Run: runC14,
	})
	register(&propDef{
		ID: "C15",
		Info: propInfo{
			Technique:   "path counting over the bind methods + table extraction of the strategy switch and comparators + lockset",
			Explanation: "(R15.1) along every path of every public Bind*/With* method the queue is registered with the worker's manager exactly once, and what is registered is the queue being bound; (R15.2) next() maps RoundRobin/MaxLen/MinLen to the matching selector and anything else to an error; (R15.3) the round-robin cursor is written only under the manager's write lock, only as (cursor+1) mod len(items) or a reset to 0, the item returned is the one at the pre-increment cursor and it is returned only when non-empty, and the scan ends after one full cycle; (R15.4) the MaxLen comparator's sign equals the sign of Len(a)-Len(b) on all order types, the MinLen update condition is l>0 and (none yet or l<min), and both report ErrAllItemsEmpty when nothing is non-empty; (R15.5) the item list only grows by append in Register and nothing in the library unregisters.",
			NotDecided:  []string{"fairness over time under concurrent submissions", "stability of a foreign adapter's Len() between selection and dequeue"},
			Assumptions: []string{"slices.MaxFunc returns a maximal element for a consistent comparator"},
		},
		Run: runC15,
	})
}

type expectCell struct {
	errs    []string // allowed returned errors
	final   string   // "" = unchanged
	need    []string // effects that must occur (in this order)
	between []string // effects that must all occur, in any order, after need[0] and before the last element of need
	forbid  []string // effects that must not occur
	noFx    bool     // no effect at all (other than those listed in allow)
	allow   []string // with noFx: effects that are permitted nevertheless
}

func runC14(c *Ctx) {
	c.ruleLifecycleTable("R14.1")
	c.ruleChannelsLive("R14.2")
	c.ruleListenerHarmless("R14.3")
	c.ruleStatusStrings("R14.4")
	c.ruleContextRetiredAtomically("R14.5")
	c.ruleOptionsAllApplied("R14.6")
	c.ruleLifecycleVsListener("R14.7")
	c.ruleListenerAlwaysStops("R14.8")
}

func orderedSubseq(effects, need []string) bool {
	i := 0
	for _, e := range effects {
		if i < len(need) && e == need[i] {
			i++
		}
	}
	return i == len(need)
}

func (c *Ctx) ruleLifecycleTable(rule string) {
	c.Rep.rule(rule, "E3 lifecycle table", "every (method, initial state) cell equals the documented machine", 36)
	spawn := []string{"go:dispatcher", "newnode", "push", "wstatus:Running", "notify"}
	fresh := append([]string{"closechans", "make(signal)", "make(err)", "wstatus:Initiated"}, spawn...)
	teardown := []string{"wait", "wstatus:Stopped"}
	tearSet := []string{"stoptickers", "closechans", "stopall"}
	spawnFx := []string{"go:dispatcher", "go:reaper", "go:listener", "newnode", "push"}
	ref := map[string]map[string]expectCell{
		"Pause": {
			"Initiated": {errs: []string{"ErrNotRunningWorker"}, noFx: true},
			"Running":   {errs: []string{"nil"}, final: "Paused", need: []string{"wstatus:Paused"}, forbid: append([]string{"wait", "closechans", "stopall"}, spawnFx...)},
			"Paused":    {errs: []string{"nil"}, noFx: true},
			"Stopped":   {errs: []string{"nil"}, noFx: true},
		},
		"PauseAndWait": {
			"Initiated": {errs: []string{"ErrNotRunningWorker"}, noFx: true},
			"Running":   {errs: []string{"nil"}, final: "Paused", need: []string{"wstatus:Paused", "wait"}, forbid: append([]string{"closechans", "stopall"}, spawnFx...)},
			"Paused":    {errs: []string{"nil"}, need: []string{"wait"}, forbid: append([]string{"closechans", "stopall", "wstatus:Running", "wstatus:Stopped"}, spawnFx...)},
			"Stopped":   {errs: []string{"nil"}, forbid: append([]string{"closechans", "stopall", "wstatus:Running", "wstatus:Paused"}, spawnFx...)},
		},
		"Resume": {
			"Initiated": {errs: []string{"nil"}, final: "Running", need: spawn, forbid: []string{"closechans", "stopall"}},
			"Running":   {errs: []string{"ErrRunningWorker"}, noFx: true},
			"Paused":    {errs: []string{"nil"}, final: "Running", need: []string{"wstatus:Running", "notify"}, forbid: append([]string{"closechans", "stopall", "wait"}, spawnFx...)},
			"Stopped":   {errs: []string{"ErrNotRunningWorker"}, noFx: true},
		},
		"Stop": {
			"Initiated": {errs: []string{"ErrNotRunningWorker"}, noFx: true},
			"Running":   {errs: []string{"nil"}, final: "Stopped", need: teardown, between: tearSet, forbid: spawnFx},
			"Paused":    {errs: []string{"nil"}, final: "Stopped", need: teardown, between: tearSet, forbid: spawnFx},
			"Stopped":   {errs: []string{"nil"}, noFx: true},
		},
		"WaitAndStop": {
			"Initiated": {errs: []string{"ErrNotRunningWorker"}, forbid: append([]string{"closechans", "stopall", "wstatus:Stopped", "wstatus:Running", "wstatus:Paused"}, spawnFx...)},
			"Running":   {errs: []string{"nil"}, final: "Stopped", need: teardown, between: tearSet, forbid: spawnFx},
			"Paused":    {errs: []string{"nil"}, final: "Stopped", need: teardown, between: tearSet, forbid: spawnFx},
			"Stopped":   {errs: []string{"nil"}, forbid: append([]string{"closechans", "stopall", "wstatus:Running", "wstatus:Paused"}, spawnFx...)},
		},
		"Restart": {
			"Initiated": {errs: []string{"nil"}, final: "Running", need: fresh},
			"Running":   {errs: []string{"nil"}, final: "Running", need: append([]string{"wait", "stopall"}, fresh...)},
			"Paused":    {errs: []string{"nil"}, final: "Running", need: append([]string{"wait", "stopall"}, fresh...)},
			"Stopped":   {errs: []string{"nil"}, final: "Running", need: fresh},
		},
		"TunePool": {
			"Initiated": {errs: []string{"ErrNotRunningWorker"}, noFx: true},
			"Running":   {errs: []string{"nil", "ErrSameConcurrency"}, forbid: append([]string{"closechans", "wstatus:Paused", "wstatus:Stopped", "wstatus:Initiated", "wait"}, "go:dispatcher", "go:reaper", "go:listener")},
			"Paused":    {errs: []string{"ErrNotRunningWorker"}, noFx: true},
			"Stopped":   {errs: []string{"ErrNotRunningWorker"}, noFx: true},
		},
		"start": {
			"Initiated": {errs: []string{"nil"}, final: "Running", need: spawn, forbid: []string{"closechans", "stopall"}},
			// reached when a further queue is bound to a running worker: the queue may already hold items, the
			// dispatcher has to be told (and nothing else happens)
			"Running": {errs: []string{"ErrRunningWorker", "ErrNotRunningWorker"}, noFx: true, need: []string{"notify"}, allow: []string{"notify"}},
			"Paused":  {errs: []string{"ErrRunningWorker", "ErrNotRunningWorker"}, noFx: true},
			"Stopped": {errs: []string{"ErrRunningWorker", "ErrNotRunningWorker"}, noFx: true},
		},
	}
	t := c.lifecycle()
	for m, cells := range ref {
		found := false
		for _, tm := range t.Methods {
			if tm == m {
				found = true
			}
		}
		if !found {
			c.Rep.undecided(rule, m, "method missing", "", "lifecycle method "+m+" not found")
			continue
		}
		for _, s := range t.States {
			exp := cells[s]
			outs := t.cell(m, s)
			if len(outs) == 0 {
				c.Rep.undecided(rule, m, "no outcome from "+s, "", "the walker found no path")
				continue
			}
			for _, o := range outs {
				c.checkCell(rule, m, s, exp, o)
			}
		}
	}
	// public bind methods: binding never changes the state, except that the first bind starts the worker
	ws := c.workerStatus()
	for _, f := range c.bindMethods() {
		for _, s := range t.States {
			v := c.vocab(lifecycleVocab, map[string]bool{"wait": true, "stopall": true, "stoptickers": true, "closechans": true, "newnode": true, "release": true})
			v.also = map[string]bool{"wstatus?": true}
			sr := v.seq(rule, false)
			sr.trackField = c.R.FStatus
			sr.init = kv("").set("T", ws.ByName[s])
			n := 0
			for _, sg := range sr.segments(f) {
				if sg.Kind != "path" {
					continue
				}
				n++
				final := ws.ByVal[sg.T]
				var eff []string
				for _, x := range sg.Syms {
					if !strings.HasPrefix(x, "loop@") {
						eff = append(eff, x)
					}
				}
				o := cellOutcome{Err: "void", Final: final, Effects: eff, End: sg.End}
				exp := expectCell{errs: []string{"void"}, noFx: true}
				if s == "Running" {
					// the bound queue may already hold items: the running worker's dispatcher is woken, nothing else
					exp = expectCell{errs: []string{"void"}, noFx: true, need: []string{"notify"}, allow: []string{"notify"}}
				}
				if s == "Initiated" {
					exp = expectCell{errs: []string{"void"}, final: "Running", need: spawn, forbid: []string{"closechans", "stopall"}}
				}
				c.checkCell(rule, f.Short(), s, exp, o)
			}
			if n == 0 {
				c.Rep.undecided(rule, f.Short(), "no outcome from "+s, "", "the walker found no path")
			}
		}
	}
}

func (c *Ctx) checkCell(rule, m, s string, exp expectCell, o cellOutcome) {
	wantFinal := exp.final
	if wantFinal == "" {
		wantFinal = s
	}
	errOK := false
	for _, e := range exp.errs {
		if e == o.Err {
			errOK = true
		}
	}
	var problems []string
	if !errOK {
		problems = append(problems, fmt.Sprintf("returns %s (documented: %s)", o.Err, strings.Join(exp.errs, " or ")))
	}
	if o.Final != wantFinal {
		problems = append(problems, fmt.Sprintf("ends %s (documented: %s)", o.Final, wantFinal))
	}
	if len(exp.need) > 0 && !orderedSubseq(o.Effects, exp.need) {
		problems = append(problems, "does not perform, in order: "+strings.Join(exp.need, " → "))
	}
	if len(exp.between) > 0 && len(exp.need) >= 2 {
		lo, hi := o.idx(exp.need[0]), -1
		for i, e := range o.Effects {
			if e == exp.need[len(exp.need)-1] {
				hi = i
			}
		}
		for _, b := range exp.between {
			if i := o.idx(b); i < 0 || i < lo || (hi >= 0 && i > hi) {
				problems = append(problems, "does not perform "+b+" between "+exp.need[0]+" and "+exp.need[len(exp.need)-1])
			}
		}
	}
	for _, f := range exp.forbid {
		if o.has(f) {
			problems = append(problems, "performs "+f)
		}
	}
	if exp.noFx {
		for _, e := range o.Effects {
			ok := e == "release"
			for _, a := range exp.allow {
				if a == e {
					ok = true
				}
			}
			if !ok {
				problems = append(problems, "has effect "+e)
			}
		}
	}
	inst := fmt.Sprintf("%s from %s: %s", m, s, o)
	c.Rep.check(len(problems) == 0, rule, m, "from "+s+" deviates from the documented state machine", o.End, inst,
		fmt.Sprintf("%s called in state %s %s [extracted: %s]", m, s, strings.Join(problems, "; "), o))
}

// bindMethods: exported Bind*/With* methods of the binder types.
func (c *Ctx) bindMethods() []*Func {
	var out []*Func
	for _, f := range c.P.pkgFuncs(modPath) {
		if f.Obj == nil || f.Decl.Recv == nil || !f.Obj.Exported() {
			continue
		}
		n := f.Obj.Name()
		if !(strings.HasPrefix(n, "Bind") || strings.HasPrefix(n, "With")) {
			continue
		}
		// receiver reaches a worker (embeds *worker)
		st := structOf(f.Obj.Type().(*types.Signature).Recv().Type())
		if st == nil {
			continue
		}
		emb := false
		for i := 0; i < st.NumFields(); i++ {
			if nn := namedOf(st.Field(i).Type()); nn != nil && nn.Origin() == c.R.WorkerT {
				emb = true
			}
		}
		if emb {
			out = append(out, f)
		}
	}
	sort.Slice(out, func(i, j int) bool { return out[i].Key < out[j].Key })
	return out
}

func (c *Ctx) ruleChannelsLive(rule string) {
	R := c.R
	c.Rep.rule(rule, "E3 invariant", "closed channels are either final (Stopped) or re-made before the method goes on; constructors create both channels", 5)
	t := c.lifecycle()
	for _, m := range t.Methods {
		for _, s := range t.States {
			for _, o := range t.cell(m, s) {
				ci := o.idx("closechans")
				if ci < 0 {
					continue
				}
				remade := false
				ms, me := -1, -1
				for i, e := range o.Effects {
					if i > ci && e == "make(signal)" {
						ms = i
					}
					if i > ci && e == "make(err)" {
						me = i
					}
				}
				remade = ms > 0 && me > 0
				// nothing that needs the channels may happen between the close and the re-make
				good := o.Final == "Stopped" || remade
				if remade {
					for i, e := range o.Effects {
						if i > ci && (i < ms || i < me) && (e == "go:dispatcher" || e == "wstatus:Running" || e == "notify") {
							good = false
						}
					}
				}
				c.Rep.check(good, rule, m, "channels closed and not re-made (from "+s+")", o.End, fmt.Sprintf("%s from %s: %s", m, s, o),
					fmt.Sprintf("%s from %s closes the run's channels and then neither ends Stopped nor re-makes both before starting: a worker reported Running/Paused would have nil channels (notify and errors silently dropped, dispatcher blocked for ever): %s", m, s, o))
			}
		}
	}
	// constructors
	n := 0
	for _, f := range c.P.pkgFuncs(modPath) {
		if f.Body == nil {
			continue
		}
		info := f.Info()
		ast.Inspect(f.Body, func(x ast.Node) bool {
			cl, ok := x.(*ast.CompositeLit)
			if !ok || namedOf(info.TypeOf(cl)) == nil || namedOf(info.TypeOf(cl)).Origin() != R.WorkerT {
				return true
			}
			n++
			made := map[string]bool{}
			for _, el := range cl.Elts {
				if kvx, ok := el.(*ast.KeyValueExpr); ok {
					if key, _ := kvx.Key.(*ast.Ident); key != nil {
						if call, ok := ast.Unparen(kvx.Value).(*ast.CallExpr); ok && resolveCallee(info, call).Builtin == "make" {
							made[qualTypeName(R.WorkerT)+"."+key.Name] = true
						}
					}
				}
			}
			c.Rep.check(made[R.FSignal] && made[R.FErr], rule, f.Short(), "worker constructed without its channels", c.P.pos(cl), "both channels made at construction", "a worker is constructed without its signal or error channel")
			return true
		})
	}
	if n == 0 {
		c.Rep.undecided(rule, "-", "no worker literal", "", "no composite literal of the worker struct found")
	}
}

func (c *Ctx) ruleListenerHarmless(rule string) {
	R := c.R
	c.Rep.rule(rule, "E2+E3", "the context listener stops the worker only for its own context, or every cancel happens in state Stopped", 1)
	if R.Listener == nil {
		c.Rep.ok(rule, "no context listener goroutine", "", "nothing to check", false)
		return
	}
	info := R.Listener.Info()
	var param types.Object
	if R.Listener.Type.Params != nil && len(R.Listener.Type.Params.List) == 1 && len(R.Listener.Type.Params.List[0].Names) == 1 {
		param = info.ObjectOf(R.Listener.Type.Params.List[0].Names[0])
	}
	if param == nil {
		// a callback without parameter (context.AfterFunc): the context it belongs to is a captured local of
		// the spawner that is compared with the worker's current context
		ast.Inspect(R.Listener.Body, func(n ast.Node) bool {
			be, op := binOp2(n)
			if be == nil || (op != token.EQL && op != token.NEQ) {
				return true
			}
			for _, side := range [][2]ast.Expr{{be.X, be.Y}, {be.Y, be.X}} {
				if selField(info, side[0]) == R.FCtx {
					if o := rootIdent(info, side[1]); o != nil && isNamed(o.Type(), "context.Context") {
						param = o
					}
				}
			}
			return true
		})
	}
	stop := c.methodOf(R.WorkerT, "Stop")
	sr := &seqRule{c: c, rule: rule}
	sr.classify = func(fr *Frame, call *ast.CallExpr, ce *Callee, args []Value) *callEvent {
		if stop != nil && c.P.roleKeys(stop)[ce.Key] {
			return &callEvent{Name: "Stop", Atomic: true}
		}
		if l, op := mutexOp(fr.Fn.Info(), call, ce); op != "" && l == R.FMx {
			return &callEvent{Name: "lock" + op, Atomic: true}
		}
		return nil
	}
	cmpVars := map[types.Object]bool{}
	cmpNeg := map[types.Object]bool{} // the local holds "is NOT the current one" (stale := w.ctx != c)
	// current := w.ctx == c   (under the lock)
	ast.Inspect(R.Listener.Body, func(n ast.Node) bool {
		if as, ok := n.(*ast.AssignStmt); ok && len(as.Lhs) == 1 && len(as.Rhs) == 1 {
			if isCtxCompare(info, as.Rhs[0], R.FCtx, param) {
				cmpVars[rootIdent(info, as.Lhs[0])] = true
				if be, _ := binOp(as.Rhs[0]); be != nil && be.Op == token.NEQ {
					cmpNeg[rootIdent(info, as.Lhs[0])] = true
				}
			}
		}
		return true
	})
	sr.visit = func(fr *Frame, n ast.Node) string {
		if as, ok := n.(*ast.AssignStmt); ok && len(as.Lhs) == 1 && cmpVars[rootIdent(info, as.Lhs[0])] && fr.Caller == nil {
			return "compare"
		}
		return ""
	}
	sr.condExpr = func(fr *Frame, e ast.Expr, branch bool, ip *Interp, st *State) string {
		if fr.Caller != nil {
			return ""
		}
		if id, ok := ast.Unparen(e).(*ast.Ident); ok && cmpVars[info.ObjectOf(id)] {
			return fmt.Sprintf("current=%v", branch != cmpNeg[info.ObjectOf(id)])
		}
		if isCtxCompare(info, e, R.FCtx, param) {
			be, _ := binOp(e)
			return fmt.Sprintf("current=%v", (be.Op == token.EQL) == branch)
		}
		return ""
	}
	guarded := true
	sawStop := false
	for _, sg := range sr.segments(R.Listener) {
		if !sg.has("Stop") {
			continue
		}
		sawStop = true
		ok := sg.before("current=true", "Stop")
		if ci := sg.index("compare"); ci >= 0 {
			// the comparison reads w.ctx: it must sit between lock and unlock
			li := -1
			for i, s := range sg.Syms[:ci] {
				if s == "lockR" || s == "lockW" {
					li = i
				}
				if s == "lock-R" || s == "lock-W" {
					li = -1
				}
			}
			if li < 0 {
				ok = false
			}
		}
		if !ok {
			guarded = false
		}
	}
	// alternative: every cancel in the lifecycle table happens while the status is Stopped
	allStopped := true
	t := c.lifecycle()
	for _, m := range t.Methods {
		for _, s := range t.States {
			for _, o := range t.cell(m, s) {
				cur := s
				for _, e := range o.Effects {
					if strings.HasPrefix(e, "wstatus:") {
						cur = e[len("wstatus:"):]
					}
					if e == "cancel" && cur != "Stopped" {
						allStopped = false
					}
				}
			}
		}
	}
	// the listener is spawned only once the worker is Running: a context that is already done makes it call Stop()
	// at once, and Stop() refuses (and the listener gives up) while the status is still Initiated
	for _, m := range t.Methods {
		for _, s := range t.States {
			for _, o := range t.cell(m, s) {
				li := o.idx("go:listener")
				if li < 0 {
					continue
				}
				ri := -1
				for i, e := range o.Effects[:li] {
					if e == "wstatus:Running" {
						ri = i
					}
					if strings.HasPrefix(e, "wstatus:") && e != "wstatus:Running" {
						ri = -1
					}
				}
				c.Rep.check(ri >= 0, rule, m, "context listener spawned before the worker is Running (from "+s+")", o.End, "Running stored, then the listener spawned",
					fmt.Sprintf("%s from %s spawns the context listener while the status is not yet Running: if the context is already cancelled the listener's Stop() is refused (ErrNotRunningWorker) and nobody stops the worker afterwards (%s)", m, s, o))
			}
		}
	}
	c.Rep.check(!sawStop || guarded || allStopped, rule, R.Listener.Short(), "listener stops the worker unconditionally", c.P.pos(R.Listener.Body),
		"Stop() only after the listener's context was compared with the worker's current one under the lock",
		"the context listener calls Stop() on the worker without checking that its context is still the worker's current one, and Restart cancels the previous context while the worker is not Stopped: the listener of the old run stops the run Restart has just started")
}

func isCtxCompare(info *types.Info, e ast.Expr, fctx string, param types.Object) bool {
	be, op := binOp(e)
	if be == nil || (op != token.EQL && op != token.NEQ) {
		return false
	}
	a, b := be.X, be.Y
	if selField(info, b) == fctx {
		a, b = b, a
	}
	return selField(info, a) == fctx && param != nil && rootIdent(info, b) == param
}

func (c *Ctx) ruleStatusStrings(rule string) {
	R := c.R
	c.Rep.rule(rule, "E7 table", "Status() yields the four documented strings; IsRunning/IsPaused/IsStopped are true exactly on their state", 16)
	ws := c.workerStatus()
	vals := map[string]bool{}
	for _, n := range []string{"Initiated", "Running", "Paused", "Stopped"} {
		v, ok := ws.ByName[n]
		c.Rep.check(ok && !vals[v], rule, "worker.Status", "status string "+n, "", "Status() produces \""+n+"\" for a distinct state", "Status() does not produce the documented string \""+n+"\" (or two strings share a state)")
		vals[v] = true
	}
	for pred, state := range map[string]string{"IsRunning": "Running", "IsPaused": "Paused", "IsStopped": "Stopped"} {
		f := c.methodOf(R.WorkerT, pred)
		if f == nil {
			c.Rep.undecided(rule, pred, "missing", "", pred+" not found")
			continue
		}
		for _, s := range []string{"Initiated", "Running", "Paused", "Stopped"} {
			te := &tableEval{c: c, leaf: c.predicateLeaves(s, 0, 0)}
			res, ok := te.call(f, nil)
			inst := fmt.Sprintf("%s() in state %s", pred, s)
			if !ok || len(res) != 1 || !res[0].IsBool {
				c.Rep.undecided(rule, f.Short(), inst, c.P.pos(f.Body), "not evaluable: "+te.why)
				break
			}
			c.Rep.check(res[0].B == (s == state), rule, f.Short(), inst, c.P.pos(f.Body), fmt.Sprintf("%s = %v", inst, s == state), fmt.Sprintf("%s returns %v", inst, res[0].B))
		}
	}
}

// ---------------------------------------------------------------- C15

func runC15(c *Ctx) {
	c.ruleRegisteredOnce("R15.1")
	c.ruleStrategyTable("R15.2")
	c.ruleCursor("R15.3")
	c.Rep.rule("R15.6", "E2 path + status propagation", "the dispatcher step selects a queue only on paths that dequeue from it", 1)
	c.ruleSelectionDequeues("R15.6")
	c.ruleLenComparators("R15.4")
	c.ruleBindingOrder("R15.5")
	// the selector's cursor lives in the queue manager: a copy of it loses every advance
	c.ruleNoStateCopies("R15.7")
	// a failed visit costs only that queue its turn: the dispatcher goes on with the next selection
	c.ruleDispatcherLoop("R15.8")
}

func (c *Ctx) ruleRegisteredOnce(rule string) {
	c.Rep.rule(rule, "path count", "every public Bind*/With* method registers the queue being bound exactly once on every path", 10)
	binds := c.bindMethods()
	if len(binds) == 0 {
		c.Rep.undecided(rule, "-", "no bind method", "", "no exported Bind*/With* method found")
	}
	for _, f := range binds {
		v := c.vocab([]string{"register"}, nil)
		for _, sg := range v.seq(rule, false).segments(f) {
			if sg.Kind != "path" {
				continue
			}
			n := sg.count("register")
			c.Rep.check(n == 1, rule, f.Short(), fmt.Sprintf("queue registered %d times", n), sg.End, "exactly one Register on this path",
				fmt.Sprintf("%s registers its queue %d time(s) with the worker (must be exactly once: 0 = never dispatched, 2 = pending counted twice and visited twice per round-robin cycle)", f.Short(), n))
		}
	}
	// what is registered is the queue handed to the constructor / binder
	for _, cs := range c.P.allCalls(false) {
		if cs.Callee.Key != kRegister || cs.In.Pkg.PkgPath != modPath || len(cs.Call.Args) != 1 {
			continue
		}
		o := rootIdent(cs.In.Info(), cs.Call.Args[0])
		c.Rep.check(o != nil && isParamOf(cs.In, o), rule, cs.In.Short(), "Register argument is not the queue being bound", c.P.pos(cs.Call), "Register(the queue parameter)", "what is registered with the worker must be the queue this function was given to bind")
	}
}

// ruleSelectionDequeues: the dispatcher step selects a queue (which advances the round-robin cursor) only on
// paths that go on to dequeue from it; backing out after the selection makes that queue lose its turn.
func (c *Ctx) ruleSelectionDequeues(rule string) {
	R := c.R
	next := c.P.FuncByKey("queueManager.next")
	if R.Step == nil || next == nil {
		return
	}
	v := c.vocab([]string{"deq", "select", "qerr="}, nil)
	sr := v.seq(rule, false)
	base := sr.classify
	sr.classify = func(fr *Frame, call *ast.CallExpr, ce *Callee, args []Value) *callEvent {
		if ce.Key == next.Key {
			return &callEvent{Name: "select", Atomic: true, Results: []Value{{Kind: VTok, S: "queue"}, {Kind: VTok, S: "qerr"}}}
		}
		return base(fr, call, ce, args)
	}
	sr.trackField = R.FStatus
	for _, st := range []string{"Running", "Paused", "Stopped"} {
		sr.init = kv("").set("T", c.workerStatus().ByName[st])
		for _, sg := range sr.segments(R.Step) {
			if sg.Kind != "path" || !sg.has("select") {
				continue
			}
			c.Rep.check(sg.has("deq") || sg.has("qerr=nonnil"), rule, R.Step.Short(), "queue selected but not dequeued (status "+st+")", sg.End, "selection is followed by a dequeue from the selected queue",
				"with the worker "+st+" the dispatcher step selects a queue (advancing the round-robin cursor) and then backs out without dequeuing from it: that queue silently loses its turn ["+strings.Join(sg.Syms, " ")+"]")
		}
	}
}

func (c *Ctx) ruleStrategyTable(rule string) {
	c.Rep.rule(rule, "E7 table", "next(): RoundRobin/MaxLen/MinLen → matching selector; anything else → error", 4)
	next := c.P.FuncByKey("queueManager.next")
	if next == nil {
		c.Rep.undecided(rule, "queueManager.next", "missing", "", "next() not found")
		return
	}
	// the strategy domain is finite: next() is evaluated (E7) for every declared Strategy constant and for a value that
	// is none of them; however the dispatch is written (switch, if-chain, through a local) each constant must reach its
	// selector and anything else an error.
	want := map[string]string{"RoundRobin": "GetRoundRobinItem", "MaxLen": "GetMaxLenItem", "MinLen": "GetMinLenItem"}
	type sv struct {
		name string
		val  int64
	}
	var domain []sv
	used := map[int64]bool{}
	scope := next.Pkg.Types.Scope()
	for _, nm := range scope.Names() {
		if k, ok := scope.Lookup(nm).(*types.Const); ok {
			if named, ok := k.Type().(*types.Named); ok && named.Obj().Name() == "Strategy" && named.Obj().Pkg() == next.Pkg.Types {
				if v, ok := constant.Int64Val(k.Val()); ok {
					domain = append(domain, sv{nm, v})
					used[v] = true
				}
			}
		}
	}
	other := int64(0)
	for used[other] {
		other++
	}
	domain = append(domain, sv{"", other})
	for k := range want {
		found := false
		for _, d := range domain {
			found = found || d.name == k
		}
		if !found {
			c.Rep.undecided(rule, next.Short(), "strategy "+k, c.P.pos(next.Body), "Strategy constant "+k+" not declared")
		}
	}
	for _, d := range domain {
		te := &tableEval{c: c}
		te.leaf = func(g *Func, e ast.Expr) (tval, bool) {
			if selField(g.Info(), e) == modPath+".queueManager.strategy" {
				return tval{I: d.val}, true
			}
			if call, ok := e.(*ast.CallExpr); ok {
				if ce := resolveCallee(g.Info(), call); ce.Fn != nil && strings.HasPrefix(ce.Key, modPath+"/internal/helpers.Manager.Get") {
					return tval{Obj: "sel:" + ce.Fn.Name()}, true
				}
			}
			return tval{}, false
		}
		res, ok := te.call(next, nil)
		inst := "strategy " + d.name
		if d.name == "" {
			inst = "unknown strategy"
		}
		if !ok || len(res) == 0 {
			c.Rep.undecided(rule, next.Short(), inst, c.P.pos(next.Body), "next() not evaluable: "+te.why)
			continue
		}
		if w, isWant := want[d.name]; isWant {
			c.Rep.check(len(res) == 1 && res[0].Obj == "sel:"+w, rule, next.Short(), inst, c.P.pos(next.Body), d.name+" → "+w, fmt.Sprintf("strategy %s selects with %v instead of %s", d.name, res, w))
		} else if d.name == "" {
			c.Rep.check(len(res) == 2 && !res[1].IsNil, rule, next.Short(), inst, c.P.pos(next.Body), "unknown strategy → error", "an unknown strategy value must yield an error")
		}
	}
}

func (c *Ctx) ruleCursor(rule string) {
	c.Rep.rule(rule, "E2+E4", "round-robin cursor: written under the manager's write lock, only with values derived as 0 / cursor / (cursor value+1)%len(items); the item returned is a registered item found non-empty on that path; the all-empty error is reachable", 5)
	mgr := modPath + "/internal/helpers.Manager"
	fIdx, fItems := mgr+".roundRobinIndex", mgr+".items"
	lf := c.lockFacts()
	for _, a := range lf.Accesses {
		if a.Field == fIdx && a.Write && !a.Private {
			c.Rep.check(a.Locks[mgr+".mx"] == "W", rule, a.Fn.Short(), "cursor written without the manager's write lock", c.P.posOf(a.Pos), "cursor written under Manager.mx (W)", "the round-robin cursor is written without the manager's write lock (two dispatchers' selections interleave; also a data race)")
		}
	}
	rr := c.P.byObj[mgr+".GetRoundRobinItem"]
	if rr == nil {
		c.Rep.undecided(rule, "Manager.GetRoundRobinItem", "missing", "", "")
		return
	}
	info := rr.Info()
	// assignments to the cursor
	for _, f := range c.P.Funcs {
		if f.Body == nil {
			continue
		}
		ast.Inspect(f.Body, func(n ast.Node) bool {
			as, ok := n.(*ast.AssignStmt)
			if !ok {
				return true
			}
			for i, l := range as.Lhs {
				if selField(f.Info(), l) != fIdx || i >= len(as.Rhs) {
					continue
				}
				rhs := ast.Unparen(as.Rhs[i])
				// a cursor value is 0, the cursor itself, (cursor value + 1) % number of items, or a local that only
				// ever holds such values (the scan may run on locals and publish the cursor before it returns)
				var isCount, cursorVal func(e ast.Expr, depth int) bool
				inProgress := map[types.Object]bool{}
				isCount = func(e ast.Expr, depth int) bool {
					e = ast.Unparen(e)
					if call, ok := e.(*ast.CallExpr); ok && resolveCallee(f.Info(), call).Builtin == "len" && len(call.Args) == 1 && selField(f.Info(), call.Args[0]) == fItems {
						return true
					}
					if id, ok := e.(*ast.Ident); ok && depth > 0 {
						if obj := f.Info().ObjectOf(id); obj != nil {
							all, n := assignedOnlyFrom(f, obj, func(r ast.Expr, idx, cnt int) bool { return isCount(r, depth-1) })
							return all && n > 0
						}
					}
					return false
				}
				cursorVal = func(e ast.Expr, depth int) bool {
					e = ast.Unparen(e)
					if tv := f.Info().Types[e]; tv.Value != nil && tv.Value.ExactString() == "0" {
						return true
					}
					if selField(f.Info(), e) == fIdx {
						return true
					}
					if be, ok := e.(*ast.BinaryExpr); ok && be.Op == token.REM && isCount(be.Y, 2) {
						if inner, ok := ast.Unparen(be.X).(*ast.BinaryExpr); ok && inner.Op == token.ADD && cursorVal(inner.X, depth) {
							if tv := f.Info().Types[inner.Y]; tv.Value != nil && tv.Value.ExactString() == "1" {
								return true
							}
						}
					}
					if id, ok := e.(*ast.Ident); ok && depth > 0 {
						if obj := f.Info().ObjectOf(id); obj != nil {
							// a local that is being examined is assumed good (next = (next+1)%n): the claim is about all its
							// assignments together
							if inProgress[obj] {
								return true
							}
							inProgress[obj] = true
							all, n := assignedOnlyFrom(f, obj, func(r ast.Expr, idx, cnt int) bool { return cursorVal(r, depth-1) })
							delete(inProgress, obj)
							return all && n > 0
						}
					}
					return false
				}
				good := cursorVal(rhs, 3)
				c.Rep.check(good, rule, f.Short(), "cursor update", c.P.pos(as), "cursor = (cursor+1) % len(items), or 0", "the round-robin cursor must advance by exactly one modulo the number of items (or be reset to 0)")
				if tv := f.Info().Types[rhs]; tv.Value != nil && tv.Value.ExactString() == "0" {
					// a reset is only needed (and only fair) where items are removed: it keeps the cursor in bounds. A
					// function that only ever appends to the items has no reason to touch the cursor, and resetting it
					// there sends the rotation back to the first queue whenever a queue is bound
					removes := false
					ast.Inspect(f.Body, func(m ast.Node) bool {
						as2, ok := m.(*ast.AssignStmt)
						if !ok {
							return true
						}
						for j, l2 := range as2.Lhs {
							if selField(f.Info(), l2) != fItems || j >= len(as2.Rhs) {
								continue
							}
							grow := false
							if call, ok := ast.Unparen(as2.Rhs[j]).(*ast.CallExpr); ok && resolveCallee(f.Info(), call).Builtin == "append" && len(call.Args) >= 1 && selField(f.Info(), call.Args[0]) == fItems {
								grow = true
							}
							if !grow {
								removes = true
							}
						}
						return true
					})
					c.Rep.check(removes, rule, f.Short(), "cursor reset where no item is removed", c.P.pos(as), "cursor reset only together with the removal of an item",
						f.Short()+" resets the round-robin cursor although it does not remove an item: every call (e.g. each further Bind on a running worker) sends the rotation back to the first-bound queue, later queues are starved")
				}
			}
			return true
		})
	}
	// the selection: what is returned without an error is an element of the items whose Len() was found > 0 on that
	// path (the element is followed as a value: m.items[...] is the token "items[]", however the scan keeps its
	// position); some path reports the all-empty error. Not decided structurally: that the scan visits every item once
	// and in cursor order (an algorithmic property of the loop, see "does not decide").
	// positions are followed symbolically as offsets from the cursor the call started with: the cursor field reads
	// "c+k" (what was last stored, "c+0" at entry), (p+1)%len(items) of "c+k" is "c+(k+1)", m.items[p] of "c+k" is the
	// item "item@c+k" (offsets above 2 are merged into "*", which makes the loop converge). However the scan is
	// written — on the field or on locals, bounded or not — an item handed out from position c+k must leave the cursor
	// at c+(k+1).
	// a position that is not a constant offset from the cursor (start+i for a loop counter i, ...) is named after the
	// expression that computes it: "p#<where>"; one past it is "p#<where>+1".
	isPos := func(v Value) bool {
		return v.Kind == VTok && (strings.HasPrefix(v.S, "c+") || strings.HasPrefix(v.S, "p#"))
	}
	bump := func(t string) string {
		switch {
		case t == "c+0":
			return "c+1"
		case t == "c+1":
			return "c+2"
		case strings.HasPrefix(t, "p#") && !strings.HasSuffix(t, "+1") && !strings.HasSuffix(t, "+*"):
			return t + "+1"
		case strings.HasPrefix(t, "p#"):
			return strings.TrimSuffix(strings.TrimSuffix(t, "+1"), "+*") + "+*"
		}
		return "c+*"
	}
	isCountExpr := func(fr *Frame, e ast.Expr) bool {
		fi := fr.Fn.Info()
		e = ast.Unparen(e)
		if call, ok := e.(*ast.CallExpr); ok && resolveCallee(fi, call).Builtin == "len" && len(call.Args) == 1 && selField(fi, call.Args[0]) == fItems {
			return true
		}
		if id, ok := e.(*ast.Ident); ok {
			if obj := fi.ObjectOf(id); obj != nil {
				all, n := assignedOnlyFrom(fr.Fn, obj, func(r ast.Expr, idx, cnt int) bool {
					call, ok := ast.Unparen(r).(*ast.CallExpr)
					return ok && resolveCallee(fi, call).Builtin == "len" && len(call.Args) == 1 && selField(fi, call.Args[0]) == fItems
				})
				return all && n > 0
			}
		}
		return false
	}
	sr := &seqRule{c: c, rule: rule}
	sr.init = kv("").set("T", "c+0")
	sr.fieldStore = func(ip *Interp, fr *Frame, st *State, sel *ast.SelectorExpr, v Value) *State {
		if selField(fr.Fn.Info(), sel) != fIdx {
			return st
		}
		t := "?"
		if isPos(v) {
			t = v.S
		}
		if v.Kind == VConst && v.S == "0" {
			t = "zero"
		}
		return st.WithDom(st.Dom.(kv).set("T", t))
	}
	sr.exprValSt = func(ip *Interp, fr *Frame, st *State, e ast.Expr) (Value, bool) {
		fi := fr.Fn.Info()
		switch x := ast.Unparen(e).(type) {
		case *ast.SelectorExpr:
			switch selField(fi, x) {
			case fIdx:
				return Value{Kind: VTok, S: st.Dom.(kv).get("T")}, true
			case fItems:
				return Value{Kind: VTok, S: "items"}, true
			}
		case *ast.BinaryExpr:
			if x.Op == token.REM && isCountExpr(fr, x.Y) {
				if inner, ok := ast.Unparen(x.X).(*ast.BinaryExpr); ok && inner.Op == token.ADD {
					if pv := ip.pureValue(fr, st, inner.X); isPos(pv) {
						if tv := fi.Types[inner.Y]; tv.Value != nil && tv.Value.ExactString() == "1" {
							return Value{Kind: VTok, S: bump(pv.S)}, true
						}
						return Value{Kind: VTok, S: "p#" + c.P.pos(x)}, true
					}
				}
			}
		case *ast.IndexExpr:
			if selField(fi, x.X) == fItems {
				if pv := ip.pureValue(fr, st, x.Index); isPos(pv) {
					return Value{Kind: VTok, S: "item@" + pv.S}, true
				}
				return Value{Kind: VTok, S: "item@?"}, true
			}
		}
		return Value{}, false
	}
	sr.classify = func(fr *Frame, call *ast.CallExpr, ce *Callee, args []Value) *callEvent {
		if ce.Fn != nil && ce.Fn.Name() == "Len" && ce.RecvVal.Kind == VTok && (ce.RecvVal.S == "items[]" || strings.HasPrefix(ce.RecvVal.S, "item@")) {
			return &callEvent{Atomic: true, Results: tok("ilen")}
		}
		if ce.Builtin != "" || ce.Conv {
			return nil
		}
		return &callEvent{Atomic: true}
	}
	sr.condExpr = func(fr *Frame, e ast.Expr, branch bool, ip *Interp, st *State) string {
		be, op := binOp(e)
		if be == nil {
			return ""
		}
		x, y := be.X, be.Y
		if v := ip.pureValue(fr, st, y); v.Kind == VTok && v.S == "ilen" {
			x, y = y, x
			switch op {
			case token.LSS:
				op = token.GTR
			case token.GTR:
				op = token.LSS
			case token.LEQ:
				op = token.GEQ
			case token.GEQ:
				op = token.LEQ
			}
		}
		isLen := false
		if v := ip.pureValue(fr, st, x); v.Kind == VTok && v.S == "ilen" {
			isLen = true
		} else if call, ok := ast.Unparen(x).(*ast.CallExpr); ok {
			if ce := resolveCallee(fr.Fn.Info(), call); ce.Fn != nil && ce.Fn.Name() == "Len" && ce.Recv != nil {
				if rv := ip.pureValue(fr, st, ce.Recv); rv.Kind == VTok && (rv.S == "items[]" || strings.HasPrefix(rv.S, "item@")) {
					isLen = true
				}
			}
		}
		if !isLen {
			return ""
		}
		if tv := fr.Fn.Info().Types[y]; tv.Value == nil || tv.Value.ExactString() != "0" {
			return ""
		}
		switch op {
		case token.GTR, token.NEQ:
			return fmt.Sprintf("nonempty=%v", branch)
		case token.LEQ, token.EQL:
			return fmt.Sprintf("nonempty=%v", !branch)
		}
		return ""
	}
	selected, allEmpty := 0, false
	for _, sg := range sr.segments(rr) {
		if os.Getenv("VARMQLINT_DEBUGSEQ") != "" {
			fmt.Fprintf(os.Stderr, "R15.3 seg kind=%s loop=%v exit=%v how=%s syms=%v ret=%v T=%s end=%s\n", sg.Kind, sg.Loop, sg.Exit, sg.How, sg.Syms, sg.Ret, sg.T, sg.End)
		}
		if sg.Kind != "path" || len(sg.Ret) != 2 {
			continue
		}
		if sg.Ret[1].Kind == VNil {
			selected++
			isItem := sg.Ret[0].Kind == VTok && (sg.Ret[0].S == "items[]" || strings.HasPrefix(sg.Ret[0].S, "item@"))
			ok := isItem && sg.has("nonempty=true")
			c.Rep.check(ok, rule, rr.Short(), "scan step", sg.End, "returns a registered item found non-empty on this path",
				"round-robin selection returns, without an error, something that is not a registered item whose Len() was found > 0 on that path: ["+strings.Join(sg.Syms, " ")+"]")
			// the cursor is left one past the item handed out
			if isItem && (strings.HasPrefix(sg.Ret[0].S, "item@c+") || strings.HasPrefix(sg.Ret[0].S, "item@p#")) {
				pos := sg.Ret[0].S[len("item@"):]
				if !strings.HasSuffix(pos, "+*") {
					c.Rep.check(sg.T == bump(pos) || (pos == "c+2" && sg.T == "c+*"), rule, rr.Short(), "cursor update", sg.End, "item from position "+pos+" leaves the cursor at "+bump(pos),
						"round-robin selection hands out the item at position "+pos+" (relative to the cursor it started with) and leaves the cursor at "+sg.T+" instead of one past that item: the next selection starts from the wrong queue (the same queue is served again, or queues are skipped)")
				}
			}
		} else if isNonNilErr(sg.Ret[1]) {
			allEmpty = true
		}
	}
	if selected == 0 {
		c.Rep.undecided(rule, rr.Short(), "no scan loop", c.P.pos(rr.Body), "GetRoundRobinItem has no path that returns an item")
	}
	c.Rep.check(allEmpty, rule, rr.Short(), "scan does not stop after one cycle", c.P.pos(rr.Body), "some path reports that all items are empty", "the round-robin scan never reports the all-empty error (with nothing to select it would spin for ever holding the manager lock)")
	_ = info
}

func (c *Ctx) ruleLenComparators(rule string) {
	c.Rep.rule(rule, "E7 table", "MaxLen comparator sign = sign(Len(a)-Len(b)); MinLen keeps the smallest positive length; both report all-empty", 8)
	mgr := modPath + "/internal/helpers.Manager"
	maxF := c.P.byObj[mgr+".GetMaxLenItem"]
	if maxF != nil {
		var cmp *Func
		for _, cs := range c.P.calls(maxF) {
			if cs.Callee.Key == "slices.MaxFunc" && len(cs.Call.Args) == 2 {
				if lit, ok := ast.Unparen(cs.Call.Args[1]).(*ast.FuncLit); ok {
					cmp = c.P.byLit[lit]
				}
			}
		}
		if cmp == nil {
			c.Rep.undecided(rule, maxF.Short(), "comparator", c.P.pos(maxF.Body), "GetMaxLenItem does not select with slices.MaxFunc and a literal comparator")
		} else {
			info := cmp.Info()
			var pa, pb types.Object
			var names []*ast.Ident
			for _, fld := range cmp.Type.Params.List {
				names = append(names, fld.Names...)
			}
			if len(names) == 2 {
				pa, pb = info.ObjectOf(names[0]), info.ObjectOf(names[1])
			}
			for _, p := range [][2]int64{{0, 1}, {1, 1}, {2, 1}, {0, 0}, {5, 1000}} {
				te := &tableEval{c: c}
				te.leaf = func(g *Func, e ast.Expr) (tval, bool) {
					if call, ok := e.(*ast.CallExpr); ok {
						if ce := resolveCallee(g.Info(), call); ce.Fn != nil && ce.Fn.Name() == "Len" && ce.Recv != nil {
							switch rootIdent(g.Info(), ce.Recv) {
							case pa:
								return tval{I: p[0]}, true
							case pb:
								return tval{I: p[1]}, true
							}
						}
					}
					return tval{}, false
				}
				res, ok := te.call(cmp, nil)
				inst := fmt.Sprintf("MaxLen comparator with Len(a)=%d Len(b)=%d", p[0], p[1])
				if !ok || len(res) != 1 || res[0].IsBool {
					c.Rep.undecided(rule, cmp.Short(), inst, c.P.pos(cmp.Body), "comparator not evaluable: "+te.why)
					break
				}
				sign := func(x int64) int {
					switch {
					case x < 0:
						return -1
					case x > 0:
						return 1
					}
					return 0
				}
				c.Rep.check(sign(res[0].I) == sign(p[0]-p[1]), rule, cmp.Short(), inst, c.P.pos(cmp.Body), fmt.Sprintf("%s has sign %d", inst, sign(p[0]-p[1])),
					fmt.Sprintf("%s yields %d; MaxLen needs the sign of Len(a)-Len(b) (otherwise the shortest queue is picked)", inst, res[0].I))
			}
		}
		c.allEmptyError(rule, maxF)
	}
	minF := c.P.byObj[mgr+".GetMinLenItem"]
	if minF != nil {
		c.ruleMinLenScan(rule, minF, mgr)
		c.allEmptyError(rule, minF)
	}
}

// allEmptyError: the function has a path returning the all-empty error.
func (c *Ctx) allEmptyError(rule string, f *Func) {
	found := false
	ast.Inspect(f.Body, func(n ast.Node) bool {
		if ret, ok := n.(*ast.ReturnStmt); ok && len(ret.Results) == 2 {
			if o := rootIdent(f.Info(), ret.Results[1]); o != nil && o.Name() == "ErrAllItemsEmpty" {
				found = true
			}
		}
		return true
	})
	c.Rep.check(found, rule, f.Short(), "no all-empty error", c.P.pos(f.Body), "reports ErrAllItemsEmpty when nothing is non-empty", f.Short()+" never reports that all queues are empty: the dispatcher would dequeue from an empty queue")
}

func (c *Ctx) ruleBindingOrder(rule string) {
	c.Rep.rule(rule, "E1", "items only grows by append in Register; nothing in the library unregisters", 2)
	mgr := modPath + "/internal/helpers.Manager"
	fItems := mgr + ".items"
	reg := c.P.byObj[kRegister]
	for _, f := range c.P.Funcs {
		if f.Body == nil {
			continue
		}
		ast.Inspect(f.Body, func(n ast.Node) bool {
			as, ok := n.(*ast.AssignStmt)
			if !ok {
				return true
			}
			for i, l := range as.Lhs {
				target := l
				indexed := false
				if ix, ok := ast.Unparen(l).(*ast.IndexExpr); ok {
					target, indexed = ix.X, true
				}
				if selField(f.Info(), target) != fItems {
					continue
				}
				if c.lockFactsReached(f) == false {
					continue // dead code (never reached from an entry point)
				}
				good := false
				if f == reg && !indexed && i < len(as.Rhs) {
					if call, ok := ast.Unparen(as.Rhs[i]).(*ast.CallExpr); ok && resolveCallee(f.Info(), call).Builtin == "append" && len(call.Args) == 2 && selField(f.Info(), call.Args[0]) == fItems {
						good = true
					}
				}
				c.Rep.check(good, rule, f.Short(), "item list modified other than by append in Register", c.P.pos(as), "items = append(items, item) in Register", "the manager's item list is reordered or shrunk: round-robin no longer follows the binding order")
			}
			return true
		})
	}
	n := c.whoMayCall(rule, "Manager.UnregisterItem", keyIn(kUnregister), func(*Func) bool { return false }, "nobody in the library")
	if n == 0 {
		c.Rep.ok(rule, "UnregisterItem has no caller in the library", "", "call sites enumerated", false)
	}
}

func (c *Ctx) lockFactsReached(f *Func) bool {
	return c.lockFacts().Reached[f.Root().Key]
}

func binOp2(n ast.Node) (*ast.BinaryExpr, token.Token) {
	if e, ok := n.(ast.Expr); ok {
		return binOp(e)
	}
	return nil, token.ILLEGAL
}

// ruleContextRetiredAtomically: the listener of a run decides "is this still my context?" by comparing under the
// worker's lock (R14.3). That comparison only protects the next run if the previous context is cancelled in the same
// critical section (write mode) in which the worker's context field is replaced: a cancel that happens before the
// replacement, outside that section, lets the old listener wake up, still find its own context installed, and stop
// the worker that is being restarted.
func (c *Ctx) ruleContextRetiredAtomically(rule string) {
	R := c.R
	c.Rep.rule(rule, "E2 path + lock bracket", "wherever a lifecycle method replaces the worker's context, the previous cancel function is called inside the same write-locked section, before the replacement", 1)
	if R.Listener == nil || R.FCtx == "" {
		c.Rep.ok(rule, "no context listener goroutine", "", "nothing to check", false)
		return
	}
	n := 0
	for name, f := range c.lifecycleMethods() {
		v := c.vocab([]string{"cancel", "withcancel(ctx)", "set(ctx)", "make(ctx)"}, nil)
		sr := v.seq(rule, false)
		base := sr.classify
		sr.classify = func(fr *Frame, call *ast.CallExpr, ce *Callee, args []Value) *callEvent {
			if l, op := mutexOp(fr.Fn.Info(), call, ce); op != "" && l == R.FMx {
				return &callEvent{Name: "lock" + op, Atomic: true}
			}
			return base(fr, call, ce, args)
		}
		rel := sr.relevant
		sr.relevant = func(g *Func) bool { return rel == nil || rel(g) }
		for _, sg := range sr.segments(f) {
			if sg.Kind != "path" {
				continue
			}
			wi := sg.index("withcancel(ctx)")
			if wi < 0 {
				continue
			}
			n++
			// the write-locked section that contains the replacement
			start := -1
			for i := 0; i < wi; i++ {
				switch sg.Syms[i] {
				case "lockW":
					start = i
				case "lock-W":
					start = -1
				}
			}
			ci := -1
			for i := 0; i < wi; i++ {
				if sg.Syms[i] == "cancel" {
					ci = i
				}
			}
			good := start >= 0 && ci > start
			c.Rep.check(good, rule, name, "previous context cancelled outside the section that replaces it", sg.End, "lock, cancel, replace, unlock",
				name+" replaces the worker's context on a path where the previous cancel function is not called inside the same write-locked section, before the replacement: the previous run's listener can observe its context cancelled while it is still installed, and stops the worker that is being restarted ["+strings.Join(sg.Syms, " ")+"]")
		}
	}
	if n == 0 {
		c.Rep.ok(rule, "no lifecycle method replaces the context", "", "nothing to check", false)
	}
}

// ruleOptionsAllApplied: every configuration option handed to a constructor takes effect. Every library function with
// a variadic parameter of options (`...any`, `...ConfigFunc`) either ranges over the whole parameter — a loop without
// break or return, in which a ConfigFunc element is applied — on every path, or hands the parameter on, spread, to a
// function that does; it never looks at individual elements (config[i]) to decide something on its own.
func (c *Ctx) ruleOptionsAllApplied(rule string) {
	c.Rep.rule(rule, "E2 must-pass-through + def-use", "a variadic parameter of worker options is applied element by element on every path (or passed on, spread, to a function that does) and never indexed", 3)
	type vf struct {
		f *Func
		p types.Object
	}
	var fns []vf
	for _, f := range c.P.pkgFuncs(modPath) {
		if f.Body == nil || f.Type.Params == nil || len(f.Type.Params.List) == 0 {
			continue
		}
		last := f.Type.Params.List[len(f.Type.Params.List)-1]
		el, ok := last.Type.(*ast.Ellipsis)
		if !ok || len(last.Names) != 1 {
			continue
		}
		et := f.Info().TypeOf(el.Elt)
		if !(types.IsInterface(et) && et.Underlying().(*types.Interface).NumMethods() == 0) && qualTypeName(et) != modPath+".ConfigFunc" {
			continue
		}
		fns = append(fns, vf{f, f.Info().ObjectOf(last.Names[0])})
	}
	appliesAll := map[string]bool{}
	pathsOK := func(x vf) (bool, string, string) {
		info := x.f.Info()
		loops := map[string]bool{}
		ast.Inspect(x.f.Body, func(n ast.Node) bool {
			if rs, ok := n.(*ast.RangeStmt); ok {
				if id, ok := ast.Unparen(rs.X).(*ast.Ident); ok && info.ObjectOf(id) == x.p {
					loops[c.P.pos(rs)] = true
				}
			}
			return true
		})
		sr := &seqRule{c: c, rule: rule, noInline: func(*Func) bool { return true }}
		sr.classify = func(fr *Frame, call *ast.CallExpr, ce *Callee, args []Value) *callEvent {
			if fr.Caller != nil || !call.Ellipsis.IsValid() || len(call.Args) == 0 {
				return nil
			}
			if id, ok := ast.Unparen(call.Args[len(call.Args)-1]).(*ast.Ident); ok && info.ObjectOf(id) == x.p && appliesAll[ce.Key] {
				return &callEvent{Name: "applyall", Atomic: true}
			}
			return nil
		}
		for _, sg := range sr.segments(x.f) {
			if sg.Kind == "iter" && loops[sg.Loop] && (sg.Exit || sg.has("break") || sg.How == "exit") {
				return false, sg.End, "the loop over the options is left early"
			}
			if sg.Kind != "path" {
				continue
			}
			ok := sg.has("applyall")
			for l := range loops {
				if sg.has("loop@" + l) {
					ok = true
				}
			}
			if !ok {
				return false, sg.End, "a path returns without applying the options [" + strings.Join(sg.Syms, " ") + "]"
			}
		}
		return true, "", ""
	}
	// fixpoint: functions that range over their options, then functions that pass them on to those
	for changed := true; changed; {
		changed = false
		for _, x := range fns {
			if appliesAll[x.f.Key] {
				continue
			}
			if ok, _, _ := pathsOK(x); ok {
				appliesAll[x.f.Key] = true
				changed = true
			}
		}
	}
	for _, x := range fns {
		ok, pos, why := pathsOK(x)
		c.Rep.check(ok, rule, x.f.Short(), "options not applied on every path", pos, "every path applies every option",
			x.f.Short()+" takes a list of options but "+why+": some options given to the constructor are silently dropped (e.g. a context passed before a trailing concurrency value)")
		// no element-wise inspection
		info := x.f.Info()
		ast.Inspect(x.f.Body, func(n ast.Node) bool {
			if ix, ok := n.(*ast.IndexExpr); ok {
				if id, ok := ast.Unparen(ix.X).(*ast.Ident); ok && info.ObjectOf(id) == x.p {
					c.Rep.fail(rule, x.f.Short(), "option list indexed", c.P.pos(ix), x.f.Short()+" inspects a single element of its option list: a decision taken on one option bypasses the others")
				}
			}
			return true
		})
	}
	if len(fns) == 0 {
		c.Rep.undecided(rule, "-", "no variadic option parameter found", "", "no function with a variadic option parameter")
	}
}

// ruleLifecycleVsListener: with a configured context the library itself calls Stop() asynchronously (the context
// listener). Nothing serialises that call with the user's lifecycle calls, so (i) the listener's "is this still my
// context?" test is stale by the time its Stop() acts — a Stop();Restart() by the user in between gets the restarted
// worker stopped although its context was never cancelled — and (ii) every lifecycle method that tests the status and
// then writes it with a plain store can overwrite what the listener's Stop() stored in between (Resume storing Running
// over Stopped: a worker that reports Running with its channels torn down). Decided structurally: (i) the listener's
// Stop is reached after the lock that covered the comparison was released, and the callee is not given the listener's
// context to re-validate; (ii) plain stores of the status in Pause/Resume/Restart/start.
func (c *Ctx) ruleLifecycleVsListener(rule string) {
	R := c.R
	c.Rep.rule(rule, "E5 check-then-act", "with a context listener: its currency test and its Stop are atomic, and lifecycle methods change the status by compare-and-swap from the state they tested", 1)
	if R.Listener == nil {
		c.Rep.ok(rule, "no context listener goroutine", "", "nothing to check", false)
		return
	}
	stop := c.methodOf(R.WorkerT, "Stop")
	info := R.Listener.Info()
	// (i)
	var param types.Object
	if R.Listener.Type.Params != nil && len(R.Listener.Type.Params.List) == 1 && len(R.Listener.Type.Params.List[0].Names) == 1 {
		param = info.ObjectOf(R.Listener.Type.Params.List[0].Names[0])
	}
	for _, cs := range c.P.calls(R.Listener) {
		if stop == nil || !c.P.roleKeys(stop)[cs.Callee.Key] {
			continue
		}
		revalidates := false
		for _, a := range cs.Call.Args {
			if param != nil && rootIdent(info, a) == param {
				revalidates = true
			}
		}
		c.Rep.check(revalidates, rule, R.Listener.Short(), "currency test and Stop are not atomic", c.P.pos(cs.Call), "the stop operation re-validates the listener's context itself",
			"the context listener decides under the lock that its context is still the worker's current one, releases the lock and then calls Stop(): a Stop();Restart() by the user in that window (Stop's own cancel wakes the listener) lets the old run's listener stop the restarted worker although its context was never cancelled")
	}
	// (ii)
	lm := c.lifecycleMethods()
	for _, name := range []string{"Pause", "Resume", "Restart", "start"} {
		f := lm[name]
		if f == nil {
			continue
		}
		for _, cs := range c.P.calls(f) {
			if fk, m := atomicOp(f.Info(), cs.Call); fk == R.FStatus && m == "Store" {
				c.Rep.fail(rule, name, "status written by a plain store after a separate test", c.P.pos(cs.Call),
					name+" tests the worker status and later writes it with a plain store; the context listener's asynchronous Stop() is not serialised with it, so the store can overwrite what that Stop wrote in between (e.g. Resume storing Running over Stopped: the worker reports Running with its channels torn down and a cancelled context)")
			}
		}
	}
}

// ruleMinLenScan decides the MinLen selection on order types. The scan touches the queue lengths only through
// comparisons (with 0, with a sentinel, with each other), so which item it returns depends only on the order type of
// the lengths: the loop body and the statements around it are evaluated (E7) for every sequence of up to three items
// with lengths in {0,1,2,3} — every order type of three lengths, empty or not — and the item returned must be one of
// the non-empty items of minimal length (all empty: the error). How the scan keeps its best-so-far (a -1 sentinel, a
// found flag, the candidate's own Len()) does not matter.
func (c *Ctx) ruleMinLenScan(rule string, minF *Func, mgr string) {
	info := minF.Info()
	fItems := mgr + ".items"
	// the scan loop: a top-level range over the items or an index loop over them
	var pre, post []ast.Stmt
	var body *ast.BlockStmt
	var elem, key types.Object
	for i, s := range minF.Body.List {
		switch x := s.(type) {
		case *ast.RangeStmt:
			if selField(info, x.X) == fItems && body == nil {
				body = x.Body
				if x.Value != nil {
					elem = rootIdent(info, x.Value)
				}
				if x.Key != nil {
					key = rootIdent(info, x.Key)
				}
				pre, post = minF.Body.List[:i], minF.Body.List[i+1:]
			}
		case *ast.ForStmt:
			if iv := indexLoopVar(minF, x, func(e ast.Expr) bool { return selField(info, e) == fItems }); iv != nil && body == nil {
				body, key = x.Body, iv
				pre, post = minF.Body.List[:i], minF.Body.List[i+1:]
			}
		}
	}
	if body == nil {
		c.Rep.undecided(rule, minF.Short(), "MinLen scan", c.P.pos(minF.Body), "GetMinLenItem has no top-level loop over the items")
		return
	}
	var seqs [][]int64
	var gen func(cur []int64)
	gen = func(cur []int64) {
		if len(cur) > 0 {
			seqs = append(seqs, append([]int64(nil), cur...))
		}
		if len(cur) == 3 {
			return
		}
		for l := int64(0); l <= 3; l++ {
			gen(append(cur, l))
		}
	}
	gen(nil)
	for _, lens := range seqs {
		inst := fmt.Sprintf("MinLen over lengths %v", lens)
		te := &tableEval{c: c}
		label := func(j int64) string { return fmt.Sprintf("item:%d", j) }
		lenOf := func(v tval) (tval, bool) {
			var j int64
			if n, _ := fmt.Sscanf(v.Obj, "item:%d", &j); n == 1 && j >= 0 && int(j) < len(lens) {
				return tval{I: lens[j]}, true
			}
			return tval{}, false
		}
		te.effect = func(g *Func, call *ast.CallExpr) bool { return true } // locking and unlocking
		te.leafEnv = func(g *Func, e ast.Expr, env tenv) (tval, bool) {
			switch x := e.(type) {
			case *ast.CallExpr:
				ce := resolveCallee(g.Info(), x)
				if ce.Fn != nil && ce.Fn.Name() == "Len" && ce.Recv != nil && len(x.Args) == 0 {
					saved := te.why
					if rv, ok := te.expr(g, ce.Recv, env); ok {
						return lenOf(rv)
					}
					te.why = saved
				}
				if ce.Builtin == "len" && len(x.Args) == 1 && selField(g.Info(), x.Args[0]) == fItems {
					return tval{I: int64(len(lens))}, true
				}
			case *ast.IndexExpr:
				if selField(g.Info(), x.X) == fItems {
					saved := te.why
					if iv, ok := te.expr(g, x.Index, env); ok && !iv.IsBool && iv.Obj == "" && iv.I >= 0 && int(iv.I) < len(lens) {
						return tval{Obj: label(iv.I)}, true
					}
					te.why = saved
				}
			case *ast.StarExpr:
				// *new(T): the zero item
				if call, ok := ast.Unparen(x.X).(*ast.CallExpr); ok && resolveCallee(g.Info(), call).Builtin == "new" {
					return tval{Obj: "zero"}, true
				}
			}
			return tval{}, false
		}
		env := tenv{}
		decided := true
		var res []tval
		returned := false
		// statements before the loop (declarations of the scan's state; the early return for no items does not fire)
		for _, s := range pre {
			switch s.(type) {
			case *ast.DeferStmt, *ast.ExprStmt:
				continue
			}
			if _, ret, ok := te.stmt(minF, s, env); !ok || ret {
				decided = false
			}
		}
		for j := range lens {
			if !decided {
				break
			}
			if elem != nil {
				env[elem] = tval{Obj: label(int64(j))}
			}
			if key != nil {
				env[key] = tval{I: int64(j)}
			}
			te.br = ""
			r, ret, ok := te.block(minF, body.List, env)
			if !ok {
				decided = false
				break
			}
			if ret && te.br == "" {
				res, returned = r, true
				break
			}
			if te.br == "break" {
				break
			}
		}
		te.br = ""
		if decided && !returned {
			var ok bool
			res, returned, ok = te.block(minF, post, env)
			if !ok || !returned {
				decided = false
			}
		}
		if !decided || len(res) != 2 {
			c.Rep.undecided(rule, minF.Short(), inst, c.P.pos(body), "MinLen scan not evaluable on order types: "+te.why)
			return
		}
		best := int64(0)
		for _, l := range lens {
			if l > 0 && (best == 0 || l < best) {
				best = l
			}
		}
		if best == 0 {
			c.Rep.check(!res[1].IsNil, rule, minF.Short(), inst, c.P.pos(body), inst+" reports all items empty", fmt.Sprintf("%s: every item is empty and GetMinLenItem returns %s without an error", inst, res[0]))
			continue
		}
		got, okLen := lenOf(res[0])
		good := res[1].IsNil && okLen && got.I == best
		c.Rep.check(good, rule, minF.Short(), inst, c.P.pos(body), inst+" selects a shortest non-empty item", fmt.Sprintf("%s: GetMinLenItem returns (%s, %s); MinLen must select a non-empty item of minimal length (here length %d)", inst, res[0], res[1], best))
	}
}

// ruleListenerAlwaysStops: "cancelling a configured context stops the worker" in every state: once its context is
// done, every path of the context listener calls Stop, except the path on which it found that its context is no
// longer the worker's current one (a previous run's listener woken by Restart). No other condition (the status, a
// counter) may keep the listener from stopping the worker: the goroutine is one-shot, a skipped cancellation is lost.
func (c *Ctx) ruleListenerAlwaysStops(rule string) {
	R := c.R
	c.Rep.rule(rule, "E2 path", "every path of the context listener calls Stop unless its context was found not to be the current one", 1)
	if R.Listener == nil {
		c.Rep.ok(rule, "no context listener goroutine", "", "nothing to check", false)
		return
	}
	stop := c.methodOf(R.WorkerT, "Stop")
	var stopKeys map[string]bool
	if stop != nil {
		stopKeys = c.P.roleKeys(stop)
	}
	isCtxOfWorker := func(info *types.Info, e ast.Expr) bool {
		return selField(info, e) == R.FCtx || c.isAccessorCall(info, e, R.FCtx)
	}
	sr := &seqRule{c: c, rule: rule}
	sr.exprValSt = func(ip *Interp, fr *Frame, st *State, e ast.Expr) (Value, bool) {
		be, ok := ast.Unparen(e).(*ast.BinaryExpr)
		if !ok || (be.Op != token.EQL && be.Op != token.NEQ) {
			return Value{}, false
		}
		info := fr.Fn.Info()
		if isCtxOfWorker(info, be.X) || isCtxOfWorker(info, be.Y) {
			if be.Op == token.EQL {
				return Value{Kind: VTok, S: "current"}, true
			}
			return Value{Kind: VTok, S: "stale"}, true
		}
		return Value{}, false
	}
	sr.condSym = func(fr *Frame, token, rel string) string {
		if token == "current" || token == "stale" {
			return token + "=" + rel
		}
		return ""
	}
	sr.classify = func(fr *Frame, call *ast.CallExpr, ce *Callee, args []Value) *callEvent {
		if stopKeys[ce.Key] {
			return &callEvent{Name: "Stop", Atomic: true}
		}
		if ce.Builtin != "" || ce.Conv {
			return nil
		}
		if g := c.P.byObj[ce.Key]; g != nil && g.Lib && stop != nil && c.reachesSync(g, stop.Key) {
			return nil // a helper that stops the worker: followed
		}
		return &callEvent{Atomic: true}
	}
	n := 0
	for _, sg := range sr.segments(R.Listener) {
		if sg.Kind != "path" {
			continue
		}
		n++
		good := sg.has("Stop") || sg.has("current=false") || sg.has("stale=true")
		c.Rep.check(good, rule, R.Listener.Short(), "context listener does not stop the worker on some path", sg.End, "Stop, unless the context is not the current one",
			"a path of the context listener ends without calling Stop although its context is done and still the worker's current one ["+strings.Join(sg.Syms, " ")+"]: a cancellation that arrives in that situation (e.g. while the worker is paused) is dropped for good, the worker keeps running with a dead context")
	}
	if n == 0 {
		c.Rep.undecided(rule, R.Listener.Short(), "no path", c.P.pos(R.Listener.Body), "the walker found no path through the context listener")
	}
}
