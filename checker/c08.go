package main

import (
	"fmt"
	"go/ast"
	"go/types"
	"strings"
)

func init() {
	register(&propDef{
		ID: "C08",
		Info: propInfo{
			Technique:   "atomic check-then-act analysis (interference-mode propagation on the batch counter) + job-status table + path rules",
			Explanation: "Decides the structural part of batch delivery: (R08.1) the last-finisher decision is one atomic operation: WgCounter.Done decrements with a compare-and-swap (never a separate Load followed by Add), releases the inner WaitGroup exactly once per won swap and reports true exactly for the swap 1→0 (enumerated with every Load allowed to return 0, 1 or 2, i.e. under interference); every group Close closes the shared stream only on the path where that report was true, after the release; (R08.2) stream capacity = counter = len(items) (R05.3); (R08.3) rejected items are closed inside AddAll and never counted (R01.5); (R08.4) NumPending returns the counter, Wait waits on it, and counter and WaitGroup change only together; (R08.5) with batch size 0 every path of a result/error group constructor closes the stream, with a non-zero size none does.",
			NotDecided:  []string{"exactly one result per executed item (needs value correlation inside the wrapper closure, see C07)", "payload equality"},
			Assumptions: []string{"sync/atomic compare-and-swap semantics"},
		},
		Run: runC08,
	})
	register(&propDef{
		ID: "C09",
		Info: propInfo{
			Technique:   "path analysis with status propagation + synchronous call-graph reachability + lifecycle table",
			Explanation: "Decides the structural part of 'a paused or stopped worker starts nothing': (R09.1) the dispatcher loop's condition contains the running test (R03.4); (R09.2) reserve-then-check: in the dispatcher step the in-flight counter is raised before the last status test that precedes the dequeue; walked with the status fixed to Paused and to Stopped no path reaches the dequeue, and every such path lowers the counter again and re-evaluates the barrier release (with sequentially consistent atomics this is the Dekker handshake with 'store paused; wait for in-flight == 0'); (R09.3) from Pause, PauseAndWait, Stop, WaitAndStop, Restart, Resume, TunePool no synchronous call path reaches Dequeue, Purge, Enqueue or UnregisterItem: queues are untouched by lifecycle calls; (R09.4) Resume/Restart store Running and notify (R03.1); the submit paths never read the worker status, so jobs are accepted while paused or stopped; (R09.5) Stop tears down only after the wait (R06.6).",
			NotDecided:  []string{"the order in which the surviving jobs run (C04)", "restarts racing submissions", "the memory-model argument itself (sequential consistency of sync/atomic is assumed)"},
			Assumptions: []string{"sync/atomic operations are sequentially consistent"},
		},
		Run: runC09,
	})
}

func runC08(c *Ctx) {
	c.ruleLastFinisher("R08.1")
	c.ruleWhoArms("R08.2")
	c.ruleSubmitPaths("R08.3", submitChecks{reject: true})
	c.ruleCounterViews("R08.4")
	c.ruleEmptyBatch("R08.5")
	c.rulePlainStatusStores("R08.6")
	// a batch item is counted off only by the Close that won its transition
	c.ruleCloseEffectsNeedWin("R08.7")
	// Purge counts off exactly what Values() lists: the snapshot must be complete
	c.Rep.rule("R08.8", "E2 path + loop bounds", "Values() of the FIFO queue lists every stored item: early return only when Len()==0, each segment walked over its own bounds", 1)
	c.ruleValuesComplete("R08.8")
	// every result of a batch is tagged with the id of its own item: each item's configs are loaded for that item
	c.Rep.rule("R08.9", "def-use", "batch items get job configs loaded per item by loadJobConfigs (no configs value shared between items, no option applied in place)", 6)
	c.ruleJobConfigsPerJob("R08.9", c.P.FuncByKey("loadJobConfigs"))
	// ... and both the success and the failure path put that id on the Result they send to the shared stream
	c.ruleOwnResponse("R08.10")
}

func (c *Ctx) ruleLastFinisher(rule string) {
	c.Rep.rule(rule, "E5 check-then-act", "WgCounter.Done decrements by compare-and-swap, one inner release per won swap, reports true exactly for 1→0; group Close closes the shared stream only when Done reported true", 8)
	done := c.P.byObj[kWgcDone]
	if done == nil {
		c.Rep.undecided(rule, "helpers.WgCounter.Done", "missing", "", "WgCounter.Done not found")
		return
	}
	countField := modPath + "/internal/helpers.WgCounter.count"
	sr := &seqRule{c: c, rule: rule, trackField: countField, trackAny: []string{"0", "1", "2"}, loadSyms: true}
	sr.classify = func(fr *Frame, call *ast.CallExpr, ce *Callee, args []Value) *callEvent {
		if fk, m := atomicOp(fr.Fn.Info(), call); fk == countField {
			switch m {
			case "CompareAndSwap":
				return &callEvent{Name: "cas", Atomic: true}
			case "Load":
				return &callEvent{Atomic: true}
			default:
				return &callEvent{Name: "plain:" + m, Atomic: true}
			}
		}
		if ce.Key == kWgDone {
			return &callEvent{Name: "release", Atomic: true}
		}
		return nil
	}
	n := 0
	for _, sg := range sr.segments(done) {
		if sg.Kind != "path" {
			continue
		}
		n++
		desc := "[" + strings.Join(sg.Syms, " ") + "]"
		plain := false
		loaded := ""
		for _, s := range sg.Syms {
			if strings.HasPrefix(s, "plain:") {
				plain = true
			}
			if strings.HasPrefix(s, "load:") {
				loaded = s[5:]
			}
		}
		c.Rep.check(!plain, rule, done.Short(), "counter changed by a plain Add/Store", sg.End, "counter changed only by compare-and-swap",
			"WgCounter.Done changes the counter with a plain Add/Store after a separate Load: two finishers can both pass the test (check-then-act), the counter wraps or the last finisher is not identified: "+desc)
		won := sg.has("casok")
		c.Rep.check(sg.count("release") == boolInt(won) && (!won || sg.index("casok") < sg.index("release")), rule, done.Short(), "inner WaitGroup not released exactly once per won swap", sg.End, "one release per won compare-and-swap",
			"WgCounter.Done must release the inner WaitGroup exactly once, and only after it won the compare-and-swap: "+desc)
		if len(sg.Ret) == 1 {
			wantTrue := won && loaded == "1"
			c.Rep.check(sg.Ret[0].isTrue() == wantTrue && (sg.Ret[0].isTrue() || sg.Ret[0].isFalse()), rule, done.Short(), "Done reports 'last' wrongly", sg.End,
				fmt.Sprintf("loaded %s, swap won=%v → reports %v", loaded, won, wantTrue), fmt.Sprintf("WgCounter.Done must report true exactly when its own compare-and-swap took the counter from 1 to 0 (loaded %s, won %v, reports %s): %s", loaded, won, sg.Ret[0], desc))
		} else {
			c.Rep.fail(rule, done.Short(), "Done does not report whether it was the last", sg.End, "WgCounter.Done has no result: callers can only find the last finisher with a separate Count(), which is a check-then-act")
		}
		if loaded != "0" && loaded != "" {
			c.Rep.check(won, rule, done.Short(), "Done gives up after a lost compare-and-swap", sg.End, "non-zero counter ⇒ the call ends only after winning a swap",
				"WgCounter.Done returns without having decremented a non-zero counter (its compare-and-swap lost against another finisher and it did not retry): that item is never counted off, the batch's Wait() blocks for ever: "+desc)
		}
		if loaded == "0" {
			c.Rep.check(!sg.has("cas") && !sg.has("release"), rule, done.Short(), "Done on a zero counter has effects", sg.End, "zero counter left untouched", "WgCounter.Done on a counter that is already zero must do nothing: "+desc)
		}
	}
	if n == 0 {
		c.Rep.undecided(rule, done.Short(), "no path", c.P.pos(done.Body), "the walker found no path")
	}
	// group Close: stream closed only when Done reported true
	t := c.jobCloseTable()
	m := 0
	for _, f := range t.Impls {
		if !c.sharesResponse(f) {
			continue
		}
		for _, s := range t.States {
			for _, o := range t.cell(f, s) {
				if !o.has("wgcdone") {
					continue
				}
				m++
				good := (o.has("last=true") && countOf(o.Effects, "respclose") == 1 && o.idx("wgcdone") < o.idx("respclose")) || (o.has("last=false") && !o.has("respclose"))
				c.Rep.check(good, rule, f.Short(), "stream close not decided by Done's own result", o.End, fmt.Sprintf("%s from %s: %s", f.Short(), s, o),
					fmt.Sprintf("%s must close the shared stream exactly when its own Done() reported true (deciding with a separate Count() lets two finishers both close it): %s", f.Short(), o))
			}
		}
	}
	if m == 0 {
		c.Rep.undecided(rule, "-", "no group Close with a shared stream", "", "no Close implementation both counts a batch item done and closes a stream")
	}
	// nobody else closes a stream on a Count() test
	for _, cs := range c.P.allCalls(false) {
		if cs.Callee.Key == kWgcCount && cs.In.Pkg.PkgPath == modPath && c.P.containsCall(cs.In, kRespClose) {
			c.Rep.fail(rule, cs.In.Short(), "stream close next to a Count() test", c.P.pos(cs.Call), cs.In.Short()+" reads Count() and closes a stream: the last-finisher decision must come from Done() itself")
		}
	}
}

func boolInt(b bool) int {
	if b {
		return 1
	}
	return 0
}

func (c *Ctx) ruleCounterViews(rule string) {
	c.Rep.rule(rule, "E1", "NumPending returns the batch counter, Wait waits on it", 6)
	for _, f := range c.P.pkgFuncs(modPath) {
		if f.Obj == nil || f.Decl.Recv == nil {
			continue
		}
		rt := f.Obj.Type().(*types.Signature).Recv().Type()
		st := structOf(rt)
		if st == nil {
			continue
		}
		hasWgc := false
		for i := 0; i < st.NumFields(); i++ {
			if isNamed(st.Field(i).Type(), modPath+"/internal/helpers.WgCounter") {
				hasWgc = true
			}
		}
		if !hasWgc {
			continue
		}
		switch f.Obj.Name() {
		case "NumPending":
			good := false
			if len(f.Body.List) == 1 {
				if ret, ok := f.Body.List[0].(*ast.ReturnStmt); ok && len(ret.Results) == 1 {
					if call, ok := ast.Unparen(ret.Results[0]).(*ast.CallExpr); ok && resolveCallee(f.Info(), call).Key == kWgcCount && c.isReceiverField(f, call.Fun) {
						good = true
					}
				}
			}
			c.Rep.check(good, rule, f.Short(), "NumPending is not the batch counter", c.P.pos(f.Body), "returns the receiver's counter", "a batch's NumPending must return its own WgCounter.Count()")
		case "Wait":
			good := false
			for _, cs := range c.P.calls(f) {
				if cs.Callee.Key == kWgcWait && c.isReceiverField(f, cs.Call.Fun) {
					good = true
				}
			}
			c.Rep.check(good, rule, f.Short(), "Wait does not wait on the batch counter", c.P.pos(f.Body), "waits on the receiver's counter", "a batch's Wait must wait on its own WgCounter")
		}
	}
}

func (c *Ctx) ruleEmptyBatch(rule string) {
	c.Rep.rule(rule, "E2 path", "size 0 ⇒ every path of a result/error group constructor closes the stream; size > 0 ⇒ none does", 4)
	n := 0
	for _, f := range c.P.pkgFuncs(modPath) {
		if f.Obj == nil || f.Body == nil || f.Decl.Recv != nil || !c.P.containsCall(f, kNewWgc) || !c.P.containsCall(f, kNewResp) {
			continue
		}
		if f.Type.Params == nil || len(f.Type.Params.List) != 1 {
			continue
		}
		for _, size := range []string{"0", "3"} {
			v := c.vocab([]string{"respclose"}, nil)
			sr := v.seq(rule, false)
			sr.args = []Value{{Kind: VConst, S: size}}
			for _, sg := range sr.segments(f) {
				if sg.Kind != "path" {
					continue
				}
				n++
				if size == "0" {
					c.Rep.check(sg.count("respclose") == 1, rule, f.Short(), "empty batch does not close its stream", sg.End, "size 0: stream closed once",
						"a batch created with size 0 never closes its stream (no item will ever finish and close it): ranging over Results()/Errs() blocks for ever")
				} else {
					c.Rep.check(!sg.has("respclose"), rule, f.Short(), "non-empty batch closes its stream at construction", sg.End, "size > 0: stream left open",
						"a non-empty batch closes its stream at construction: the first finisher's Send panics (send on closed channel)")
				}
			}
		}
	}
	if n == 0 {
		c.Rep.undecided(rule, "-", "no group constructor with a stream", "", "no function creates both a batch counter and a stream")
	}
}

// ---------------------------------------------------------------- C09

func runC09(c *Ctx) {
	c.ruleDispatcherLoop("R09.1")
	c.ruleReserveThenCheck("R09.2")
	c.ruleLifecycleLeavesQueues("R09.3")
	c.ruleSubmitIgnoresStatus("R09.4")
	c.ruleNotifyAfterChange("R09.4")
	c.ruleBarrierComposition("R09.5")
	// "in queue order after Restart": one dispatcher at a time, also across the Restart
	c.ruleDispatcherJoined("R09.6")
	// Restart must not be undone by the previous run's context listener (the worker would end up Stopped, its pending jobs never run)
	c.ruleContextRetiredAtomically("R09.7")
	c.ruleOnlyResumeRestartLeave("R09.8")
	// PauseAndWait/Stop return only when nothing is in flight: the wait re-evaluates its predicate in a loop
	c.rulePredicates("R09.9", "R09.10")
}

func (c *Ctx) ruleReserveThenCheck(rule string) {
	R := c.R
	c.Rep.rule(rule, "E2 path + status propagation", "the step raises the in-flight counter before the status test that precedes the dequeue; with status Paused/Stopped no path dequeues and every path gives the slot back and re-evaluates the barrier", 6)
	if R.Step == nil {
		return
	}
	ws := c.workerStatus()
	for _, st := range []string{"Running", "Paused", "Stopped"} {
		v := c.vocab([]string{"inflight+", "inflight-", "wstatus?", "deq", "release", "handoff"}, map[string]bool{"handoff": true, "release": true})
		sr := v.seq(rule, false)
		sr.trackField = R.FStatus
		sr.init = kv("").set("T", ws.ByName[st])
		n := 0
		for _, sg := range sr.segments(R.Step) {
			if sg.Kind != "path" {
				continue
			}
			n++
			desc := "[" + strings.Join(sg.Syms, " ") + "]"
			switch st {
			case "Running":
				if !sg.has("deq") {
					continue
				}
				// a status test after the reservation and before the dequeue
				ok := false
				inc := sg.index("inflight+")
				dq := sg.index("deq")
				for i, s := range sg.Syms {
					if s == "wstatus?" && inc >= 0 && i > inc && i < dq {
						ok = true
					}
				}
				c.Rep.check(ok, rule, R.Step.Short(), "no status test between the reservation and the dequeue", sg.End, "in-flight raised, then status tested, then dequeue",
					"the dispatcher step dequeues without re-testing the worker status after raising the in-flight counter: a Pause()+wait that ran in between is not noticed and the job starts after the barrier returned: "+desc)
			default:
				c.Rep.check(!sg.has("deq") && !sg.has("handoff"), rule, R.Step.Short(), "step dequeues while "+st, sg.End, "status "+st+": no dequeue, no hand-off",
					"with the worker "+st+" the dispatcher step still dequeues/hands off a job: "+desc)
				net := sg.count("inflight+") - sg.count("inflight-")
				c.Rep.check(net == 0 && (!sg.has("inflight-") || sg.followedBy("inflight-", "release")), rule, R.Step.Short(), "reservation not undone while "+st, sg.End, "slot given back and barrier re-evaluated",
					"with the worker "+st+" the step must give the reserved slot back and re-evaluate the barrier release (a waiter that saw the reservation would otherwise wait for ever): "+desc)
			}
		}
		if n == 0 {
			c.Rep.undecided(rule, R.Step.Short(), "no path with status "+st, "", "the walker found no path")
		}
	}
}

func (c *Ctx) ruleLifecycleLeavesQueues(rule string) {
	c.Rep.rule(rule, "call graph (no spawn edges)", "no synchronous path from a lifecycle method reaches Dequeue/Purge/Enqueue/UnregisterItem", 7)
	forbidden := []string{"deq", "qpurge", "enq"}
	for name, f := range c.lifecycleMethods() {
		if name == "start" {
			continue
		}
		em := c.emitsSync(f)
		var hit []string
		for _, s := range forbidden {
			if em[s] {
				hit = append(hit, s)
			}
		}
		// UnregisterItem
		if c.reachesSync(f, kUnregister) {
			hit = append(hit, "unregister")
		}
		c.Rep.check(len(hit) == 0, rule, name, "lifecycle method reaches queue contents", c.P.pos(f.Body), name+" never touches queue contents",
			fmt.Sprintf("%s can synchronously reach %v: pending jobs would be consumed, dropped or queues unbound by a lifecycle call", name, hit))
	}
}

// reachesSync: key is reachable from f through synchronous library calls.
func (c *Ctx) reachesSync(f *Func, key string) bool {
	seen := map[*Func]bool{}
	var visit func(g *Func) bool
	visit = func(g *Func) bool {
		if seen[g] || g.Body == nil {
			return false
		}
		seen[g] = true
		found := false
		ast.Inspect(g.Body, func(n ast.Node) bool {
			if found {
				return false
			}
			switch x := n.(type) {
			case *ast.GoStmt:
				return false
			case *ast.CallExpr:
				ce := resolveCallee(g.Info(), x)
				if ce.Key == key {
					found = true
					return false
				}
				var ts []*Func
				if ce.Iface {
					ts = c.P.implementationsIn(g, ce)
				} else if t := c.P.byObj[ce.Key]; t != nil && t.Lib {
					ts = []*Func{t}
				}
				for _, t := range ts {
					if visit(t) {
						found = true
					}
				}
			}
			return true
		})
		return found
	}
	return visit(f)
}

func (c *Ctx) ruleSubmitIgnoresStatus(rule string) {
	c.Rep.rule(rule, "E1", "submit paths never read the worker status (jobs are accepted while paused or stopped); Resume/Restart store Running and notify", 10)
	for _, f := range c.submitFuncs() {
		em := c.emitsSync(f)
		c.Rep.check(!em["wstatus?"], rule, f.Short(), "submission depends on the worker status", c.P.pos(f.Body), "submission does not read the worker status",
			f.Short()+" reads the worker status: submissions to a paused or stopped worker must still be accepted and stay pending")
	}
}

// ruleOnlyResumeRestartLeave: from the lifecycle table — a paused or stopped worker is set running again (and a
// dispatcher spawned) only by Resume and Restart; no other control call, and in particular no start() reached from a
// Bind*/With* method, does so.
func (c *Ctx) ruleOnlyResumeRestartLeave(rule string) {
	c.Rep.rule(rule, "E3 lifecycle table", "from Paused/Stopped only Resume and Restart end in Running or spawn a dispatcher", 10)
	t := c.lifecycle()
	for _, m := range t.Methods {
		if m == "Resume" || m == "Restart" {
			continue
		}
		for _, s := range []string{"Paused", "Stopped"} {
			for _, o := range t.cell(m, s) {
				good := o.Final != "Running" && !o.has("go:dispatcher") && !o.has("wstatus:Running")
				c.Rep.check(good, rule, m, "leaves "+s+" without Resume/Restart", o.End, m+" from "+s+" stays "+o.Final,
					fmt.Sprintf("%s called on a %s worker sets it running again (or spawns a dispatcher): pending jobs start without Resume or Restart (%s)", m, strings.ToLower(s), o))
			}
		}
	}
}
