package main

// Fact layer: loads /repo's current working tree with full syntax and type
// information, indexes every function declaration and function literal of the
// library packages, and resolves callees by type (never by text).

import (
	"encoding/json"
	"fmt"
	"go/ast"
	"go/token"
	"go/types"
	"os"
	"path/filepath"
	"sort"
	"strings"

	"golang.org/x/tools/go/packages"
)

const modPath = "github.com/goptics/varmq"

// libPkgs are the packages whose bodies are subject to the rules.
var libPkgs = map[string]bool{
	modPath:                            true,
	modPath + "/internal/helpers":      true,
	modPath + "/internal/linkedbuffer": true,
	modPath + "/internal/linkedlist":   true,
	modPath + "/internal/pool":         true,
	modPath + "/internal/queues":       true,
	modPath + "/utils":                 true,
}

type Prog struct {
	Fset    *token.FileSet
	Pkgs    []*packages.Package          // every loaded module package
	ByPath  map[string]*packages.Package // by import path
	Funcs   []*Func                      // library functions and literals, source order
	byObj   map[string]*Func             // by canonical key
	byLit   map[*ast.FuncLit]*Func
	Clients []*Func // functions of non-library packages of the module (mocks, examples)
	RepoDir string

	roleKeysMemo map[*Func]map[string]bool
}

// Func is a function declaration or function literal with a body.
type Func struct {
	Pkg    *packages.Package
	Decl   *ast.FuncDecl
	Lit    *ast.FuncLit
	Obj    *types.Func
	Parent *Func // lexically enclosing function (for literals)
	Key    string
	Body   *ast.BlockStmt
	Type   *ast.FuncType
	Lib    bool
	nlit   int
}

func (f *Func) Info() *types.Info { return f.Pkg.TypesInfo }

func (f *Func) Pos() token.Pos {
	if f.Decl != nil {
		return f.Decl.Pos()
	}
	return f.Lit.Pos()
}

// Root returns the outermost declared function enclosing f.
func (f *Func) Root() *Func {
	for f.Parent != nil {
		f = f.Parent
	}
	return f
}

// Short returns the key without the module path prefix.
func (f *Func) Short() string { return shortKey(f.Key) }

func shortKey(k string) string {
	k = strings.TrimPrefix(k, modPath+"/")
	k = strings.TrimPrefix(k, modPath+".")
	return k
}

// overlay: absolute file name -> replacement content (used by the mutation
// self-test; the files on disk are never touched).
func loadProg(repo string, overlay map[string][]byte, withTests bool) (*Prog, error) {
	env := []string{}
	for _, e := range os.Environ() {
		if strings.HasPrefix(e, "GOWORK=") || strings.HasPrefix(e, "GOFLAGS=") || strings.HasPrefix(e, "GOPROXY=") {
			continue
		}
		env = append(env, e)
	}
	env = append(env, "GOWORK=off", "GOFLAGS=-mod=mod", "GOPROXY=off")
	cfg := &packages.Config{
		Mode:    packages.LoadAllSyntax,
		Dir:     repo,
		Tests:   withTests,
		Env:     env,
		Overlay: overlay,
	}
	pkgs, err := packages.Load(cfg, "./...")
	if err != nil {
		return nil, err
	}
	if len(pkgs) == 0 {
		return nil, fmt.Errorf("no packages loaded from %s", repo)
	}
	p := &Prog{ByPath: map[string]*packages.Package{}, byObj: map[string]*Func{}, byLit: map[*ast.FuncLit]*Func{}, RepoDir: repo}
	var errs []string
	for _, pkg := range pkgs {
		for _, e := range pkg.Errors {
			errs = append(errs, e.Error())
		}
		if withTests && (strings.HasSuffix(pkg.ID, ".test") || strings.Contains(pkg.ID, "[")) {
			// test variants are only type-checked, never indexed
			continue
		}
		p.Fset = pkg.Fset
		p.Pkgs = append(p.Pkgs, pkg)
		p.ByPath[pkg.PkgPath] = pkg
	}
	if len(errs) > 0 {
		return nil, fmt.Errorf("type-check errors: %s", strings.Join(errs, "; "))
	}
	for path := range libPkgs {
		if p.ByPath[path] == nil {
			return nil, fmt.Errorf("library package %s not loaded", path)
		}
	}
	sort.Slice(p.Pkgs, func(i, j int) bool { return p.Pkgs[i].PkgPath < p.Pkgs[j].PkgPath })
	for _, pkg := range p.Pkgs {
		p.indexPkg(pkg)
	}
	return p, nil
}

func (p *Prog) indexPkg(pkg *packages.Package) {
	lib := libPkgs[pkg.PkgPath]
	files := append([]*ast.File(nil), pkg.Syntax...)
	sort.Slice(files, func(i, j int) bool {
		return p.Fset.File(files[i].Pos()).Name() < p.Fset.File(files[j].Pos()).Name()
	})
	for _, file := range files {
		if strings.HasSuffix(p.Fset.File(file.Pos()).Name(), "_test.go") {
			continue
		}
		for _, d := range file.Decls {
			switch d := d.(type) {
			case *ast.FuncDecl:
				if d.Body == nil {
					continue
				}
				obj, _ := pkg.TypesInfo.Defs[d.Name].(*types.Func)
				if obj == nil {
					continue
				}
				f := &Func{Pkg: pkg, Decl: d, Obj: obj, Key: funcKey(obj), Body: d.Body, Type: d.Type, Lib: lib}
				p.add(f)
				p.indexLits(f, d.Body)
			case *ast.GenDecl:
				// literals in package-level initialisers
				holder := &Func{Pkg: pkg, Key: pkg.PkgPath + ".init$", Lib: lib}
				p.indexLits(holder, d)
			}
		}
	}
}

func (p *Prog) add(f *Func) {
	if f.Lib {
		p.Funcs = append(p.Funcs, f)
	} else {
		p.Clients = append(p.Clients, f)
	}
	if f.Obj != nil {
		p.byObj[f.Key] = f
	}
	if f.Lit != nil {
		p.byLit[f.Lit] = f
	}
}

func (p *Prog) indexLits(parent *Func, n ast.Node) {
	ast.Inspect(n, func(x ast.Node) bool {
		lit, ok := x.(*ast.FuncLit)
		if !ok {
			return true
		}
		parent.nlit++
		f := &Func{Pkg: parent.Pkg, Lit: lit, Parent: parent, Key: fmt.Sprintf("%s$%d", parent.Key, parent.nlit), Body: lit.Body, Type: lit.Type, Lib: parent.Lib}
		if parent.Body == nil { // package-level initialiser
			f.Parent = nil
		}
		p.add(f)
		p.indexLits(f, lit.Body)
		return false
	})
}

// funcKey is the canonical, instantiation-independent key of a function:
// pkgpath.Name or pkgpath.Recv.Name (receiver's named type, pointer stripped).
func funcKey(fn *types.Func) string {
	fn = fn.Origin()
	sig := fn.Type().(*types.Signature)
	pkg := ""
	if fn.Pkg() != nil {
		pkg = fn.Pkg().Path()
	}
	if recv := sig.Recv(); recv != nil {
		return pkg + "." + typeName(recv.Type()) + "." + fn.Name()
	}
	return pkg + "." + fn.Name()
}

// typeName returns the bare name of a (pointer to a) named type, interface
// types included; "" for anything else.
func typeName(t types.Type) string {
	for {
		switch tt := t.(type) {
		case *types.Pointer:
			t = tt.Elem()
			continue
		case *types.Named:
			return tt.Obj().Name()
		case *types.Alias:
			t = types.Unalias(tt)
			continue
		case *types.TypeParam:
			return "$" + tt.Obj().Name()
		}
		return ""
	}
}

// namedOf returns the *types.Named behind t (through pointers and aliases).
func namedOf(t types.Type) *types.Named {
	for t != nil {
		switch tt := t.(type) {
		case *types.Pointer:
			t = tt.Elem()
		case *types.Alias:
			t = types.Unalias(tt)
		case *types.Named:
			return tt
		default:
			return nil
		}
	}
	return nil
}

// qualTypeName returns pkgpath.Name for a (pointer to a) named type.
func qualTypeName(t types.Type) string {
	n := namedOf(t)
	if n == nil {
		return ""
	}
	if n.Obj().Pkg() == nil {
		return n.Obj().Name()
	}
	return n.Obj().Pkg().Path() + "." + n.Obj().Name()
}

// Callee describes the target of a call expression.
type Callee struct {
	Key       string           // canonical key of the function or method ("" if not a named function)
	Fn        *types.Func      // origin function object, if any
	Var       *types.Var       // func-typed variable, parameter or field being called
	Field     string           // pkgpath.Type.field when Var is a struct field
	Builtin   string           // name of builtin
	Conv      bool             // type conversion, not a call
	Lit       *ast.FuncLit     // immediately invoked literal
	Iface     bool             // method of an interface (dynamic dispatch)
	Recv      ast.Expr         // receiver expression for method calls
	RecvIface *types.Interface // static interface (or type-parameter constraint) of the receiver
	RecvTP    *types.TypeParam // receiver is a value of this type parameter
	RecvVal   Value            // abstract value of a plain-variable receiver (set by the trace domain before classification)
}

func (c *Callee) String() string {
	switch {
	case c == nil:
		return "<nil>"
	case c.Key != "":
		return shortKey(c.Key)
	case c.Field != "":
		return "field " + shortKey(c.Field)
	case c.Var != nil:
		return "var " + c.Var.Name()
	case c.Builtin != "":
		return "builtin " + c.Builtin
	case c.Lit != nil:
		return "funclit"
	case c.Conv:
		return "conversion"
	}
	return "?"
}

func resolveCallee(info *types.Info, call *ast.CallExpr) *Callee {
	fun := ast.Unparen(call.Fun)
	// strip explicit instantiation f[T](...)
	switch ix := fun.(type) {
	case *ast.IndexExpr:
		if tv, ok := info.Types[ix.X]; ok && tv.IsType() {
			return &Callee{Conv: true}
		}
		if _, isSig := info.TypeOf(ix.X).(*types.Signature); isSig {
			fun = ast.Unparen(ix.X)
		}
	case *ast.IndexListExpr:
		if tv, ok := info.Types[ix.X]; ok && tv.IsType() {
			return &Callee{Conv: true}
		}
		fun = ast.Unparen(ix.X)
	}
	if tv, ok := info.Types[fun]; ok && tv.IsType() {
		return &Callee{Conv: true}
	}
	c := &Callee{}
	var obj types.Object
	switch f := fun.(type) {
	case *ast.FuncLit:
		c.Lit = f
		return c
	case *ast.Ident:
		obj = info.Uses[f]
	case *ast.SelectorExpr:
		if sel, ok := info.Selections[f]; ok {
			obj = sel.Obj()
			c.Recv = f.X
			rt := sel.Recv()
			if tp, ok := rt.(*types.TypeParam); ok {
				c.RecvTP = tp
				rt = tp.Constraint()
			}
			if it, ok := rt.Underlying().(*types.Interface); ok {
				c.RecvIface = it
			}
			if sel.Kind() == types.FieldVal {
				if v, ok := obj.(*types.Var); ok {
					c.Var = v
					c.Field = fieldKey(info, f)
					return c
				}
			}
		} else {
			obj = info.Uses[f.Sel]
		}
	}
	switch o := obj.(type) {
	case *types.Func:
		c.Fn = o.Origin()
		c.Key = funcKey(o)
		if sig := o.Type().(*types.Signature); sig.Recv() != nil {
			if types.IsInterface(sig.Recv().Type()) {
				c.Iface = true
			}
		}
	case *types.Var:
		c.Var = o
	case *types.Builtin:
		c.Builtin = o.Name()
	case *types.TypeName:
		c.Conv = true
	}
	return c
}

// fieldKey returns pkgpath.Struct.field for a field selector expression,
// resolving embedded promotion to the struct that declares the field.
func fieldKey(info *types.Info, sel *ast.SelectorExpr) string {
	s, ok := info.Selections[sel]
	if !ok || s.Kind() != types.FieldVal {
		return ""
	}
	t := s.Recv()
	idx := s.Index()
	for i, ix := range idx {
		st := structOf(t)
		if st == nil {
			return ""
		}
		if i == len(idx)-1 {
			return qualTypeName(t) + "." + st.Field(ix).Name()
		}
		t = st.Field(ix).Type()
	}
	return ""
}

func structOf(t types.Type) *types.Struct {
	for t != nil {
		switch tt := t.(type) {
		case *types.Pointer:
			t = tt.Elem()
		case *types.Alias:
			t = types.Unalias(tt)
		case *types.Named:
			t = tt.Underlying()
		case *types.Struct:
			return tt
		default:
			return nil
		}
	}
	return nil
}

func (p *Prog) pos(n ast.Node) string { return p.posOf(n.Pos()) }

func (p *Prog) posOf(pos token.Pos) string {
	if !pos.IsValid() {
		return "?"
	}
	ps := p.Fset.Position(pos)
	rel, err := filepath.Rel(p.RepoDir, ps.Filename)
	if err != nil {
		rel = ps.Filename
	}
	return fmt.Sprintf("%s:%d", rel, ps.Line)
}

// FuncByKey looks up a library function by short or full key.
func (p *Prog) FuncByKey(key string) *Func {
	if f := p.byObj[key]; f != nil {
		return f
	}
	if f := p.byObj[modPath+"."+key]; f != nil {
		return f
	}
	return p.byObj[modPath+"/"+key]
}

// enclosing returns the innermost Func (library or client) containing pos.
func (p *Prog) enclosing(pos token.Pos) *Func {
	var best *Func
	consider := func(f *Func) {
		if f.Body == nil || pos < f.Body.Pos() || pos >= f.Body.End() {
			return
		}
		if best == nil || (f.Body.Pos() >= best.Body.Pos() && f.Body.End() <= best.Body.End()) {
			best = f
		}
	}
	for _, f := range p.Funcs {
		consider(f)
	}
	for _, f := range p.Clients {
		consider(f)
	}
	return best
}

// CallSite is a resolved call expression with its enclosing function.
type CallSite struct {
	Call   *ast.CallExpr
	Callee *Callee
	In     *Func
}

// calls returns every call expression directly inside f's body (not inside
// nested literals), in source order.
func (p *Prog) calls(f *Func) []CallSite {
	var out []CallSite
	if f.Body == nil {
		return nil
	}
	ast.Inspect(f.Body, func(n ast.Node) bool {
		switch x := n.(type) {
		case *ast.FuncLit:
			return false
		case *ast.CallExpr:
			out = append(out, CallSite{Call: x, Callee: resolveCallee(f.Info(), x), In: f})
		}
		return true
	})
	return out
}

// allCalls lists call sites of all library functions and literals.
func (p *Prog) allCalls(includeClients bool) []CallSite {
	var out []CallSite
	for _, f := range p.Funcs {
		out = append(out, p.calls(f)...)
	}
	if includeClients {
		for _, f := range p.Clients {
			out = append(out, p.calls(f)...)
		}
	}
	return out
}

// implementations returns the library methods that may be the dynamic target
// of an interface-method call: CHA restricted to module types. A concrete
// named type of the library is a candidate when its pointer method set has a
// method for every method name of the interface the callee belongs to (name
// based so that generic receivers and generic interfaces are covered).
func (p *Prog) implementations(c *Callee) []*Func { return p.implementationsIn(nil, c) }

// typeArgsFor: the type arguments the library instantiates the generic
// receiver type of f with, at the position of receiver type parameter tp.
func (p *Prog) typeArgsFor(f *Func, tp *types.TypeParam) []types.Type {
	if f == nil || tp == nil {
		return nil
	}
	root := f.Root()
	if root.Obj == nil {
		return nil
	}
	sig := root.Obj.Type().(*types.Signature)
	if sig.Recv() == nil || sig.RecvTypeParams() == nil {
		return nil
	}
	idx := -1
	for i := 0; i < sig.RecvTypeParams().Len(); i++ {
		if sig.RecvTypeParams().At(i) == tp {
			idx = i
		}
	}
	g := namedOf(sig.Recv().Type())
	if idx < 0 || g == nil {
		return nil
	}
	g = g.Origin()
	seen := map[string]bool{}
	var out []types.Type
	for _, pkg := range p.Pkgs {
		for _, tv := range pkg.TypesInfo.Types {
			n := namedOf(tv.Type)
			if n == nil || n.Origin() != g || n.TypeArgs() == nil || n.TypeArgs().Len() <= idx {
				continue
			}
			a := n.TypeArgs().At(idx)
			if _, isTP := a.(*types.TypeParam); isTP {
				continue
			}
			k := types.TypeString(a, nil)
			if !seen[k] {
				seen[k] = true
				out = append(out, a)
			}
		}
	}
	return out
}

func (p *Prog) implementationsIn(ctx *Func, c *Callee) []*Func {
	if c == nil || c.Fn == nil || !c.Iface {
		return nil
	}
	if c.RecvTP != nil {
		if args := p.typeArgsFor(ctx, c.RecvTP); len(args) > 0 {
			var out []*Func
			seen := map[string]bool{}
			for _, a := range args {
				if it, ok := a.Underlying().(*types.Interface); ok {
					c2 := *c
					c2.RecvTP = nil
					c2.RecvIface = it
					for _, f := range p.implementationsIn(nil, &c2) {
						if !seen[f.Key] {
							seen[f.Key] = true
							out = append(out, f)
						}
					}
					continue
				}
				obj, _, _ := types.LookupFieldOrMethod(a, true, c.Fn.Pkg(), c.Fn.Name())
				if fn, ok := obj.(*types.Func); ok {
					if f := p.byObj[funcKey(fn)]; f != nil && !seen[f.Key] {
						seen[f.Key] = true
						out = append(out, f)
					}
				}
			}
			sort.Slice(out, func(i, j int) bool { return out[i].Key < out[j].Key })
			return out
		}
	}
	sig := c.Fn.Type().(*types.Signature)
	iface, _ := sig.Recv().Type().Underlying().(*types.Interface)
	if c.RecvIface != nil {
		iface = c.RecvIface // the static type of the receiver expression: narrower than the declaring interface
	}
	if iface == nil {
		return nil
	}
	var out []*Func
	seen := map[string]bool{}
	for _, pkg := range p.Pkgs {
		if !libPkgs[pkg.PkgPath] {
			continue
		}
		scope := pkg.Types.Scope()
		for _, name := range scope.Names() {
			tn, ok := scope.Lookup(name).(*types.TypeName)
			if !ok || tn.IsAlias() {
				continue
			}
			named, ok := tn.Type().(*types.Named)
			if !ok || types.IsInterface(named) {
				continue
			}
			if !hasAllMethods(named, iface) {
				continue
			}
			obj, _, _ := types.LookupFieldOrMethod(types.NewPointer(named), true, c.Fn.Pkg(), c.Fn.Name())
			fn, ok := obj.(*types.Func)
			if !ok {
				continue
			}
			key := funcKey(fn)
			if f := p.byObj[key]; f != nil && !seen[key] {
				seen[key] = true
				out = append(out, f)
			}
		}
	}
	sort.Slice(out, func(i, j int) bool { return out[i].Key < out[j].Key })
	return out
}

func hasAllMethods(named *types.Named, iface *types.Interface) bool {
	ms := types.NewMethodSet(types.NewPointer(named))
	for i := 0; i < iface.NumMethods(); i++ {
		m := iface.Method(i)
		found := false
		for j := 0; j < ms.Len(); j++ {
			o := ms.At(j).Obj()
			if o.Name() == m.Name() && (m.Exported() || (o.Pkg() != nil && m.Pkg() != nil && o.Pkg().Path() == m.Pkg().Path())) {
				found = true
				break
			}
		}
		if !found {
			return false
		}
	}
	return true
}

func dumpJSON(v any) string {
	b, _ := json.MarshalIndent(v, "", " ")
	return string(b)
}
