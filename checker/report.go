package main

import (
	"encoding/json"
	"fmt"
	"os"
	"path/filepath"
	"sort"
	"strings"
	"time"
)

// Finding is one violated obligation. Its identity for the known-findings file
// is (Rule, Func, Construct): never a line number.
type Finding struct {
	Property  string `json:"property"`
	Rule      string `json:"rule"`
	Func      string `json:"function"`
	Construct string `json:"construct"`
	Pos       string `json:"pos"`
	Msg       string `json:"msg"`
	Kind      string `json:"kind"` // "violation" or "undecided"
}

func (f Finding) key() string { return f.Rule + "|" + f.Func + "|" + f.Construct }

// Obligation is one discharged-or-not instance of a rule.
type Obligation struct {
	Rule       string `json:"rule"`
	Instance   string `json:"instance"`
	Pos        string `json:"pos,omitempty"`
	OK         bool   `json:"ok"`
	Nontrivial bool   `json:"nontrivial"`
	How        string `json:"how,omitempty"`
}

type RuleMeta struct {
	ID        string `json:"id"`
	Engine    string `json:"engine"`
	Text      string `json:"text"`
	Instances int    `json:"instances"`
	Floor     int    `json:"floor"`
}

type Report struct {
	Property  string
	P         *Prog
	Obls      []Obligation
	Findings  []Finding
	Rules     map[string]*RuleMeta
	ruleOrder []string
	Analysed  map[string]bool // functions walked
	CallSites int
	Notes     []string
}

func newReport(prop string, p *Prog) *Report {
	return &Report{Property: prop, P: p, Rules: map[string]*RuleMeta{}, Analysed: map[string]bool{}}
}

func (r *Report) rule(id, engine, text string, floor int) *RuleMeta {
	if m := r.Rules[id]; m != nil {
		return m
	}
	m := &RuleMeta{ID: id, Engine: engine, Text: text, Floor: floor}
	r.Rules[id] = m
	r.ruleOrder = append(r.ruleOrder, id)
	return m
}

// ok records a discharged obligation.
func (r *Report) ok(rule, instance, pos, how string, nontrivial bool) {
	r.Obls = append(r.Obls, Obligation{Rule: rule, Instance: instance, Pos: pos, OK: true, Nontrivial: nontrivial, How: how})
	if m := r.Rules[rule]; m != nil {
		m.Instances++
	}
}

// fail records a violated obligation.
func (r *Report) fail(rule, fn, construct, pos, msg string) {
	r.Obls = append(r.Obls, Obligation{Rule: rule, Instance: fn + ": " + construct, Pos: pos, OK: false, Nontrivial: true, How: msg})
	if m := r.Rules[rule]; m != nil {
		m.Instances++
	}
	for _, f := range r.Findings {
		if f.Rule == rule && f.Func == fn && f.Construct == construct {
			return
		}
	}
	r.Findings = append(r.Findings, Finding{Property: r.Property, Rule: rule, Func: fn, Construct: construct, Pos: pos, Msg: msg, Kind: "violation"})
}

// undecided records an obligation the machinery could not decide; it fails the
// run (never counted as held).
func (r *Report) undecided(rule, fn, construct, pos, msg string) {
	r.Obls = append(r.Obls, Obligation{Rule: rule, Instance: fn + ": " + construct, Pos: pos, OK: false, Nontrivial: true, How: "undecided: " + msg})
	for _, f := range r.Findings {
		if f.Rule == rule && f.Func == fn && f.Construct == construct {
			return
		}
	}
	r.Findings = append(r.Findings, Finding{Property: r.Property, Rule: rule, Func: fn, Construct: construct, Pos: pos, Msg: msg, Kind: "undecided"})
}

func (r *Report) check(cond bool, rule, fn, construct, pos, okHow, failMsg string) bool {
	if cond {
		r.ok(rule, fn+": "+okHow, pos, "checked against: "+construct, true)
	} else {
		r.fail(rule, fn, construct, pos, failMsg)
	}
	return cond
}

func (r *Report) interpDone(ip *Interp, rule string, root *Func) {
	r.Analysed[root.Key] = true
	for k := range ip.Inlined {
		r.Analysed[k] = true
	}
	seen := map[string]bool{}
	for _, u := range ip.Undecided {
		if seen[u] {
			continue
		}
		seen[u] = true
		r.undecided(rule, root.Short(), "walker: "+u, r.P.pos(root.Body), u)
	}
}

// floors: a rule that matched fewer instances than its floor is vacuous.
func (r *Report) checkFloors() {
	for _, id := range r.ruleOrder {
		m := r.Rules[id]
		if m.Instances < m.Floor {
			r.undecided(id, "-", "instance floor", "", fmt.Sprintf("rule matched %d instance(s), fewer than the %d it must find (a rule that matches nothing passes vacuously)", m.Instances, m.Floor))
		}
	}
}

// ---------------------------------------------------------------- known findings

type KnownEntry struct {
	Property  string `json:"property"`
	Rule      string `json:"rule"`
	Function  string `json:"function"`
	Construct string `json:"construct"`
	Status    string `json:"status"` // "known" | "fixed"
	Commit    string `json:"commit,omitempty"`
	ID        string `json:"id,omitempty"`
	WhatFails string `json:"what_fails"`
	Schedule  string `json:"schedule,omitempty"`
}

type KnownFile struct {
	Comment string       `json:"comment"`
	Entries []KnownEntry `json:"entries"`
	Lines   []string     `json:"lines,omitempty"`
}

func loadKnown(path string) (*KnownFile, error) {
	b, err := os.ReadFile(path)
	if err != nil {
		if os.IsNotExist(err) {
			return &KnownFile{}, nil
		}
		return nil, err
	}
	var k KnownFile
	if err := json.Unmarshal(b, &k); err != nil {
		return nil, err
	}
	return &k, nil
}

func (k *KnownFile) match(f Finding) *KnownEntry {
	if f.Kind != "violation" {
		return nil
	}
	for i := range k.Entries {
		e := &k.Entries[i]
		if e.Status == "known" && e.Rule == f.Rule && e.Function == f.Func && e.Construct == f.Construct {
			return e
		}
	}
	return nil
}

// ---------------------------------------------------------------- evidence

type propInfo struct {
	Explanation string
	NotDecided  []string
	Assumptions []string
	Technique   string
}

func (r *Report) finish(tier string, seed int64, start time.Time, known *KnownFile, info propInfo, extra map[string]any, evidenceDir string, quiet bool) int {
	r.checkFloors()
	sort.SliceStable(r.Findings, func(i, j int) bool { return r.Findings[i].key() < r.Findings[j].key() })
	var fresh []Finding
	var knownHits []map[string]string
	for _, f := range r.Findings {
		if e := known.match(f); e != nil {
			if !quiet {
				fmt.Printf("KNOWN-FINDING: property=%s %s [%s in %s: %s] %s\n", r.Property, e.WhatFails, f.Rule, f.Func, f.Construct, f.Pos)
			}
			knownHits = append(knownHits, map[string]string{"rule": f.Rule, "function": f.Func, "construct": f.Construct, "pos": f.Pos, "what_fails": e.WhatFails, "id": e.ID})
			continue
		}
		fresh = append(fresh, f)
	}
	obligations, discharged, nontriv := 0, 0, map[string]bool{}
	for _, o := range r.Obls {
		obligations++
		if o.OK {
			discharged++
		}
		if o.Nontrivial {
			nontriv[o.Rule+"|"+o.Instance] = true
		}
	}
	var rules []*RuleMeta
	for _, id := range r.ruleOrder {
		rules = append(rules, r.Rules[id])
	}
	var samples []any
	perRule := map[string]int{}
	for _, o := range r.Obls {
		if perRule[o.Rule] >= 2 && o.OK {
			continue
		}
		perRule[o.Rule]++
		samples = append(samples, o)
		if len(samples) >= 40 {
			break
		}
	}
	var funcs []string
	for k := range r.Analysed {
		funcs = append(funcs, shortKey(k))
	}
	sort.Strings(funcs)
	var pkgs []string
	for _, p := range r.P.Pkgs {
		pkgs = append(pkgs, p.PkgPath)
	}
	cov := map[string]any{
		"explanation":         info.Explanation,
		"does_not_decide":     info.NotDecided,
		"obligations":         obligations,
		"discharged":          discharged,
		"evaluations":         obligations,
		"distinct_nontrivial": len(nontriv),
		"rule":                "one obligation per (rule, construct) instance found in /repo's current source; non-trivial = needed a path walk, lockset, table or call-graph computation (not a mere presence test); distinct by (rule, instance)",
		"samples":             samples,
		"rules":               rules,
		"functions_analysed":  funcs,
		"n_functions":         len(funcs),
		"call_sites_resolved": r.CallSites,
		"packages":            pkgs,
		"known_findings":      knownHits,
		"violations":          fresh,
		"notes":               r.Notes,
		"exhaustive":          true,
		"checker_cmd":         "bin/check -p " + r.Property + " -tier " + tier,
		"trusted_base":        []string{"go/types, go/ast (Go toolchain)", "golang.org/x/tools/go/packages v0.29.0", "the rule tables in /verif/checker", "sync, sync/atomic, container/heap, encoding/json semantics"},
	}
	for k, v := range extra {
		cov[k] = v
	}
	ev := map[string]any{
		"property_id": r.Property,
		"tier":        tier,
		"seed":        seed,
		"level":       "other",
		"coverage":    cov,
		"assumptions": info.Assumptions,
		"wall_s":      time.Since(start).Seconds(),
		"violations":  len(fresh),
		"technique":   info.Technique,
	}
	path := filepath.Join(evidenceDir, r.Property+".json")
	if evidenceDir != "" {
		os.MkdirAll(evidenceDir, 0o755)
		b, _ := json.MarshalIndent(ev, "", " ")
		if err := os.WriteFile(path, append(b, '\n'), 0o644); err != nil {
			fmt.Fprintf(os.Stderr, "cannot write evidence: %v\n", err)
			return 2
		}
	}
	if !quiet {
		fmt.Printf("%s %s: %d obligations, %d discharged, %d known finding(s), %d violation(s); %d functions analysed, %d rules\n",
			r.Property, tier, obligations, discharged, len(knownHits), len(fresh), len(funcs), len(rules))
	}
	if len(fresh) > 0 {
		for _, f := range fresh {
			tag := f.Rule
			if f.Kind == "undecided" {
				tag += " UNDECIDED"
			}
			if !quiet {
				fmt.Printf("%s: %s %s (in %s) [%s]\n", f.Pos, tag, f.Msg, f.Func, f.Construct)
			}
		}
		if !quiet {
			fmt.Printf("VIOLATION property=%s replay=%s\n", r.Property, path)
		}
		return 1
	}
	return 0
}

func joinNonEmpty(sep string, parts ...string) string {
	var out []string
	for _, p := range parts {
		if p != "" {
			out = append(out, p)
		}
	}
	return strings.Join(out, sep)
}
