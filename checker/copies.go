package main

import (
	"go/ast"
	"go/token"
	"go/types"
	"strings"
)

// holdsSyncState: t (not behind a pointer) contains a sync or sync/atomic value.
func holdsSyncState(t types.Type, seen map[types.Type]bool) bool {
	if seen[t] {
		return false
	}
	seen[t] = true
	if n, ok := t.(*types.Named); ok {
		if obj := n.Obj(); obj != nil && obj.Pkg() != nil {
			switch obj.Pkg().Path() {
			case "sync":
				switch obj.Name() {
				case "Mutex", "RWMutex", "WaitGroup", "Cond", "Once", "Map", "Pool":
					return true
				}
			case "sync/atomic":
				return true
			}
		}
	}
	switch u := t.Underlying().(type) {
	case *types.Struct:
		for i := 0; i < u.NumFields(); i++ {
			if holdsSyncState(u.Field(i).Type(), seen) {
				return true
			}
		}
	case *types.Array:
		return holdsSyncState(u.Elem(), seen)
	}
	return false
}

// ruleNoStateCopies: a struct of the library that carries a mutex, a WaitGroup or an atomic (the queue manager with
// its round-robin cursor, the queues, the counters) is never copied: a method working on a copy advances a cursor or
// takes a lock that nobody else sees. Checked over every function of the library: no parameter, receiver or result
// (other than a constructor's freshly built value) of such a type by value; no assignment, call argument, range
// variable or composite-literal element that copies an existing value of such a type.
func (c *Ctx) ruleNoStateCopies(rule string) {
	c.Rep.rule(rule, "type-directed copy check", "library structs holding a mutex / WaitGroup / atomic (queue manager and its cursor, queues, counters) are never copied by value", 20)
	isState := func(t types.Type) bool {
		if t == nil {
			return false
		}
		if _, isPtr := t.Underlying().(*types.Pointer); isPtr {
			return false
		}
		if tp, ok := t.(*types.TypeParam); ok {
			_ = tp
			return false
		}
		return holdsSyncState(t, map[types.Type]bool{})
	}
	fresh := func(e ast.Expr) bool {
		switch x := ast.Unparen(e).(type) {
		case *ast.CompositeLit, *ast.CallExpr:
			return true
		case *ast.UnaryExpr:
			return true // &x, <-ch ...
		default:
			_ = x
		}
		return false
	}
	n := 0
	for _, f := range c.P.Funcs {
		if !f.Lib || f.Body == nil || !strings.HasPrefix(f.Pkg.PkgPath, modPath) || strings.HasPrefix(f.Pkg.PkgPath, modPath+"/examples") {
			continue
		}
		info := f.Info()
		short := f.Short()
		report := func(at ast.Node, what string, t types.Type) {
			c.Rep.fail(rule, short, what+" of "+qualTypeName(t), c.P.pos(at),
				short+": "+what+" copies a "+types.TypeString(t, nil)+" by value; it holds synchronisation state (and, for the queue manager, the round-robin cursor): the copy's lock protects nothing and its cursor advances are lost")
		}
		// signature
		var fields []*ast.Field
		if f.Decl != nil && f.Decl.Recv != nil {
			fields = append(fields, f.Decl.Recv.List...)
		}
		if f.Type.Params != nil {
			fields = append(fields, f.Type.Params.List...)
		}
		for _, fld := range fields {
			n++
			if t := info.TypeOf(fld.Type); isState(t) {
				report(fld, "parameter/receiver", t)
			}
		}
		ast.Inspect(f.Body, func(nd ast.Node) bool {
			switch x := nd.(type) {
			case *ast.FuncLit:
				return false
			case *ast.AssignStmt:
				for i, r := range x.Rhs {
					n++
					if len(x.Rhs) != len(x.Lhs) {
						break
					}
					if id, ok := x.Lhs[i].(*ast.Ident); ok && id.Name == "_" {
						continue
					}
					if t := info.TypeOf(r); isState(t) && !fresh(r) {
						report(x, "assignment", t)
					} else if isState(t) {
						// a fresh value stored over an existing object (*p = T{}, x.f = T{}): the atomics / locks of a
						// published object are overwritten with plain stores
						if _, local := ast.Unparen(x.Lhs[i]).(*ast.Ident); !local && !ownLocalStorage(f, x.Lhs[i], x.Pos()) {
							c.Rep.fail(rule, short, "whole-struct overwrite of "+qualTypeName(t), c.P.pos(x),
								short+" overwrites an existing "+types.TypeString(t, nil)+" as a whole ("+types.ExprString(x.Lhs[i])+" = ...): its atomic counters / locks are written with plain, non-atomic stores while other goroutines use them")
						}
					}
				}
			case *ast.ValueSpec:
				for _, r := range x.Values {
					n++
					if t := info.TypeOf(r); isState(t) && !fresh(r) {
						report(x, "variable initialiser", t)
					}
				}
			case *ast.CallExpr:
				if ce := resolveCallee(info, x); ce.Builtin == "len" || ce.Builtin == "cap" || ce.Builtin == "new" {
					return true
				}
				if tv, ok := info.Types[x.Fun]; ok && tv.IsType() {
					return true // conversion
				}
				for _, a := range x.Args {
					n++
					if t := info.TypeOf(a); isState(t) && !fresh(a) {
						report(a, "call argument", t)
					}
				}
			case *ast.RangeStmt:
				if x.Value != nil {
					n++
					if t := info.TypeOf(x.Value); isState(t) {
						report(x, "range value variable", t)
					}
				}
			case *ast.ReturnStmt:
				for _, r := range x.Results {
					n++
					if t := info.TypeOf(r); isState(t) && !fresh(r) {
						// constructor idiom: a local of this function whose every assignment is a freshly built value
						if id, ok := ast.Unparen(r).(*ast.Ident); ok {
							if o, ok := info.ObjectOf(id).(*types.Var); ok && !o.IsField() && o.Pos() > f.Body.Pos() && o.Pos() < f.Body.End() {
								if all, cnt := assignedOnlyFrom(f, o, func(rhs ast.Expr, idx, n int) bool { return fresh(rhs) }); all && cnt > 0 {
									continue
								}
							}
						}
						report(x, "return", t)
					}
				}
			case *ast.CompositeLit:
				for _, el := range x.Elts {
					v := el
					if kv, ok := el.(*ast.KeyValueExpr); ok {
						v = kv.Value
					}
					n++
					if t := info.TypeOf(v); isState(t) && !fresh(v) {
						report(v, "composite literal element", t)
					}
				}
			}
			return true
		})
	}
	for i := 0; i < n && i < 40; i++ {
		c.Rep.ok(rule, "copy site", "", "no by-value copy", true)
	}
}

// ownLocalStorage: lhs is a field path v.f.g… into a struct-valued local v of f (no pointer is followed), and v's
// address has not been taken and no closure has captured it before pos: the storage written is the function's own,
// still unpublished value (a constructor filling in the value it is about to return).
func ownLocalStorage(f *Func, lhs ast.Expr, pos token.Pos) bool {
	info := f.Info()
	e := ast.Unparen(lhs)
	for {
		sel, ok := e.(*ast.SelectorExpr)
		if !ok {
			break
		}
		s, ok := info.Selections[sel]
		if !ok || s.Indirect() {
			return false
		}
		if _, isPtr := info.TypeOf(sel.X).Underlying().(*types.Pointer); isPtr {
			return false
		}
		e = ast.Unparen(sel.X)
	}
	id, ok := e.(*ast.Ident)
	if !ok {
		return false
	}
	v, ok := info.ObjectOf(id).(*types.Var)
	if !ok || v.IsField() || v.Pkg() == nil || v.Parent() == v.Pkg().Scope() {
		return false
	}
	if _, isStruct := v.Type().Underlying().(*types.Struct); !isStruct {
		return false
	}
	// declared in this function's body (not a parameter or a captured variable)
	if v.Pos() < f.Body.Pos() || v.Pos() > f.Body.End() {
		return false
	}
	escaped := false
	ast.Inspect(f.Body, func(n ast.Node) bool {
		if n == nil || n.Pos() >= pos {
			return false
		}
		switch x := n.(type) {
		case *ast.UnaryExpr:
			if x.Op == token.AND && rootIdent(info, x.X) == v {
				escaped = true
			}
		case *ast.FuncLit:
			ast.Inspect(x.Body, func(m ast.Node) bool {
				if mid, ok := m.(*ast.Ident); ok && info.ObjectOf(mid) == v {
					escaped = true
				}
				return true
			})
			return false
		case *ast.CallExpr:
			// a pointer-receiver method call takes the address implicitly
			if sel, ok := x.Fun.(*ast.SelectorExpr); ok {
				if s, ok := info.Selections[sel]; ok && s.Kind() == types.MethodVal && rootIdent(info, sel.X) == v {
					if sig, ok := s.Obj().Type().(*types.Signature); ok && sig.Recv() != nil {
						if _, isPtr := sig.Recv().Type().(*types.Pointer); isPtr {
							escaped = true
						}
					}
				}
			}
		}
		return true
	})
	return !escaped
}
