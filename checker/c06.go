package main

import (
	"fmt"
	"go/ast"
	"go/token"
	"go/types"
	"strings"
)

func init() {
	register(&propDef{
		ID: "C06",
		Info: propInfo{
			Technique:   "table extraction of the wait/release predicates over the abstract state space + lockset + path rules + lifecycle table",
			Explanation: "The barrier is a sync.Cond whose predicate reads the status, the pending count and the in-flight counter. (R06.1) the wait predicate, tabulated over status x {pending 0,>0} x {in-flight 0,>0}, equals the reference (Running: pending>0 or in-flight>0; Paused/Stopped: in-flight>0; otherwise false) and is re-evaluated in a loop around Cond.Wait; (R06.2) for Running and Paused, in every abstract state where the wait predicate is false the release evaluation reaches Broadcast; (R06.3) every Broadcast/Signal on the Cond runs with the Cond's own mutex held (this is what excludes the lost wake-up with atomic state); (R06.4) every step that can falsify the predicate re-evaluates the release: each in-flight decrement is followed by a release evaluation, the dispatcher evaluates it each time it has drained the queue, and Purge notifies the dispatcher; (R06.5) the in-flight counter is raised before the dequeue on every path of the dispatcher step, so a waiter never sees pending=0 and in-flight=0 while a job is between queue and pool; (R06.6) from the lifecycle table: PauseAndWait = Pause then wait; Stop waits before any tear-down and before storing Stopped; WaitAndStop = wait then Stop.",
			NotDecided:  []string{"several barrier callers interleaved with Resume/Pause", "fairness of sync.Cond", "sufficiency of the predicate protocol as a whole (model checking)"},
			Assumptions: []string{"sync.Cond semantics; sequentially consistent atomics"},
		},
		Run: runC06,
	})
}

func runC06(c *Ctx) {
	c.rulePredicates("R06.1", "R06.2")
	c.ruleBroadcastUnderLock("R06.3")
	c.ruleFalsifyingStepsWake("R06.4")
	c.ruleReserveBeforeDequeue("R06.5")
	c.ruleBarrierComposition("R06.6")
	// the barrier sees every dispatch: the step reserves its slot before it reads the status
	c.ruleReserveThenCheck("R06.7")
	c.ruleDecrementAfterClose("R06.8")
	// a barrier only ends if the wake-ups it depends on are really raised: the signal send is attempted under the
	// (blocking) read lock on every call
	c.ruleProtectedSends("R06.9")
	// the in-flight count is a term of every barrier condition: each job that was handed off gives its slot back
	// exactly once on every path of the completion (a fault path that keeps the slot leaves every waiter parked)
	c.ruleIncrementSite("R06.10")
	c.ruleDecrementSite("R06.10")
}

// predicateLeaves maps the operands of the barrier predicates to an abstract state.
func (c *Ctx) predicateLeaves(status string, pending, inflight int64) func(f *Func, e ast.Expr) (tval, bool) {
	R := c.R
	sv := c.workerStatus().ByName[status]
	return func(f *Func, e ast.Expr) (tval, bool) {
		call, ok := e.(*ast.CallExpr)
		if !ok {
			return tval{}, false
		}
		if fk, m := atomicOp(f.Info(), call); m == "Load" {
			switch fk {
			case R.FStatus:
				var i int64
				fmt.Sscan(sv, &i)
				return tval{I: i}, true
			case R.FInflight:
				return tval{I: inflight}, true
			}
		}
		if resolveCallee(f.Info(), call).Key == kMgrLen {
			return tval{I: pending}, true
		}
		return tval{}, false
	}
}

func (c *Ctx) rulePredicates(r1, r2 string) {
	R := c.R
	c.Rep.rule(r1, "E7 table", "wait predicate over status x pending x in-flight equals the reference; re-evaluated in a loop around Cond.Wait", 16)
	c.Rep.rule(r2, "E7 table", "for Running/Paused, wherever the wait predicate is false the release evaluation reaches Broadcast", 3)
	if R.WaitFn == nil || R.Release == nil {
		return
	}
	// the predicate: a boolean function (a local function literal or a library function) that reads the worker
	// status and whose result guards Cond.Wait
	info := R.WaitFn.Info()
	var pred *Func
	litOf := map[types.Object]*Func{}
	ast.Inspect(R.WaitFn.Body, func(n ast.Node) bool {
		if as, ok := n.(*ast.AssignStmt); ok && len(as.Lhs) == 1 && len(as.Rhs) == 1 {
			if lit, ok := ast.Unparen(as.Rhs[0]).(*ast.FuncLit); ok {
				if o := rootIdent(info, as.Lhs[0]); o != nil {
					litOf[o] = c.P.byLit[lit]
				}
			}
		}
		return true
	})
	isPred := func(f *Func) bool {
		if f == nil || f.Type.Results == nil || len(f.Type.Results.List) != 1 {
			return false
		}
		if b, ok := f.Info().TypeOf(f.Type.Results.List[0].Type).Underlying().(*types.Basic); !ok || b.Info()&types.IsBoolean == 0 {
			return false
		}
		return c.emits(f)["wstatus?"]
	}
	calleeFunc := func(fr *Frame, ce *Callee) *Func {
		if ce.Var != nil && ce.Field == "" {
			return litOf[ce.Var]
		}
		if ce.Lit != nil {
			return c.P.byLit[ce.Lit]
		}
		if f := c.P.byObj[ce.Key]; f != nil && f.Lib {
			return f
		}
		return nil
	}
	sr := &seqRule{c: c, rule: r1}
	sr.classify = func(fr *Frame, call *ast.CallExpr, ce *Callee, args []Value) *callEvent {
		if ce.Key == kCondWait {
			return &callEvent{Name: "condwait", Atomic: true}
		}
		if fr.Caller == nil {
			if f := calleeFunc(fr, ce); isPred(f) {
				pred = f
				return &callEvent{Name: "pred", Atomic: true, Results: tok("pred")}
			}
		}
		return nil
	}
	sr.condSym = func(fr *Frame, token, rel string) string { return token + "=" + rel }
	loopOK, waits := true, 0
	for _, sg := range sr.segments(R.WaitFn) {
		if !sg.has("condwait") {
			continue
		}
		waits++
		if sg.Kind != "iter" || !sg.before("pred=true", "condwait") || sg.How != "next" {
			loopOK = false
		}
	}
	c.Rep.check(loopOK && waits >= 1, r1, R.WaitFn.Short(), "Cond.Wait not inside a loop that re-evaluates the predicate", c.P.pos(R.WaitFn.Body), "every Cond.Wait is in a loop iteration that evaluated the predicate true, and the loop goes round again",
		"Cond.Wait must be called inside a loop that re-evaluates the wait predicate before every Wait and after every wake-up (a single `if` returns on any broadcast, also a stale one)")
	if pred == nil {
		c.Rep.undecided(r1, R.WaitFn.Short(), "wait predicate", c.P.pos(R.WaitFn.Body), "cannot identify the wait predicate (a boolean function reading the worker status whose result guards Cond.Wait)")
		return
	}
	// The dispatcher raises in-flight before it lowers pending (R06.5); a reader must look in the opposite order
	// — pending first, in-flight second — or it can see "0 in flight" (before the reservation) and then
	// "0 pending" (after the dequeue) for a job that has not run.
	ov := c.vocab([]string{"inflight?", "pending?"}, nil)
	osr := ov.seq(r1, false)
	obase := osr.classify
	osr.classify = func(fr *Frame, call *ast.CallExpr, ce *Callee, args []Value) *callEvent {
		if ce.Key == kMgrLen {
			return &callEvent{Name: "pending?", Atomic: true}
		}
		return obase(fr, call, ce, args)
	}
	for _, sg := range osr.segments(pred) {
		if sg.has("inflight?") && sg.has("pending?") {
			c.Rep.check(sg.index("pending?") < sg.index("inflight?"), r1, pred.Short(), "wait predicate reads in-flight before pending", sg.End, "pending read before in-flight",
				"the wait predicate reads the in-flight counter before the pending count: a job that is reserved and dequeued between the two reads is seen by neither, and the barrier returns before it ran ["+strings.Join(sg.Syms, " ")+"]")
		}
	}
	// the predicate is evaluated under the Cond's own lock (check-then-park must be atomic w.r.t. Broadcast)
	own := c.condLock(R.FCond)
	nload := 0
	for _, o := range c.lockFacts().Ops {
		if o.Op == "atomic:Load" && o.Fn == pred && strings.HasPrefix(o.Chain, R.WaitFn.Short()) {
			nload++
			_, held := o.Locks[own]
			c.Rep.check(held, r1, pred.Short(), "wait predicate evaluated without the Cond's lock", c.P.posOf(o.Pos), "predicate read under "+shortKey(own),
				"the wait predicate is evaluated without the Cond's lock held: a Broadcast can fall between the evaluation and Cond.Wait and is lost (locks "+locksString(o.Locks)+")")
		}
	}
	if nload == 0 {
		c.Rep.undecided(r1, pred.Short(), "no atomic read found in the predicate", c.P.pos(pred.Body), "the lockset walk did not reach the wait predicate")
	}
	ref := func(status string, pending, inflight int64) bool {
		switch status {
		case "Running":
			return pending > 0 || inflight > 0
		case "Paused", "Stopped":
			return inflight > 0
		}
		return false
	}
	waitTable := map[string]bool{}
	for _, st := range []string{"Initiated", "Running", "Paused", "Stopped"} {
		for _, p := range []int64{0, 3} {
			for _, i := range []int64{0, 2} {
				te := &tableEval{c: c, leaf: c.predicateLeaves(st, p, i)}
				res, ok := te.call(pred, nil)
				inst := fmt.Sprintf("wait predicate at status=%s pending=%d in-flight=%d", st, p, i)
				if !ok || len(res) != 1 || !res[0].IsBool {
					c.Rep.undecided(r1, pred.Short(), inst, c.P.pos(pred.Body), "wait predicate not evaluable: "+te.why)
					return
				}
				waitTable[fmt.Sprintf("%s|%d|%d", st, p, i)] = res[0].B
				want := ref(st, p, i)
				c.Rep.check(res[0].B == want, r1, pred.Short(), inst, c.P.pos(pred.Body), fmt.Sprintf("%s = %v", inst, want),
					fmt.Sprintf("%s is %v, the barrier semantics require %v (true = keep waiting)", inst, res[0].B, want))
			}
		}
	}
	// release predicate: releaseWaiters(processing) reaches Broadcast?
	for _, st := range []string{"Running", "Paused"} {
		for _, p := range []int64{0, 3} {
			for _, i := range []int64{0, 2} {
				if waitTable[fmt.Sprintf("%s|%d|%d", st, p, i)] {
					continue // waiters must keep waiting here; nothing required
				}
				reached := false
				te := &tableEval{c: c, leaf: c.predicateLeaves(st, p, i)}
				te.effect = func(f *Func, call *ast.CallExpr) bool {
					ce := resolveCallee(f.Info(), call)
					switch ce.Key {
					case kBroadcast:
						reached = true
						return true
					case kSignal:
						return true // wakes one waiter only: not a release (reported by the Broadcast rule)
					case "sync.RWMutex.Lock", "sync.RWMutex.Unlock", "sync.Mutex.Lock", "sync.Mutex.Unlock", "sync.RWMutex.RLock", "sync.RWMutex.RUnlock":
						return true
					}
					return false
				}
				_, ok := te.call(R.Release, []tval{{I: i}})
				inst := fmt.Sprintf("release evaluation at status=%s pending=%d in-flight=%d", st, p, i)
				if !ok {
					c.Rep.undecided(r2, R.Release.Short(), inst, c.P.pos(R.Release.Body), "release evaluation not evaluable: "+te.why)
					return
				}
				c.Rep.check(reached, r2, R.Release.Short(), inst, c.P.pos(R.Release.Body), inst+" reaches Broadcast",
					inst+" does not reach Broadcast although the wait predicate is false there: a waiter parked earlier is never woken")
			}
		}
	}
}

func (c *Ctx) ruleBroadcastUnderLock(rule string) {
	R := c.R
	c.Rep.rule(rule, "E4 lockset", "every Broadcast/Signal on the barrier Cond runs with the Cond's own mutex held", 1)
	own := c.condLock(R.FCond)
	n := 0
	for _, o := range c.lockFacts().Ops {
		if o.Op != "broadcast" || o.Extra != R.FCond {
			continue
		}
		n++
		_, held := o.Locks[own]
		c.Rep.check(held && own != "", rule, o.Fn.Short(), "Broadcast without the Cond's lock", c.P.posOf(o.Pos), "Broadcast under "+shortKey(own),
			fmt.Sprintf("Broadcast on %s is executed without %s held (locks %s, via %s): it can fall between a waiter's predicate evaluation and its parking, and is then lost", shortKey(R.FCond), shortKey(own), locksString(o.Locks), o.Chain))
	}
	if n == 0 {
		c.Rep.fail(rule, "-", "no Broadcast on the barrier Cond", "", "nobody ever broadcasts on the barrier Cond: waiters are never woken")
	}
	// any number of barrier callers may be parked on the one Cond: a release is a Broadcast, never a Signal
	for _, cs := range c.P.allCalls(false) {
		if cs.Callee.Key == kSignal && cs.In.Pkg.PkgPath == modPath {
			c.Rep.fail(rule, cs.In.Short(), "Signal on the barrier Cond", c.P.pos(cs.Call),
				cs.In.Short()+" wakes the barrier with Cond.Signal: only one of the parked callers (WaitUntilFinished, PauseAndWait, Stop, WaitAndStop may all wait at once) is woken, the others sleep although their condition holds")
		}
	}
}

func (c *Ctx) ruleFalsifyingStepsWake(rule string) {
	R := c.R
	c.Rep.rule(rule, "E2 path", "each in-flight decrement is followed by a release evaluation; the dispatcher evaluates the release each time it drained the queue; Purge notifies the dispatcher; every store of Paused is followed by a release evaluation", 4)
	// Running → Paused weakens what parked callers wait for (pending no longer counts): whoever stores Paused
	// re-evaluates the release
	lt := c.lifecycle()
	for _, m := range lt.Methods {
		for _, s := range lt.States {
			for _, o := range lt.cell(m, s) {
				for i, e := range o.Effects {
					if e != "wstatus:Paused" {
						continue
					}
					rel := false
					for _, e2 := range o.Effects[i+1:] {
						if e2 == "release" {
							rel = true
						}
					}
					c.Rep.check(rel, rule, m, "Paused stored without a release evaluation (from "+s+")", o.End, "wstatus:Paused … release",
						fmt.Sprintf("%s from %s stores Paused and does not re-evaluate the barrier release: a WaitUntilFinished caller parked while the worker was running (waiting for the queue to empty) is not woken although, with the worker paused and nothing in flight, its condition now holds (%s)", m, s, o))
				}
			}
		}
	}
	for _, f := range []*Func{R.Completion, R.Step} {
		if f == nil {
			continue
		}
		v := c.vocab([]string{"inflight-", "release"}, map[string]bool{"release": true})
		for _, sg := range v.seq(rule, false).segments(f) {
			if !sg.has("inflight-") {
				continue
			}
			c.Rep.check(sg.followedBy("inflight-", "release"), rule, f.Short(), "in-flight decrement without release evaluation", sg.End, "release evaluated after the decrement",
				"the in-flight counter is lowered without re-evaluating the barrier release afterwards: a waiter for in-flight==0 is never woken ["+strings.Join(sg.Syms, " ")+"]")
		}
	}
	if R.DispLoop != nil {
		v := c.vocab([]string{"step", "release"}, map[string]bool{"step": true, "release": true})
		outer := 0
		dsr := v.seq(rule, false)
		// `if w.queues.Len() == 0 { release }`: the release is only needed once the queue was found empty (while jobs
		// are pending, a parked caller is woken by a later completion, or by Pause's own release evaluation)
		dsr.condExpr = func(fr *Frame, e ast.Expr, branch bool, ip *Interp, st *State) string {
			be, op := binOp(e)
			if be == nil {
				return ""
			}
			info := fr.Fn.Info()
			x, y := be.X, be.Y
			isLen := func(e ast.Expr) bool {
				call, ok := ast.Unparen(e).(*ast.CallExpr)
				if !ok {
					return false
				}
				k := resolveCallee(info, call).Key
				return k == kMgrLen || k == kLenI
			}
			zero := func(e ast.Expr) bool { tv := info.Types[e]; return tv.Value != nil && tv.Value.ExactString() == "0" }
			if !(isLen(x) && zero(y)) {
				return ""
			}
			switch op {
			case token.EQL:
				return fmt.Sprintf("pending-empty=%v", branch)
			case token.GTR, token.NEQ:
				return fmt.Sprintf("pending-empty=%v", !branch)
			}
			return ""
		}
		for _, sg := range dsr.segments(R.DispLoop) {
			if sg.Kind != "iter" {
				continue
			}
			// an outer iteration is one that contains the summary marker of the inner loop
			inner := -1
			for i, s := range sg.Syms {
				if strings.HasPrefix(s, "loop@") {
					inner = i
				}
			}
			if inner < 0 {
				continue
			}
			outer++
			after := false
			for _, s := range sg.Syms[inner+1:] {
				if s == "release" || s == "pending-empty=false" {
					after = true
				}
			}
			c.Rep.check(after && sg.How != "exit", rule, R.DispLoop.Short(), "queue drained without a release evaluation", sg.End, "release evaluated after the dispatch loop drained",
				"after draining the queue the dispatcher goes back to waiting for a signal without re-evaluating the barrier release: when the last pending jobs were cancelled or purged no completion will ever wake the waiters ["+strings.Join(sg.Syms, " ")+"]")
		}
		if outer == 0 {
			c.Rep.undecided(rule, R.DispLoop.Short(), "loop structure", c.P.pos(R.DispLoop.Body), "the dispatcher goroutine is not an outer receive loop around an inner dispatch loop")
		}
	}
	if purge := c.P.FuncByKey("externalBaseQueue.Purge"); purge != nil {
		v := c.vocab([]string{"qpurge", "notify"}, nil)
		for _, sg := range v.seq(rule, false).segments(purge) {
			if sg.Kind == "path" {
				c.Rep.check(sg.followedBy("qpurge", "notify") && sg.has("qpurge"), rule, purge.Short(), "Purge does not notify the dispatcher", sg.End, "notify after the purge", "Purge empties the queue without notifying the dispatcher (which would re-evaluate the barrier release)")
			}
		}
	}
}

func (c *Ctx) ruleReserveBeforeDequeue(rule string) {
	R := c.R
	c.Rep.rule(rule, "E2 path", "the in-flight counter is raised before the dequeue on every path of the dispatcher step", 1)
	if R.Step == nil {
		return
	}
	v := c.vocab([]string{"inflight+", "deq"}, nil)
	n := 0
	for _, sg := range v.seq(rule, false).segments(R.Step) {
		if !sg.has("deq") {
			continue
		}
		n++
		c.Rep.check(sg.before("inflight+", "deq"), rule, R.Step.Short(), "dequeue before the in-flight reservation", sg.End, "in-flight raised before the dequeue",
			"a job is dequeued before the in-flight counter is raised: between the two a barrier waiter reads pending=0 and in-flight=0 and returns although the job has not run ["+strings.Join(sg.Syms, " ")+"]")
	}
	if n == 0 {
		c.Rep.undecided(rule, R.Step.Short(), "no dequeue path", "", "no path of the step dequeues")
	}
}

func (c *Ctx) ruleBarrierComposition(rule string) {
	c.Rep.rule(rule, "E3 lifecycle table", "PauseAndWait = Pause then wait; Stop waits before any tear-down and before Stopped; WaitAndStop = wait then Stop", 6)
	t := c.lifecycle()
	teardown := []string{"stoptickers", "closechans", "stopall", "wstatus:Stopped", "cancel"}
	for _, s := range []string{"Running", "Paused"} {
		for _, o := range t.cell("PauseAndWait", s) {
			good := o.has("wait") && (s != "Running" || (o.idx("wstatus:Paused") >= 0 && o.idx("wstatus:Paused") < o.idx("wait")))
			c.Rep.check(good, rule, "PauseAndWait", "from "+s+": no wait after the pause", o.End, "PauseAndWait from "+s+": "+o.String(), "PauseAndWait from "+s+" must pause and then wait for the in-flight jobs: "+o.String())
		}
		for _, m := range []string{"Stop", "WaitAndStop"} {
			for _, o := range t.cell(m, s) {
				w := o.idx("wait")
				good := w >= 0 && o.Final == "Stopped"
				for _, e := range teardown {
					if i := o.idx(e); i >= 0 && i < w {
						good = false
					}
				}
				if m == "WaitAndStop" {
					good = good && w == 0
				}
				c.Rep.check(good, rule, m, "from "+s+": tear-down before the wait", o.End, m+" from "+s+": "+o.String(), m+" from "+s+" must wait for the in-flight jobs before tearing anything down and before storing Stopped: "+o.String())
			}
		}
	}
}

// ruleDecrementAfterClose: a barrier call returns when it sees no pending and no in-flight job; "the job is over" has to
// include its Close (which acknowledges it on persistent/distributed queues and releases its Wait). In the completion
// callback the in-flight decrement therefore comes after the worker function, the Finished store and the Close.
func (c *Ctx) ruleDecrementAfterClose(rule string) {
	R := c.R
	c.Rep.rule(rule, "E2 path", "completion callback: worker function, Close, and only then the in-flight decrement", 1)
	if R.Completion == nil {
		return
	}
	v := c.vocab([]string{"wf", "close", "inflight-"}, map[string]bool{"close": true})
	for _, sg := range v.seq(rule, false).segments(R.Completion) {
		if sg.Kind != "path" || !sg.has("inflight-") {
			continue
		}
		good := sg.has("wf") && sg.has("close") && sg.index("wf") < sg.index("close") && sg.lastIndex("close") < sg.index("inflight-")
		c.Rep.check(good, rule, R.Completion.Short(), "slot released before the job is closed", sg.End, "wf, close, then inflight-",
			"the completion callback lowers the in-flight counter before the job has been closed (acknowledged): a barrier call arriving in between sees nothing pending and nothing in flight and returns, although the job is not yet acknowledged — after WaitAndStop and process exit it would be redelivered ["+strings.Join(sg.Syms, " ")+"]")
	}
}
