package main

import (
	"fmt"
	"go/ast"
	"go/token"
	"go/types"
	"strings"
)

func init() {
	register(&propDef{
		ID: "C16",
		Info: propInfo{
			Technique:   "path analysis of the submit family + status-writer inventory + interference-mode CAS analysis",
			Explanation: "(R16.1) in every Add/AddAll that hands a job handle to the user, the Queued status is stored before the Enqueue that makes the job visible to the dispatcher (before that the creator holds the only reference), and never after it; (R16.2) writer inventory: the job status is written with a plain store only at construction/decoding, as Queued in the submit paths and as Finished in the completion callback after the worker function; every other transition is a compare-and-swap; (R16.3) the compare-and-swap transitions only move forward: to Processing from a non-Closed state, to Closed from Created/Queued/Finished (R10.1), so no late store can move a handle backwards once Wait has returned.",
			NotDecided:  []string{"what a sampler reads between two atomic stores (nothing to decide: stores are atomic and ordered along one owner pipeline by R05.1)"},
			Assumptions: []string{"sync/atomic semantics"},
		},
		Run: runC16,
	})
	register(&propDef{
		ID: "C17",
		Info: propInfo{
			Technique:   "lockset over atomic counter reads + path analysis of submit/completion/wrappers + who-may-call",
			Explanation: "(R17.1) a function that combines two separately loaded counters of one struct arithmetically holds the lock under which both are written (Queue.Len was the counter-example, fixed); (R17.2) Submitted is counted exactly once on the accepting path of every worker-bound submit function and never on a rejecting one, and once per 'enqueued' announcement; (R17.3) every wrapper counts exactly one of Successful/Failed and the completion callback exactly one Completed after the worker function; (R17.4) every queue is registered exactly once (R15.1), Manager.Len sums Len() over all items under the read lock, and a queue's NumPending is its own Len(); (R17.5) in-flight inc/dec pairing (R02.1/R02.2): never negative, never above the limit; (R17.6) Purge resets both FIFO counters together under the write lock.",
			NotDecided:  []string{"transient over/under-counts between atomics of different objects", "Metrics.Reset racing updates"},
			Assumptions: []string{"lock identity per (type, field)"},
		},
		Run: runC17,
	})
	register(&propDef{
		ID: "C18",
		Info: propInfo{
			Technique:   "goroutine inventory (every go statement classified with its blocking operations and releasing events) + lifecycle table + path rules + table extraction",
			Explanation: "(R18.1) every go statement of the library is classified: what its body blocks on and which event releases it; a loop that receives from a time.Ticker's channel must have another exit (Ticker.Stop does not close C) whose channel is closed by the function Stop calls; a goroutine ranging over the signal channel is released by closeChannels; a pool goroutine by the stop payload; the context listener by the cancel function — each releasing event occurs in every Stop outcome of the lifecycle table; an unclassifiable go statement fails the run; (R18.2) Stop from Running/Paused performs wait, stopTickers, closeChannels, stopAndRemoveAllWorkers, Stopped (and cancel when a context exists), Restart removes the idle nodes before starting again; (R18.3) pool nodes are created only by the hand-off on the empty-idle-list branch and once in start; (R18.4) a slice of a NodeSlice() snapshot by a non-constant bound is preceded by a comparison of that bound with the length of the same snapshot; (R18.5) numMinIdleWorkers evaluates to max(limit*ratio/100, 1) on sample points, freePoolNode keeps the node when fewer than the minimum are idle, TunePool's shrink loop continues only while strictly more than the minimum are idle and takes nodes only by PopBack.",
			NotDecided:  []string{"timing of expiry", "peak goroutines during a shrink under load", "the numeric ratio for all inputs (sample points only)"},
			Assumptions: []string{"time.Ticker.Stop does not close C (documented)"},
		},
		Run: runC18,
	})
}

func runC16(c *Ctx) {
	c.ruleQueuedBeforePublication("R16.1")
	c.rulePlainStatusStoresAs("R16.2")
	c.ruleCompletionOrder("R16.2")
	c.ruleCasTransitions("R16.3")
	c.ruleWaitWaits("R16.4")
	// Wait is released only by the Close that won the transition to Closed
	c.ruleCloseEffectsNeedWin("R16.5")
	// "Processing for as long as the worker function runs": Finished is stored when the wrapper returns, so the wrapper
	// runs the user's function synchronously
	c.ruleWorkerFuncSynchronous("R16.6")
}

func (c *Ctx) ruleQueuedBeforePublication(rule string) {
	c.Rep.rule(rule, "E2 path", "Queued is stored before the Enqueue that publishes the job, never after it", 12)
	n := 0
	for _, f := range c.submitFuncs() {
		// only functions that hand a job handle back (in-memory queues): they have a Queued store or return the job
		returnsHandle := f.Type.Results != nil && (len(f.Type.Results.List) == 2 || c.returnsGroup(f))
		if !returnsHandle && !c.emits(f)["status:Queued"] {
			continue
		}
		for _, sg := range c.submitSegments(f) {
			if !sg.has("enq") {
				continue
			}
			n++
			desc := "[" + strings.Join(sg.Syms, " ") + "]"
			qi := sg.index("status:Queued")
			good := qi >= 0 && qi < sg.index("enq") && sg.lastIndex("status:Queued") < sg.index("enq")
			// no other plain status store after the job became visible (Close on the reject path is a CAS inside Close)
			for i, s := range sg.Syms {
				if strings.HasPrefix(s, "status:") && i > sg.index("enq") && s != "status:Closed" {
					good = false
				}
			}
			c.Rep.check(good, rule, f.Short(), "Queued stored after Enqueue", sg.End, "Queued stored before the job is published",
				"the Queued status must be stored before Enqueue makes the job visible to the dispatcher; a store after it can overwrite Processing/Finished/Closed and the handle's status goes backwards: "+desc)
		}
	}
	if n == 0 {
		c.Rep.undecided(rule, "-", "no publishing path", "", "no submit path found")
	}
}

func (c *Ctx) returnsGroup(f *Func) bool {
	if f.Type.Results == nil || len(f.Type.Results.List) != 1 {
		return false
	}
	t := f.Info().TypeOf(f.Type.Results.List[0].Type)
	if t == nil {
		return false
	}
	ms := types.NewMethodSet(t)
	for i := 0; i < ms.Len(); i++ {
		if ms.At(i).Obj().Name() == "NumPending" {
			return true
		}
	}
	return false
}

func (c *Ctx) rulePlainStatusStoresAs(rule string) {
	c.rulePlainStatusStores(rule)
}

// ---------------------------------------------------------------- C17

func runC17(c *Ctx) {
	c.ruleMultiCounterReads("R17.1")
	c.ruleSubmittedOnce("R17.2")
	c.ruleCompletedOnce("R17.3")
	c.rulePendingSums("R17.4")
	c.ruleIncrementSite("R17.5")
	c.ruleDecrementSite("R17.5")
	c.rulePurgeResetsBoth("R17.6")
	// Submitted is counted once per accepted job: persistent queues count in Add, only distributed queues subscribe
	c.rulePersistentAccept("R17.7")
	c.ruleDistributedBinders("R17.9")
	// NumProcessing <= NumConcurrency needs one dispatcher at a time
	c.ruleOneDispatcher("R17.8")
	c.ruleDispatcherJoined("R17.10")
}

func (c *Ctx) ruleMultiCounterReads(rule string) {
	c.Rep.rule(rule, "E4 lockset", "a function combining two separately loaded counters of one struct holds the lock under which both are written", 1)
	lf := c.lockFacts()
	// writers' locks per atomic field
	writeLocks := map[string][]map[string]string{}
	for _, o := range lf.Ops {
		if strings.HasPrefix(o.Op, "atomic:") && o.Op != "atomic:Load" {
			writeLocks[o.Extra] = append(writeLocks[o.Extra], o.Locks)
		}
	}
	n := 0
	for _, f := range c.P.Funcs {
		if f.Body == nil {
			continue
		}
		info := f.Info()
		// locals assigned from Load of an atomic field
		loaded := map[types.Object]string{}
		ast.Inspect(f.Body, func(x ast.Node) bool {
			if as, ok := x.(*ast.AssignStmt); ok && len(as.Lhs) == 1 && len(as.Rhs) == 1 {
				if call, ok := ast.Unparen(as.Rhs[0]).(*ast.CallExpr); ok {
					if fk, m := atomicOp(info, call); m == "Load" && fk != "" {
						if o := rootIdent(info, as.Lhs[0]); o != nil {
							loaded[o] = fk
						}
					}
				}
			}
			return true
		})
		operand := func(e ast.Expr) string {
			e = ast.Unparen(e)
			if call, ok := e.(*ast.CallExpr); ok {
				if ce := resolveCallee(info, call); ce.Conv && len(call.Args) == 1 {
					e = ast.Unparen(call.Args[0])
				}
			}
			if call, ok := e.(*ast.CallExpr); ok {
				if fk, m := atomicOp(info, call); m == "Load" {
					return fk
				}
			}
			if id, ok := e.(*ast.Ident); ok {
				return loaded[info.ObjectOf(id)]
			}
			return ""
		}
		ast.Inspect(f.Body, func(x ast.Node) bool {
			be, ok := x.(*ast.BinaryExpr)
			if !ok || (be.Op != token.SUB && be.Op != token.ADD) {
				return true
			}
			a, b := operand(be.X), operand(be.Y)
			if a == "" || b == "" || a == b || a[:strings.LastIndex(a, ".")] != b[:strings.LastIndex(b, ".")] {
				return true
			}
			n++
			// lockset at the loads in f
			var readLocks []map[string]string
			for _, o := range lf.Ops {
				if o.Op == "atomic:Load" && o.Fn == f && (o.Extra == a || o.Extra == b) {
					readLocks = append(readLocks, o.Locks)
				}
			}
			good := len(readLocks) > 0
			for _, fld := range []string{a, b} {
				for _, wl := range writeLocks[fld] {
					for _, rl := range readLocks {
						common := false
						for l, m := range wl {
							if m == "W" {
								if _, ok := rl[l]; ok {
									common = true
								}
							}
						}
						if !common {
							good = false
						}
					}
				}
			}
			c.Rep.check(good, rule, f.Short(), "two counters combined without the writers' lock", c.P.pos(be), "both loads under the lock their writers hold",
				fmt.Sprintf("%s combines %s and %s, loaded separately, without holding the lock under which they are updated: the pair can be inconsistent (negative or huge result)", f.Short(), shortKey(a), shortKey(b)))
			return true
		})
	}
	if n == 0 {
		c.Rep.ok(rule, "no function combines two separately loaded counters", "", "all arithmetic on atomic loads enumerated", false)
	}
}

func (c *Ctx) ruleSubmittedOnce(rule string) {
	c.Rep.rule(rule, "E2 path", "Submitted exactly once per accepted submission, never on rejection; once per 'enqueued' announcement", 14)
	for _, f := range c.submitFuncs() {
		if !c.hasWorker(f) {
			continue
		}
		for _, sg := range c.submitSegments(f) {
			if !sg.has("enq") {
				continue
			}
			want := 0
			if sg.has("enqok=true") {
				want = 1
			}
			c.Rep.check(sg.count("Submitted") == want && (want == 0 || sg.index("enq") < sg.index("Submitted")), rule, f.Short(), "Submitted count", sg.End,
				fmt.Sprintf("Submitted counted %d time(s) on this path", want), fmt.Sprintf("Submitted is counted %d time(s) on a path where the submission was %s (expected %d) [%s]", sg.count("Submitted"), map[bool]string{true: "accepted", false: "rejected"}[want == 1], want, strings.Join(sg.Syms, " ")))
		}
	}
	for _, h := range c.subscriptionHandlers() {
		c.handlerSegments(rule, h, false)
	}
}

func (c *Ctx) ruleCompletedOnce(rule string) {
	R := c.R
	c.Rep.rule(rule, "E2 path", "one Completed per completion after the worker function; one of Successful/Failed per invocation", 4)
	if R.Completion != nil {
		v := c.vocab([]string{"wf", "Completed", "inflight-"}, nil)
		for _, sg := range v.seq(rule, false).segments(R.Completion) {
			c.Rep.check(sg.count("Completed") == 1 && sg.before("wf", "Completed"), rule, R.Completion.Short(), "Completed count", sg.End, "exactly one Completed, after the worker function",
				"the completion callback must count exactly one Completed, after the worker function returned ["+strings.Join(sg.Syms, " ")+"]")
			// "at rest" is what WaitUntilFinished returns on: the job is counted before its slot is released
			if sg.has("inflight-") && sg.has("Completed") {
				c.Rep.check(sg.index("Completed") < sg.index("inflight-"), rule, R.Completion.Short(), "Completed counted after the slot is released", sg.End, "Completed before the in-flight decrement",
					"the completion callback releases its in-flight slot (and with it the barrier waiters) before it counts the job as Completed: a caller returning from WaitUntilFinished reads Completed one short of Successful+Failed ["+strings.Join(sg.Syms, " ")+"]")
			}
		}
	}
	c.ruleWrapperAccounting(rule)
	c.ruleWhoCounts(rule)
}

// ruleWhoCounts: Completed only in the completion callback, Successful/Failed only in the worker-function wrappers,
// Submitted only in the submit functions and the subscription handler; the counters themselves only through inc*/Reset.
func (c *Ctx) ruleWhoCounts(rule string) {
	R := c.R
	wrappers := c.fieldFuncTargets(R.FWorkerFn)
	var submitters []*Func
	submitters = append(submitters, c.submitFuncs()...)
	submitters = append(submitters, c.subscriptionHandlers()...)
	for m, allowed := range map[string][]*Func{"incCompleted": {R.Completion}, "incSuccessful": wrappers, "incFailed": wrappers, "incSubmitted": submitters} {
		keys := R.MetricKeys[m]
		c.whoMayCall(rule, m, func(cs CallSite) bool { return keys[cs.Callee.Key] }, inOrUnder(allowed...), map[string]string{
			"incCompleted": "the completion callback", "incSuccessful": "a worker-function wrapper", "incFailed": "a worker-function wrapper", "incSubmitted": "a submit function or the subscription handler"}[m])
	}
	// metrics counters are only touched through the inc* methods and Reset
	metricsT := modPath + ".metrics"
	c.whoMayCall(rule, "update of a metrics counter", func(cs CallSite) bool {
		fk, m := atomicOp(cs.In.Info(), cs.Call)
		return strings.HasPrefix(fk, metricsT+".") && m != "Load"
	}, func(f *Func) bool {
		return f.Obj != nil && (strings.HasPrefix(f.Obj.Name(), "inc") || f.Obj.Name() == "Reset")
	}, "an inc* method or Reset")
}

func (c *Ctx) rulePendingSums(rule string) {
	c.Rep.rule(rule, "E2", "queues registered once; Manager.Len sums every item's Len under the read lock; a queue's NumPending is its own Len()", 3)
	c.ruleRegisteredOnce(rule)
	mgr := modPath + "/internal/helpers.Manager"
	if f := c.P.byObj[kMgrLen]; f != nil {
		info := f.Info()
		good := false
		ast.Inspect(f.Body, func(n ast.Node) bool {
			var item, key types.Object
			var body *ast.BlockStmt
			switch rs := n.(type) {
			case *ast.RangeStmt:
				if selField(info, rs.X) != mgr+".items" {
					return true
				}
				if rs.Value != nil {
					item = rootIdent(info, rs.Value)
				}
				if rs.Key != nil {
					key = rootIdent(info, rs.Key)
				}
				body = rs.Body
			case *ast.ForStmt:
				// for i := 0; i < len(m.items); i++
				key = indexLoopVar(f, rs, func(e ast.Expr) bool { return selField(info, e) == mgr+".items" })
				if key == nil {
					return true
				}
				body = rs.Body
			default:
				return true
			}
			isElem := func(e ast.Expr) bool {
				e = ast.Unparen(e)
				if id, ok := e.(*ast.Ident); ok {
					return item != nil && info.ObjectOf(id) == item
				}
				if ix, ok := e.(*ast.IndexExpr); ok {
					return key != nil && selField(info, ix.X) == mgr+".items" && rootIdent(info, ix.Index) == key
				}
				return false
			}
			for _, s := range body.List {
				if as, ok := s.(*ast.AssignStmt); ok && as.Tok == token.ADD_ASSIGN && len(as.Rhs) == 1 {
					if call, ok := ast.Unparen(as.Rhs[0]).(*ast.CallExpr); ok {
						if ce := resolveCallee(info, call); ce.Fn != nil && ce.Fn.Name() == "Len" && ce.Recv != nil && isElem(ce.Recv) {
							// the accumulator is what is returned
							acc := rootIdent(info, as.Lhs[0])
							ast.Inspect(f.Body, func(m ast.Node) bool {
								if ret, ok := m.(*ast.ReturnStmt); ok && len(ret.Results) == 1 && rootIdent(info, ret.Results[0]) == acc {
									good = true
								}
								return true
							})
						}
					}
				}
			}
			return true
		})
		c.Rep.check(good, rule, f.Short(), "Manager.Len does not sum the items' lengths", c.P.pos(f.Body), "sum of Len() over all items", "the worker's pending count must be the sum of Len() over every registered queue")
		held := false
		for _, a := range c.lockFacts().Accesses {
			if a.Field == mgr+".items" && a.Fn == f && !a.Write {
				if _, ok := a.Locks[mgr+".mx"]; ok {
					held = true
				} else {
					held = false
					break
				}
			}
		}
		c.Rep.check(held, rule, f.Short(), "Manager.Len reads the items without the manager lock", c.P.pos(f.Body), "items read under Manager.mx", "Manager.Len must read the item list under the manager's lock")
	}
	if f := c.P.FuncByKey("externalBaseQueue.NumPending"); f != nil {
		good := false
		isOwnLen := func(e ast.Expr) bool {
			call, ok := ast.Unparen(e).(*ast.CallExpr)
			return ok && resolveCallee(f.Info(), call).Key == kLenI && c.isReceiverField(f, call.Fun)
		}
		ast.Inspect(f.Body, func(n ast.Node) bool {
			ret, ok := n.(*ast.ReturnStmt)
			if !ok || len(ret.Results) != 1 {
				return true
			}
			if isOwnLen(ret.Results[0]) {
				good = true
			} else if o := rootIdent(f.Info(), ret.Results[0]); o != nil {
				if all, cnt := assignedOnlyFrom(f, o, func(rhs ast.Expr, idx, n int) bool { return isOwnLen(rhs) }); all && cnt > 0 {
					if _, isId := ast.Unparen(ret.Results[0]).(*ast.Ident); isId {
						good = true
					}
				}
			}
			return true
		})
		c.Rep.check(good, rule, f.Short(), "NumPending is not the queue's own Len()", c.P.pos(f.Body), "returns the bound queue's Len()", "a queue's NumPending must be the Len() of the queue it wraps")
	}
}

func (c *Ctx) rulePurgeResetsBoth(rule string) {
	c.Rep.rule(rule, "E4", "FIFO Purge resets both counters together under the write lock", 2)
	r := c.pqRoles(rule)
	if r.fifo == nil {
		return
	}
	q := qualTypeName(r.fifo)
	var purge *Func
	for _, f := range c.P.Funcs {
		if f.Obj != nil && f.Obj.Name() == "Purge" && f.Decl.Recv != nil {
			if n := namedOf(f.Obj.Type().(*types.Signature).Recv().Type()); n != nil && n.Origin() == r.fifo {
				purge = f
			}
		}
	}
	if purge == nil {
		c.Rep.undecided(rule, "Queue.Purge", "missing", "", "")
		return
	}
	reset := map[string]bool{}
	for _, o := range c.lockFacts().Ops {
		if o.Fn == purge && o.Op == "atomic:Store" && strings.HasPrefix(o.Extra, q+".") {
			c.Rep.check(o.Locks[q+".mx"] == "W", rule, purge.Short(), "counter reset without the write lock", c.P.posOf(o.Pos), shortKey(o.Extra)+" reset under the write lock", "Purge resets "+shortKey(o.Extra)+" without holding the queue's write lock")
			reset[o.Extra] = true
		}
	}
	c.Rep.check(reset[q+".readCount"] && reset[q+".writeCount"], rule, purge.Short(), "Purge does not reset both counters", c.P.pos(purge.Body), "both counters reset", "Purge must reset the read and the write counter together (otherwise Len() is wrong for the rest of the queue's life)")
	// and to zero
	for _, cs := range c.P.calls(purge) {
		if fk, m := atomicOp(purge.Info(), cs.Call); m == "Store" && strings.HasPrefix(fk, q+".") && len(cs.Call.Args) == 1 {
			tv := purge.Info().Types[cs.Call.Args[0]]
			c.Rep.check(tv.Value != nil && tv.Value.ExactString() == "0", rule, purge.Short(), "counter reset to a non-zero value", c.P.pos(cs.Call), "reset to 0", "Purge must reset the counters to zero")
		}
	}
}

// ---------------------------------------------------------------- C18

func runC18(c *Ctx) {
	c.ruleGoroutineInventory("R18.1")
	c.ruleStopTearsDown("R18.2")
	c.ruleNodeCreation("R18.3")
	c.ruleSnapshotBounds("R18.4")
	c.ruleMinimumIdle("R18.5")
	c.ruleNodeKeptOrRetired("R18.6")
	// TunePool makes the new limit effective: it stores the limit and only then wakes the dispatcher
	c.ruleNotifyAfterChange("R18.7")
	// ... and the dispatcher compares the in-flight count with the limit as it is now, before every hand-off
	c.ruleDispatcherLoop("R18.8")
	// "idle that long": the idle time is measured from the moment the worker became idle
	c.ruleIdleStamp("R18.9")
	c.Rep.rule("R01.4", "typestate", "Send/Stop/PushNode/Cache.Put on a pool node require ownership (a stopped node that still serves a job, or an idle node that is stopped, breaks the pool accounting)", 6)
	c.runOwnership("R01.4")
}

type goSite struct {
	stmt *ast.GoStmt
	in   *Func
	body *Func
}

func (c *Ctx) goSites() []goSite {
	var out []goSite
	for _, f := range c.P.Funcs {
		if f.Body == nil {
			continue
		}
		ast.Inspect(f.Body, func(n ast.Node) bool {
			switch x := n.(type) {
			case *ast.FuncLit:
				return false
			case *ast.GoStmt:
				gs := goSite{stmt: x, in: f}
				if lit, ok := ast.Unparen(x.Call.Fun).(*ast.FuncLit); ok {
					gs.body = c.P.byLit[lit]
				} else if g := c.P.byObj[resolveCallee(f.Info(), x.Call).Key]; g != nil {
					gs.body = g
				}
				out = append(out, gs)
			}
			return true
		})
	}
	return out
}

func (c *Ctx) ruleGoroutineInventory(rule string) {
	R := c.R
	c.Rep.rule(rule, "E8 goroutine inventory", "every go statement: blocking operations classified, each with a releasing event that Stop performs", 6)
	t := c.lifecycle()
	stopHas := func(effect string) bool {
		n := 0
		for _, s := range []string{"Running", "Paused"} {
			for _, o := range t.cell("Stop", s) {
				n++
				if !o.has(effect) {
					return false
				}
			}
		}
		return n > 0
	}
	for _, g := range c.goSites() {
		where := g.in.Short()
		if g.body == nil {
			c.Rep.undecided(rule, where, "go statement with an unresolved target", c.P.pos(g.stmt), "cannot resolve what this go statement runs")
			continue
		}
		info := g.body.Info()
		classified := 0
		problems := 0
		// blocking operations directly in the body (not in nested literals)
		var walk func(n ast.Node, inSelect *ast.SelectStmt)
		isTickerC := func(e ast.Expr) bool {
			sel, ok := ast.Unparen(e).(*ast.SelectorExpr)
			return ok && sel.Sel.Name == "C" && isNamed(info.TypeOf(sel.X), "time.Ticker")
		}
		release := func(kind string, n ast.Node, ch ast.Expr, sel *ast.SelectStmt) {
			classified++
			switch {
			case isTickerC(ch):
				// needs another exit in the same select
				okExit := false
				if sel != nil {
					for _, cc := range sel.Body.List {
						clause := cc.(*ast.CommClause)
						if clause.Comm == nil {
							continue
						}
						var rx ast.Expr
						ast.Inspect(clause.Comm, func(m ast.Node) bool {
							if u, ok := m.(*ast.UnaryExpr); ok && u.Op == token.ARROW {
								rx = u.X
							}
							return true
						})
						if rx == nil || isTickerC(rx) {
							continue
						}
						returns := false
						for _, s := range clause.Body {
							if _, ok := s.(*ast.ReturnStmt); ok {
								returns = true
							}
						}
						if returns && c.closedByStopTickers(g.in, rootIdent(info, rx)) && stopHas("stoptickers") {
							okExit = true
						}
					}
				}
				if !okExit {
					problems++
				}
				c.Rep.check(okExit, rule, g.body.Short(), "goroutine waits on a ticker channel with no other exit", c.P.pos(n), "ticker loop has a done case whose channel Stop closes",
					"this goroutine receives from a time.Ticker's channel and has no other way out: Ticker.Stop() does not close the channel, so the goroutine outlives Stop() (one leaked goroutine per Stop/Restart cycle)")
			case c.isSignalParam(g, ch):
				ok := stopHas("closechans")
				c.Rep.check(ok, rule, g.body.Short(), "dispatcher not released by Stop", c.P.pos(n), "signal channel closed by closeChannels, which every Stop outcome performs", "the goroutine ranging over the signal channel is not released: Stop does not always close the channel")
			case isNamed(info.TypeOf(ch), "") && false:
			default:
				// context Done, node channel, response channel, other. A channel that is a parameter of the goroutine's
				// function is what the go statement passed for it
				dinfo, dch := info, ch
				if o := rootIdent(info, ch); o != nil {
					if _, isId := ast.Unparen(ch).(*ast.Ident); isId {
						if idx := paramIndex(g.body, o); idx >= 0 && idx < len(g.stmt.Call.Args) {
							dinfo, dch = g.in.Info(), g.stmt.Call.Args[idx]
						}
					}
				}
				what := c.describeChan(dinfo, dch)
				switch what {
				case "ctx.Done":
					ok := false
					for _, s := range []string{"Running", "Paused"} {
						for _, o := range t.cell("Stop", s) {
							if o.has("cancel") {
								ok = true
							}
						}
					}
					c.Rep.check(ok, rule, g.body.Short(), "context listener not released by Stop", c.P.pos(n), "released by the cancel function Stop calls", "the context listener is never released: Stop does not call the cancel function")
				case "pool.Node.ch":
					c.Rep.check(stopHas("stopall"), rule, g.body.Short(), "pool goroutine not released by Stop", c.P.pos(n), "released by the stop payload stopAndRemoveAllWorkers sends (every Stop outcome)", "pool goroutines are not released: Stop does not stop the idle nodes")
				case "helpers.Response.ch":
					c.Rep.ok(rule, g.body.Short()+": drain goroutine released by the job's Response.Close", c.P.pos(n), "per-job; not tied to Stop", true)
				default:
					problems++
					c.Rep.undecided(rule, g.body.Short(), "blocking receive on "+what, c.P.pos(n), "a goroutine blocks on a channel the inventory does not know how Stop releases ("+what+")")
				}
			}
			_ = kind
		}
		walk = func(n ast.Node, inSelect *ast.SelectStmt) {
			ast.Inspect(n, func(x ast.Node) bool {
				switch s := x.(type) {
				case *ast.FuncLit:
					return false
				case *ast.RangeStmt:
					if _, ok := info.TypeOf(s.X).Underlying().(*types.Chan); ok {
						release("range", s, s.X, nil)
					}
				case *ast.SelectStmt:
					hasTicker := false
					for _, cc := range s.Body.List {
						if clause := cc.(*ast.CommClause); clause.Comm != nil {
							ast.Inspect(clause.Comm, func(m ast.Node) bool {
								if u, ok := m.(*ast.UnaryExpr); ok && u.Op == token.ARROW && isTickerC(u.X) {
									hasTicker = true
								}
								return true
							})
						}
					}
					for _, cc := range s.Body.List {
						clause := cc.(*ast.CommClause)
						if clause.Comm != nil {
							ast.Inspect(clause.Comm, func(m ast.Node) bool {
								if u, ok := m.(*ast.UnaryExpr); ok && u.Op == token.ARROW {
									// in a ticker select the other receive cases are its exits: judged with the ticker case
									if !hasTicker || isTickerC(u.X) {
										release("select", u, u.X, s)
									}
								}
								return true
							})
						}
						for _, b := range clause.Body {
							walk(b, nil)
						}
					}
					return false
				case *ast.UnaryExpr:
					if s.Op == token.ARROW {
						release("recv", s, s.X, nil)
					}
				}
				return true
			})
		}
		walk(g.body.Body, nil)
		if classified == 0 {
			c.Rep.ok(rule, g.body.Short()+" (spawned in "+where+"): no blocking receive", c.P.pos(g.stmt), "goroutine ends when its body returns", false)
		}
		_ = R
	}
	if len(c.goSites()) == 0 {
		c.Rep.undecided(rule, "-", "no go statement", "", "the library spawns no goroutine: the fact layer is broken")
	}
}

// isSignalParam: ch is the parameter of the goroutine literal bound to the worker's signal channel.
func (c *Ctx) isSignalParam(g goSite, ch ast.Expr) bool {
	info := g.body.Info()
	o := rootIdent(info, ch)
	if o == nil {
		return selField(info, ch) == c.R.FSignal
	}
	idx := paramIndex(g.body, o)
	if idx < 0 || idx >= len(g.stmt.Call.Args) {
		return false
	}
	arg := g.stmt.Call.Args[idx]
	ainfo := g.in.Info()
	if selField(ainfo, arg) == c.R.FSignal {
		return true
	}
	if ao := rootIdent(ainfo, arg); ao != nil {
		ok, n := assignedOnlyFrom(g.in, ao, func(rhs ast.Expr, i, cnt int) bool { return selField(ainfo, rhs) == c.R.FSignal })
		return ok && n > 0
	}
	return false
}

func (c *Ctx) describeChan(info *types.Info, ch ast.Expr) string {
	ch = ast.Unparen(ch)
	if call, ok := ch.(*ast.CallExpr); ok {
		k := resolveCallee(info, call).Key
		if k == "context.Context.Done" {
			return "ctx.Done"
		}
		if strings.HasSuffix(k, "helpers.Response.Read") {
			return "helpers.Response.ch"
		}
	}
	if fk := selField(info, ch); fk != "" {
		return shortKey(fk)[strings.Index(shortKey(fk), "/")+1:]
	}
	if o := rootIdent(info, ch); o != nil {
		// a local holding a response channel (Drain)
		if f := c.P.enclosing(o.Pos()); f != nil {
			src := ""
			assignedOnlyFrom(f, o, func(rhs ast.Expr, i, n int) bool {
				if call, ok := ast.Unparen(rhs).(*ast.CallExpr); ok {
					src = resolveCallee(f.Info(), call).Key
				}
				return true
			})
			if strings.HasSuffix(src, "helpers.Response.Read") {
				return "helpers.Response.ch"
			}
		}
		return "local " + o.Name()
	}
	return "?"
}

// closedByStopTickers: the channel variable created in spawner is appended to
// a worker field that the stop-tickers function ranges over and closes.
func (c *Ctx) closedByStopTickers(spawner *Func, ch types.Object) bool {
	if ch == nil || c.R.StopTickers == nil {
		return false
	}
	info := spawner.Info()
	field := ""
	ast.Inspect(spawner.Body, func(n ast.Node) bool {
		as, ok := n.(*ast.AssignStmt)
		if !ok || len(as.Lhs) != 1 || len(as.Rhs) != 1 {
			return true
		}
		if call, ok := ast.Unparen(as.Rhs[0]).(*ast.CallExpr); ok && resolveCallee(info, call).Builtin == "append" && len(call.Args) == 2 && rootIdent(info, call.Args[1]) == ch {
			if _, isId := ast.Unparen(call.Args[1]).(*ast.Ident); isId {
				field = selField(info, as.Lhs[0])
			}
		}
		return true
	})
	if field == "" {
		return false
	}
	st := c.R.StopTickers
	closed := false
	ast.Inspect(st.Body, func(n ast.Node) bool {
		rs, ok := n.(*ast.RangeStmt)
		if !ok || selField(st.Info(), rs.X) != field || rs.Value == nil {
			return true
		}
		v := rootIdent(st.Info(), rs.Value)
		ast.Inspect(rs.Body, func(m ast.Node) bool {
			if call, ok := m.(*ast.CallExpr); ok && resolveCallee(st.Info(), call).Builtin == "close" && rootIdent(st.Info(), call.Args[0]) == v {
				closed = true
			}
			return true
		})
		return true
	})
	return closed
}

func (c *Ctx) ruleStopTearsDown(rule string) {
	c.Rep.rule(rule, "E3 lifecycle table", "Stop from Running/Paused: wait, stopTickers, closeChannels, stopAndRemoveAllWorkers, Stopped (+cancel with a context); Restart removes idle nodes before starting", 6)
	t := c.lifecycle()
	for _, s := range []string{"Running", "Paused"} {
		sawCancel := false
		for _, o := range t.cell("Stop", s) {
			good := orderedSubseq(o.Effects, []string{"wait"}) && o.has("stoptickers") && o.has("closechans") && o.has("stopall") && o.Final == "Stopped" && o.idx("wait") < o.idx("stoptickers") && o.idx("wait") < o.idx("closechans") && o.idx("wait") < o.idx("stopall")
			if o.has("cancel") {
				sawCancel = true
			}
			c.Rep.check(good, rule, "Stop", "incomplete tear-down from "+s, o.End, "Stop from "+s+": "+o.String(), "Stop from "+s+" must wait and then stop the tickers, close the channels and stop all idle nodes before it reports Stopped: "+o.String())
		}
		c.Rep.check(sawCancel, rule, "Stop", "Stop never cancels the context (from "+s+")", "", "some Stop outcome calls the cancel function", "Stop never calls the stored cancel function: the context listener goroutine is never released")
		for _, o := range t.cell("Restart", s) {
			if o.Final != "Running" {
				continue
			}
			if wi := o.idx("withcancel(ctx)"); wi >= 0 {
				c.Rep.check(o.idx("cancel") >= 0 && o.idx("cancel") < wi, rule, "Restart", "context re-derived without cancelling the previous one (from "+s+")", o.End, "previous context cancelled before a new one is derived",
					"Restart from "+s+" derives a new context without cancelling the previous run's: that run's listener goroutine stays blocked for as long as the parent context lives (one more per Restart): "+o.String())
			}
			if gi := o.idx("go:reaper"); gi >= 0 {
				c.Rep.check(o.idx("stoptickers") >= 0 && o.idx("stoptickers") < gi, rule, "Restart", "previous run's tickers not stopped (from "+s+")", o.End, "stopTickers before the new reaper is spawned",
					"Restart from "+s+" starts a new idle-worker reaper without stopping the previous run's ticker and reaper goroutine (only Stop does): one more goroutine and live ticker per Restart: "+o.String())
			}
			good := o.idx("stopall") >= 0 && o.idx("stopall") < o.idx("go:dispatcher") && o.idx("wait") >= 0 && o.idx("wait") < o.idx("stopall")
			c.Rep.check(good, rule, "Restart", "idle nodes of the old run survive (from "+s+")", o.End, "Restart from "+s+": "+o.String(), "Restart from "+s+" must wait and remove the old run's idle nodes before starting the new run (their goroutines would accumulate): "+o.String())
		}
	}
}

func (c *Ctx) ruleNodeCreation(rule string) {
	R := c.R
	c.Rep.rule(rule, "E1+E2", "pool nodes created only by the hand-off on its empty-idle-list branch and once in start", 3)
	if R.NodeFactory == nil || R.HandOff == nil {
		return
	}
	c.whoMayCall(rule, "the node factory", keyIn(R.NodeFactory.Key), isFunc(R.HandOff, R.Start), "the hand-off or start")
	v := c.vocab([]string{"pop", "popped=", "newnode"}, map[string]bool{"newnode": true})
	for _, sg := range v.seq(rule, false).segments(R.HandOff) {
		if sg.has("newnode") {
			c.Rep.check(sg.before("popped=nil", "newnode") && sg.count("newnode") == 1, rule, R.HandOff.Short(), "node created although an idle one was available", sg.End, "new node only when PopBack returned nil", "the hand-off creates a pool goroutine on a path where the idle list was not found empty: more goroutines than the limit ["+strings.Join(sg.Syms, " ")+"]")
		}
	}
	if R.Start != nil {
		for _, o := range c.lifecycle().cell("start", "Initiated") {
			c.Rep.check(countOf(o.Effects, "newnode") == 1, rule, R.Start.Short(), "start creates other than one node", o.End, "start creates exactly one idle node", "start must create exactly one idle node: "+o.String())
		}
	}
	// the factory spawns exactly one goroutine per node
	n := 0
	for _, g := range c.goSites() {
		if g.in == R.NodeFactory {
			n++
		}
	}
	c.Rep.check(n == 1, rule, R.NodeFactory.Short(), "node factory spawns other than one goroutine", c.P.pos(R.NodeFactory.Body), "one goroutine per node", fmt.Sprintf("the node factory contains %d go statements (must be exactly one per node)", n))
}

func (c *Ctx) ruleSnapshotBounds(rule string) {
	c.Rep.rule(rule, "E2 path", "a snapshot sliced/indexed by a non-constant bound is preceded by a comparison of that bound with the snapshot's own length", 1)
	n := 0
	for _, f := range filterPkg(c.P.funcsCalling(kNodeSlice), modPath) {
		info := f.Info()
		snaps := map[types.Object]bool{}
		ast.Inspect(f.Body, func(x ast.Node) bool {
			if as, ok := x.(*ast.AssignStmt); ok && len(as.Lhs) == 1 && len(as.Rhs) == 1 && isSnapshot(info, as.Rhs[0]) {
				if o := rootIdent(info, as.Lhs[0]); o != nil {
					snaps[o] = true
				}
			}
			return true
		})
		sr := &seqRule{c: c, rule: rule}
		sr.visit = func(fr *Frame, nd ast.Node) string {
			if fr.Caller != nil {
				return ""
			}
			var x, bound ast.Expr
			switch s := nd.(type) {
			case *ast.SliceExpr:
				x = s.X
				if s.Low != nil {
					bound = s.Low
				} else {
					bound = s.High
				}
			case *ast.IndexExpr:
				x, bound = s.X, s.Index
			default:
				return ""
			}
			o := rootIdent(info, x)
			if !snaps[o] && !isSnapshot(info, x) {
				return ""
			}
			if bound == nil {
				return ""
			}
			if tv := info.Types[bound]; tv.Value != nil {
				return "" // constant bound: out of scope
			}
			if b := rootIdent(info, bound); b != nil {
				return "slice:" + b.Name()
			}
			return "slice:?"
		}
		sr.condExpr = func(fr *Frame, e ast.Expr, branch bool, ip *Interp, st *State) string {
			be, op := binOp(e)
			if be == nil || fr.Caller != nil {
				return ""
			}
			lenOf := func(e ast.Expr) bool {
				call, ok := ast.Unparen(e).(*ast.CallExpr)
				return ok && resolveCallee(info, call).Builtin == "len" && len(call.Args) == 1 && snaps[rootIdent(info, call.Args[0])]
			}
			x, y := be.X, be.Y
			if lenOf(y) {
				x, y = y, x
				switch op {
				case token.LSS:
					op = token.GTR
				case token.GTR:
					op = token.LSS
				case token.LEQ:
					op = token.GEQ
				case token.GEQ:
					op = token.LEQ
				}
			}
			if !lenOf(x) {
				return ""
			}
			b := rootIdent(info, y)
			if b == nil {
				return ""
			}
			// len(snap) <op> b : bound is safe when len >= b
			safe := false
			switch {
			case (op == token.GEQ || op == token.GTR) && branch, (op == token.LSS || op == token.LEQ) && !branch:
				safe = true
			}
			if op == token.LEQ && !branch { // len > b
				safe = true
			}
			if op == token.LSS && !branch { // len >= b
				safe = true
			}
			if safe {
				return "bound-ok:" + b.Name()
			}
			return ""
		}
		for _, sg := range sr.segments(f) {
			for _, s := range sg.Syms {
				if !strings.HasPrefix(s, "slice:") {
					continue
				}
				n++
				b := s[len("slice:"):]
				c.Rep.check(sg.before("bound-ok:"+b, s), rule, f.Short(), "snapshot sliced by an unchecked bound", sg.End, "bound compared with the snapshot's own length first",
					"a NodeSlice() snapshot is sliced/indexed by "+b+" without having compared it with the length of that same snapshot (a separate pool.Len() can be stale): slice bounds out of range panics the process ["+strings.Join(sg.Syms, " ")+"]")
			}
		}
	}
	if n == 0 {
		c.Rep.ok(rule, "no snapshot is sliced by a non-constant bound", "", "all NodeSlice() users enumerated", false)
	}
}

func (c *Ctx) ruleMinimumIdle(rule string) {
	R := c.R
	c.Rep.rule(rule, "E7+E2", "minimum idle = max(limit*ratio/100, 1); freePoolNode keeps when idle < minimum; TunePool shrinks only while idle > minimum, by PopBack", 8)
	minF := c.P.FuncByKey("worker.numMinIdleWorkers")
	if minF == nil {
		// by role: the function whose result freePoolNode compares the idle count with
		c.Rep.undecided(rule, "numMinIdleWorkers", "missing", "", "minimum-idle function not found")
		return
	}
	for _, p := range [][2]int64{{1, 1}, {10, 50}, {4, 50}, {3, 20}, {100, 100}, {8, 1}} {
		te := &tableEval{c: c}
		te.leaf = func(g *Func, e ast.Expr) (tval, bool) {
			if call, ok := e.(*ast.CallExpr); ok {
				if fk, m := atomicOp(g.Info(), call); fk == R.FLimit && m == "Load" {
					return tval{I: p[0]}, true
				}
			}
			if selField(g.Info(), e) == modPath+".configs.minIdleWorkerRatio" {
				return tval{I: p[1]}, true
			}
			return tval{}, false
		}
		res, ok := te.call(minF, nil)
		inst := fmt.Sprintf("minimum idle with limit=%d ratio=%d%%", p[0], p[1])
		if !ok || len(res) != 1 || res[0].IsBool {
			c.Rep.undecided(rule, minF.Short(), inst, c.P.pos(minF.Body), "not evaluable: "+te.why)
			break
		}
		want := p[0] * p[1] / 100
		if want < 1 {
			want = 1
		}
		c.Rep.check(res[0].I == want, rule, minF.Short(), inst, c.P.pos(minF.Body), fmt.Sprintf("%s = %d", inst, want), fmt.Sprintf("%s evaluates to %d, expected max(limit*ratio/100, 1) = %d", inst, res[0].I, want))
	}
	// the reaper re-reads the minimum on every tick (a value computed once per run ignores later TunePool calls)
	if R.Reaper != nil {
		n := 0
		var reachesMin func(g *Func, depth int) bool
		reachesMin = func(g *Func, depth int) bool {
			if g == minF {
				return true
			}
			if depth == 0 || g == nil || g.Body == nil {
				return false
			}
			for _, cs := range c.P.calls(g) {
				if h := c.P.byObj[cs.Callee.Key]; h != nil && h.Lib && h != g && reachesMin(h, depth-1) {
					return true
				}
			}
			return false
		}
		for _, cs := range c.P.calls(R.Reaper) {
			// the minimum is read by the tick loop itself or by the pass it calls on every tick
			if g := c.P.byObj[cs.Callee.Key]; cs.Callee.Key == minF.Key || (g != nil && g.Lib && g.Pkg.PkgPath == modPath && reachesMin(g, 2)) {
				n++
				c.Rep.check(c.loopDepthOf(R.Reaper, cs.Call) >= 1, rule, R.Reaper.Short(), "idle target computed outside the tick loop", c.P.pos(cs.Call), "minimum re-read on every tick", "the reaper computes the idle target outside its tick loop")
			}
		}
		c.Rep.check(n >= 1, rule, R.Reaper.Short(), "idle target not re-read per tick", c.P.pos(R.Reaper.Body), "the reaper calls the minimum-idle function inside its loop",
			"the reaper goroutine never calls "+minF.Short()+" itself: its idle target is a value computed once when the run started, so it ignores every later TunePool (too many or too few idle workers are kept)")
	}
	// TunePool shrink loop: continues only while idle > minimum
	tp := c.methodOf(R.WorkerT, "TunePool")
	if tp != nil {
		// the loop that retires nodes sits in TunePool itself or in an unexported helper it calls (shrinkPool)
		retiring := func(g *Func) bool {
			found := false
			ast.Inspect(g.Body, func(n ast.Node) bool {
				if fs, ok := n.(*ast.ForStmt); ok {
					ast.Inspect(fs.Body, func(m ast.Node) bool {
						if call, ok := m.(*ast.CallExpr); ok && resolveCallee(g.Info(), call).Key == kNodeStop {
							found = true
						}
						return true
					})
				}
				return true
			})
			return found
		}
		if !retiring(tp) {
			for _, cs := range c.P.calls(tp) {
				if g := c.P.byObj[cs.Callee.Key]; g != nil && g.Lib && g.Pkg.PkgPath == modPath && g.Body != nil && g.Obj != nil && !g.Obj.Exported() && retiring(g) {
					tp = g
					break
				}
			}
		}
		info := tp.Info()
		var minVar types.Object
		ast.Inspect(tp.Body, func(n ast.Node) bool {
			if as, ok := n.(*ast.AssignStmt); ok {
				for i, r := range as.Rhs {
					if call, ok := ast.Unparen(r).(*ast.CallExpr); ok && resolveCallee(info, call).Key == minF.Key && i < len(as.Lhs) {
						minVar = rootIdent(info, as.Lhs[i])
					}
				}
			}
			return true
		})
		found := false
		ast.Inspect(tp.Body, func(n ast.Node) bool {
			fs, ok := n.(*ast.ForStmt)
			if !ok || fs.Cond == nil {
				return true
			}
			// does the loop retire nodes?
			retires := false
			ast.Inspect(fs.Body, func(m ast.Node) bool {
				if call, ok := m.(*ast.CallExpr); ok && resolveCallee(info, call).Key == kNodeStop {
					retires = true
				}
				return true
			})
			if !retires {
				return true
			}
			found = true
			strict := false
			var visit func(e ast.Expr)
			visit = func(e ast.Expr) {
				be, op := binOp(e)
				if be == nil {
					return
				}
				if op == token.LAND {
					visit(be.X)
					visit(be.Y)
					return
				}
				isLen := func(e ast.Expr) bool {
					call, ok := ast.Unparen(e).(*ast.CallExpr)
					return ok && resolveCallee(info, call).Key == kListLen
				}
				isMin := func(e ast.Expr) bool {
					if o := rootIdent(info, e); o != nil && o == minVar {
						return true
					}
					call, ok := ast.Unparen(e).(*ast.CallExpr)
					return ok && resolveCallee(info, call).Key == minF.Key
				}
				if (isLen(be.X) && isMin(be.Y) && op == token.GTR) || (isMin(be.X) && isLen(be.Y) && op == token.LSS) {
					strict = true
				}
			}
			visit(fs.Cond)
			c.Rep.check(strict, rule, tp.Short(), "shrink loop continues while idle != minimum", c.P.pos(fs.Cond), "shrink loop condition: idle > minimum", "TunePool's shrink loop must continue only while strictly more nodes than the minimum are idle (with != it also runs when fewer are idle and retires the last idle node)")
			// nodes taken by PopBack only
			takes := true
			ast.Inspect(fs.Body, func(m ast.Node) bool {
				if call, ok := m.(*ast.CallExpr); ok {
					switch resolveCallee(info, call).Key {
					case kNodeSlice, modPath + "/internal/linkedlist.List.Back", modPath + "/internal/linkedlist.List.Front":
						takes = false
					}
				}
				return true
			})
			c.Rep.check(takes && c.P.containsCall(tp, kPopBack), rule, tp.Short(), "shrink loop does not take nodes by PopBack", c.P.pos(fs), "nodes taken out of the idle list by PopBack", "TunePool must take the nodes it retires out of the idle list with PopBack (ownership)")
			return true
		})
		if !found {
			c.Rep.undecided(rule, tp.Short(), "no shrink loop", c.P.pos(tp.Body), "TunePool has no loop that retires nodes")
		}
	}
	// freePoolNode: keeps the node when idle < minimum
	if R.FreeNode != nil {
		sr := c.vocab([]string{"push", "stop"}, nil).seq(rule, false)
		sr.condExpr = func(fr *Frame, e ast.Expr, branch bool, ip *Interp, st *State) string {
			be, op := binOp(e)
			if be == nil {
				return ""
			}
			info := fr.Fn.Info()
			isLen := func(e ast.Expr) bool {
				call, ok := ast.Unparen(e).(*ast.CallExpr)
				return ok && resolveCallee(info, call).Key == kListLen
			}
			isMin := func(e ast.Expr) bool {
				call, ok := ast.Unparen(e).(*ast.CallExpr)
				return ok && resolveCallee(info, call).Key == minF.Key
			}
			if isLen(be.X) && isMin(be.Y) && op == token.LSS {
				return fmt.Sprintf("below-min=%v", branch)
			}
			if isMin(be.X) && isLen(be.Y) && op == token.GTR {
				return fmt.Sprintf("below-min=%v", branch)
			}
			// the negated forms (De Morgan): idle >= minimum, minimum <= idle
			if isLen(be.X) && isMin(be.Y) && op == token.GEQ {
				return fmt.Sprintf("below-min=%v", !branch)
			}
			if isMin(be.X) && isLen(be.Y) && op == token.LEQ {
				return fmt.Sprintf("below-min=%v", !branch)
			}
			return ""
		}
		sawKeep := false
		for _, sg := range sr.segments(R.FreeNode) {
			if sg.has("below-min=true") {
				sawKeep = true
				c.Rep.check(sg.has("push") && !sg.has("stop"), rule, R.FreeNode.Short(), "node retired although fewer than the minimum are idle", sg.End, "idle < minimum ⇒ node kept", "freePoolNode retires a node on the path where fewer than the minimum are idle ["+strings.Join(sg.Syms, " ")+"]")
			}
		}
		// ... and it retires a node only on a path where it found at least the minimum idle (whatever else the path
		// tested: a status, a timer — the idle floor holds while paused as well)
		for _, sg := range sr.segments(R.FreeNode) {
			if sg.Kind == "path" && sg.has("stop") {
				c.Rep.check(sg.before("below-min=false", "stop"), rule, R.FreeNode.Short(), "node retired without the minimum-idle test", sg.End, "retire only after idle >= minimum was established",
					"freePoolNode retires a node on a path that did not establish that at least the minimum number of workers is idle: the idle floor (and an idle expiry) are bypassed on that path ["+strings.Join(sg.Syms, " ")+"]")
			}
		}
		c.Rep.check(sawKeep, rule, R.FreeNode.Short(), "no minimum-idle test", c.P.pos(R.FreeNode.Body), "freePoolNode compares the idle count with the minimum", "freePoolNode never compares the idle count with the configured minimum: idle workers are not kept")
	}
}

// ruleWaitWaits: the Wait methods of the job family return only through the WaitGroup (or batch counter) that Close
// releases, or — under interference, where a Load of the status may return any value — on a path on which the status was
// read as Closed. A shortcut on "Finished or later" returns between the pool goroutine's store of Finished and its
// Close: the caller then still reads "Finished" after Wait has returned.
func (c *Ctx) ruleWaitWaits(rule string) {
	R := c.R
	c.Rep.rule(rule, "E2 must-pass-through (interference)", "every Wait of the job family passes through WaitGroup.Wait / WgCounter.Wait unless the status was read as Closed", 2)
	js := c.jobStatus()
	var domain []string
	for _, n := range []string{"Created", "Queued", "Processing", "Finished", "Closed"} {
		domain = append(domain, js.ByName[n])
	}
	n := 0
	for _, f := range c.P.pkgFuncs(modPath) {
		if f.Obj == nil || f.Decl.Recv == nil || f.Obj.Name() != "Wait" || f.Body == nil {
			continue
		}
		if !isJobFamily(f.Obj.Type().(*types.Signature).Recv().Type()) {
			continue
		}
		n++
		sr := &seqRule{c: c, rule: rule, trackField: R.FJobStatus, trackAny: domain, loadSyms: true}
		sr.classify = func(fr *Frame, call *ast.CallExpr, ce *Callee, args []Value) *callEvent {
			switch ce.Key {
			case "sync.WaitGroup.Wait", modPath + "/internal/helpers.WgCounter.Wait":
				return &callEvent{Name: "wgwait", Atomic: true}
			}
			return nil
		}
		for _, sg := range sr.segments(f) {
			if sg.Kind != "path" {
				continue
			}
			if sg.has("wgwait") {
				c.Rep.ok(rule, f.Short()+": path waits", sg.End, "passes through the WaitGroup", true)
				continue
			}
			onlyClosed := false
			for _, s := range sg.Syms {
				if strings.HasPrefix(s, "load:") {
					onlyClosed = s == "load:Closed" || s == "load:"+js.ByName["Closed"]
				}
			}
			c.Rep.check(onlyClosed, rule, f.Short(), "Wait returns without waiting", sg.End, "returns through the WaitGroup",
				f.Short()+" has a path that returns without waiting on the WaitGroup although the job was not read as Closed: Wait can return while the job is still Finished-but-not-Closed (or earlier) ["+strings.Join(sg.Syms, " ")+"]")
		}
	}
	c.Rep.check(n > 0, rule, "-", "no Wait method found", "", "job family has Wait methods", "no Wait method of the job family found")
}

// ruleIdleStamp: with an idle expiry configured, a pool node is stamped with the current time on every path that puts
// it (back) into the idle list, before it is pushed: the reaper compares that stamp with the expiry, so the stamp must
// date the beginning of the idle period (a stamp taken at dispatch measures the job's run time instead: a worker
// whose job ran longer than the expiry is retired the moment it becomes idle).
func (c *Ctx) ruleIdleStamp(rule string) {
	R := c.R
	c.Rep.rule(rule, "E2 path", "freePoolNode: expiry configured ⇒ the node's last-used stamp is set before the node is pushed to the idle list", 1)
	if R.FreeNode == nil {
		return
	}
	// the stamp: methods of the pool node that store time.Now() in the node
	stamp := map[string]bool{}
	for _, f := range c.P.Funcs {
		if f.Obj == nil || f.Decl == nil || f.Decl.Recv == nil || f.Body == nil || f.Pkg.PkgPath != modPath+"/internal/pool" {
			continue
		}
		if c.P.containsCall(f, "time.Now") {
			stamp[f.Key] = true
		}
	}
	if len(stamp) == 0 {
		c.Rep.undecided(rule, "-", "no stamp method", "", "no method of the pool node records time.Now()")
		return
	}
	// the expiry setting: the time.Duration field of the worker configuration
	expiry := ""
	if cp := c.P.ByPath[modPath]; cp != nil {
		if tn, ok := cp.Types.Scope().Lookup("configs").(*types.TypeName); ok {
			if st, ok := tn.Type().Underlying().(*types.Struct); ok {
				for i := 0; i < st.NumFields(); i++ {
					if isNamed(st.Field(i).Type(), "time.Duration") {
						expiry = modPath + ".configs." + st.Field(i).Name()
					}
				}
			}
		}
	}
	if expiry == "" {
		c.Rep.undecided(rule, "-", "no expiry setting", "", "the worker configuration has no time.Duration field")
		return
	}
	sr := c.vocab([]string{"push", "stop"}, nil).seq(rule, false)
	base := sr.classify
	sr.classify = func(fr *Frame, call *ast.CallExpr, ce *Callee, args []Value) *callEvent {
		if stamp[ce.Key] {
			return &callEvent{Name: "stamp", Atomic: true}
		}
		return base(fr, call, ce, args)
	}
	sr.exprValSt = func(ip *Interp, fr *Frame, st *State, e ast.Expr) (Value, bool) {
		be, ok := ast.Unparen(e).(*ast.BinaryExpr)
		if !ok {
			return Value{}, false
		}
		info := fr.Fn.Info()
		x, y, op := be.X, be.Y, be.Op
		if selField(info, y) == expiry {
			x, y = y, x
			switch op {
			case token.LSS:
				op = token.GTR
			case token.GTR:
				op = token.LSS
			case token.LEQ:
				op = token.GEQ
			case token.GEQ:
				op = token.LEQ
			}
		}
		if selField(info, x) != expiry {
			return Value{}, false
		}
		if tv := info.Types[y]; tv.Value == nil || tv.Value.ExactString() != "0" {
			return Value{}, false
		}
		switch op {
		case token.GTR, token.NEQ:
			return Value{Kind: VTok, S: "expiry"}, true
		case token.LEQ, token.EQL:
			return Value{Kind: VTok, S: "noexpiry"}, true
		}
		return Value{}, false
	}
	sr.condSym = func(fr *Frame, token, rel string) string {
		if token == "expiry" || token == "noexpiry" {
			return token + "=" + rel
		}
		return ""
	}
	n := 0
	for _, sg := range sr.segments(R.FreeNode) {
		if sg.Kind != "path" || !sg.has("push") {
			continue
		}
		n++
		if sg.has("expiry=false") || sg.has("noexpiry=true") {
			continue
		}
		c.Rep.check(sg.before("stamp", "push"), rule, R.FreeNode.Short(), "node becomes idle without a fresh last-used stamp", sg.End, "stamp, then push to the idle list",
			"freePoolNode puts a node into the idle list without stamping it first on a path where an idle expiry may be configured ["+strings.Join(sg.Syms, " ")+"]: the reaper then measures the time since an earlier event (the dispatch, or the previous idle period) and retires workers that have not been idle for the configured time")
	}
	if n == 0 {
		c.Rep.undecided(rule, R.FreeNode.Short(), "no path keeps the node", c.P.pos(R.FreeNode.Body), "freePoolNode never pushes the node to the idle list")
	}
}
