// D21 — Pause (and therefore PauseAndWait / Stop) changes what every parked barrier caller is waiting for (a running
// worker waits for "nothing pending and nothing in flight", a paused one only for "nothing in flight") but does not
// re-evaluate the release: a WaitUntilFinished caller parked before the Pause can sleep forever although its
// condition holds (C06: "each of these calls returns once its condition holds ... several concurrent barrier callers").
// Found by a seeding sub-agent on the unchanged tree; its reproducer follows.
//
// Where it goes: root of the checkout (package varmq). Apply /verif/findings/D21/delay.patch first (a
// time.Sleep in the completion callback between releaseWaiters(...) and notifyToPullNextJobs() =
// the completion goroutine being descheduled there, a legal schedule), then
//   export GOFLAGS=-mod=mod GOPROXY=off
//   go test -vet=off -count=1 -run TestD21StopLeavesWaiterAsleep -timeout 60s -v .
//
// A WaitUntilFinished() caller is parked on a running worker (jobs queued). Job A completes: its
// releaseWaiters sees "running, queue not empty" and does not broadcast. Before that goroutine gets
// to notifyToPullNextJobs(), another goroutine calls Stop(): nothing is in flight, so Stop does not
// wait, closes the dispatcher channel (the dispatcher exits without a further pass) and sets
// "stopped". The late notification finds a nil channel and is dropped. Nobody ever broadcasts:
// the parked caller sleeps forever although the worker is stopped with nothing in flight.
package varmq

import (
	"testing"
	"time"
)

func TestD21StopLeavesWaiterAsleep(t *testing.T) {
	gate := make(chan struct{})
	w := NewWorker(func(j Job[int]) {
		if j.Data() == 0 {
			<-gate
		}
	}, 1)
	q := w.BindQueue()
	defer q.Purge()

	for i := 0; i < 3; i++ {
		q.Add(i)
	}

	returned := make(chan struct{})
	go func() {
		w.WaitUntilFinished()
		close(returned)
	}()
	time.Sleep(100 * time.Millisecond) // parked: running, 2 queued, 1 in flight

	close(gate)
	// job 0 has been counted out (in-flight == 0) and its goroutine sits in the delay
	for w.NumProcessing() != 0 {
		time.Sleep(100 * time.Microsecond)
	}
	if err := w.Stop(); err != nil {
		t.Fatal(err)
	}

	select {
	case <-returned:
	case <-time.After(3 * time.Second):
		t.Fatalf("worker is %s, NumProcessing=%d, NumPending=%d, Stop() has returned, but the parked "+
			"WaitUntilFinished() caller is still asleep after 3s", w.Status(), w.NumProcessing(), w.NumPending())
	}
}
