package varmq

// D25 — the distributed binders run Register, start, Subscribe in that order. start() makes the dispatcher's one
// start-up pass; an item another process enqueues after that pass but before the subscription is active is announced
// to nobody and stays pending until an unrelated notification (C13: "processes every item placed on the shared
// adapter ... driven only by the adapter's notifications"). Subscribing before start closes the window: an
// announcement that arrives before the run starts is covered by start()'s own wake-up.
//
//	go test -vet=off -run TestD25 -count=1 .

import (
	"sync/atomic"
	"testing"
	"time"

	"github.com/goptics/varmq/mocks"
)

// lateSubscribe is a distributed adapter on which another producer enqueues one item while Subscribe is in progress.
type lateSubscribe struct {
	*mocks.MockDistributedQueue
	item []byte
}

func (q *lateSubscribe) Subscribe(fn func(action string)) {
	time.Sleep(50 * time.Millisecond) // the consumer's start-up pass (if it has been started already) is over
	q.MockDistributedQueue.Enqueue(q.item) // announced to the subscribers registered so far: none
	q.MockDistributedQueue.Subscribe(fn)
}

func TestD25ItemAnnouncedDuringBind(t *testing.T) {
	var ran atomic.Int32
	w := NewWorker(func(j Job[string]) { ran.Add(1) }, 1)
	b, err := newJob("payload", jobConfigs{Id: "x"}).Json()
	if err != nil {
		t.Fatal(err)
	}
	w.WithDistributedQueue(&lateSubscribe{MockDistributedQueue: mocks.NewMockDistributedQueue(), item: b})

	deadline := time.Now().Add(time.Second)
	for time.Now().Before(deadline) && ran.Load() < 1 {
		time.Sleep(5 * time.Millisecond)
	}
	if ran.Load() != 1 {
		t.Fatalf("the item placed on the shared adapter during the bind was not processed within 1s (pending %d)", w.NumPending())
	}
	w.Stop()
}
