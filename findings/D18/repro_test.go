package varmq

// D18 — data races (C19), shown by the race detector:  go test -race -run TestD18 -count=1 .
//  a) helpers.Response.res is written by every Send without synchronisation; a
//     batch shares one Response between all its jobs, so n pool goroutines
//     write it concurrently.
//  b) the dispatcher calls setAckId (a plain field write) on every dequeued
//     job, also on in-memory jobs whose handle the user holds; a concurrent
//     Close() reads the field in ack().
//  c) worker.errorChan / ctx / cancel / eventLoopSignal are replaced under
//     w.mx by Stop/Restart but read without it by Errs(), Context(), Stop()
//     and the goroutine spawners.

import (
	"context"
	"sync"
	"testing"
	"time"
)

func TestD18BatchResponseRace(t *testing.T) {
	w := NewResultWorker(func(j Job[int]) (int, error) { return j.Data(), nil }, 8)
	q := w.BindQueue()
	for round := 0; round < 50; round++ {
		items := make([]Item[int], 16)
		for i := range items {
			items[i] = Item[int]{Data: i}
		}
		g := q.AddAll(items)
		for range g.Results() {
		}
	}
	w.Stop()
}

func TestD18AckIdRace(t *testing.T) {
	w := NewWorker(func(j Job[int]) {}, 4)
	q := w.BindQueue()
	for round := 0; round < 300; round++ {
		w.Pause()
		j, _ := q.Add(round)
		var wg sync.WaitGroup
		wg.Add(2)
		go func() { defer wg.Done(); w.Resume() }()
		go func() { defer wg.Done(); j.Close() }()
		wg.Wait()
		j.Wait() // not WaitUntilFinished: that would hang on a cancelled job (D05)
	}
	w.Stop()
}

func TestD18WorkerFieldRaces(t *testing.T) {
	w := NewWorker(func(j Job[int]) {}, WithContext(context.Background()))
	w.BindQueue()
	done := make(chan struct{})
	var wg sync.WaitGroup
	wg.Add(2)
	go func() {
		defer wg.Done()
		for {
			select {
			case <-done:
				return
			default:
				_ = w.Errs()
				_ = w.Context()
			}
		}
	}()
	go func() {
		defer wg.Done()
		for i := 0; i < 30; i++ {
			w.Restart()
			time.Sleep(time.Millisecond)
		}
		close(done)
	}()
	wg.Wait()
	w.Stop()
}
