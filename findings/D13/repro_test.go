package varmq

// D13 — TunePool's shrink loop runs `for shrink > 0 && pool.Len() != minIdle`.
// When fewer nodes than the minimum are idle (the usual case: one idle node,
// minimum 2) the condition is true and the loop retires the last idle node of
// a running worker (C18: "keeps at least one idle worker while running").
//
// go test -run TestD13 -count=1 .

import "testing"

func TestD13TunePoolRetiresLastIdleWorker(t *testing.T) {
	w := NewWorker(func(j Job[int]) {}, 10, WithMinIdleWorkerRatio(50))
	w.BindQueue()
	if n := w.NumIdleWorkers(); n != 1 {
		t.Fatalf("expected one idle worker after start, got %d", n)
	}
	if err := w.TunePool(4); err != nil {
		t.Fatal(err)
	}
	if n := w.NumIdleWorkers(); n < 1 {
		t.Fatalf("TunePool(4) left %d idle workers on a running worker", n)
	}
	w.Stop()
}
