package varmq

// D17 — Restart cancels the previous run's context so that its listener
// goroutine ends, but the listener reacts by calling w.Stop() on the *worker*,
// not on the run it was started for. After Restart the freshly started worker
// is therefore stopped again by the old listener: Restart on a worker with a
// context does not leave a running worker (C14).
//
// go test -run TestD17 -count=1 .

import (
	"context"
	"testing"
	"time"
)

func TestD17RestartWithContextEndsStopped(t *testing.T) {
	failures := 0
	for i := 0; i < 50; i++ {
		w := NewWorker(func(j Job[int]) {}, WithContext(context.Background()))
		w.BindQueue()
		if err := w.Restart(); err != nil {
			t.Fatal(err)
		}
		time.Sleep(5 * time.Millisecond)
		if !w.IsRunning() {
			failures++
		}
		w.Stop()
	}
	if failures > 0 {
		t.Fatalf("after Restart the worker was not running in %d of 50 runs", failures)
	}
}
