package varmq

// D05 — barrier waiters are woken only by the completion of an executed job.
// A cancelled job is dropped by the dispatcher without any release
// evaluation, and Purge empties the queue without notifying anybody. If the
// last pending jobs are cancelled (or purged) ones, WaitUntilFinished blocks
// for ever although nothing is pending or processing (C06). Deterministic.
//
// go test -run TestD05 -count=1 .

import (
	"testing"
	"time"
)

func blocked(f func()) bool {
	done := make(chan struct{})
	go func() { f(); close(done) }()
	select {
	case <-done:
		return false
	case <-time.After(time.Second):
		return true
	}
}

func TestD05CancelledJobsNeverWakeWaiters(t *testing.T) {
	block := make(chan struct{})
	w := NewWorker(func(j Job[int]) { <-block })
	q := w.BindQueue()
	q.Add(0) // occupies the only slot
	time.Sleep(10 * time.Millisecond)
	b, _ := q.Add(1) // stays pending
	stuck := make(chan bool, 1)
	go func() { stuck <- blocked(w.WaitUntilFinished) }()
	time.Sleep(10 * time.Millisecond) // the waiter is parked: pending=1, processing=1
	if err := b.Close(); err != nil { // cancel the pending job
		t.Fatal(err)
	}
	close(block) // job 0 completes: queue not empty yet, so no broadcast; the dispatcher then skips job 1
	if <-stuck {
		t.Fatalf("WaitUntilFinished blocked although pending=%d processing=%d", w.NumPending(), w.NumProcessing())
	}
}

// The same happens when Purge removes the last pending jobs between a
// completion and the dispatcher's next dequeue (a schedule window; not
// reproduced deterministically here).
