package varmq

// D10 — cancelling a job and dispatching it are both check-then-act on the
// job status: Close() tests isCloseable() and later stores closed + Done();
// the dispatcher tests IsClosed() and later stores processing. When they
// interleave, Close() returns nil, the job runs anyway, and the completion
// path calls Done() a second time: "panic: sync: negative WaitGroup counter"
// (C10, C01, C05).
//
// go test -run TestD10 -count=1 .

import (
	"sync"
	"sync/atomic"
	"testing"
)

func TestD10CloseRacesDispatch(t *testing.T) {
	var ran sync.Map
	w := NewWorker(func(j Job[int]) { ran.Store(j.Data(), true) }, 4)
	q := w.BindQueue()
	var cancelledButRan atomic.Int64
	for round := 0; round < 20000; round++ {
		w.Pause()
		j, _ := q.Add(round)
		var wg sync.WaitGroup
		var closeErr error
		wg.Add(2)
		go func() { defer wg.Done(); w.Resume() }()
		go func() { defer wg.Done(); closeErr = j.Close() }()
		wg.Wait()
		j.Wait()
		if _, ok := ran.Load(round); ok && closeErr == nil {
			cancelledButRan.Add(1)
		}
	}
	w.Stop()
	if n := cancelledButRan.Load(); n > 0 {
		t.Fatalf("%d jobs were executed although Close() had returned nil", n)
	}
}
