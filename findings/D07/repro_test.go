package varmq

// D07 — the last-finisher decision of a batch is a check-then-act:
//     gj.wgc.Done(); if gj.wgc.Count() == 0 { gj.Response.Close() }
// Two items finishing at the same time both read 0 and both close the shared
// stream: "panic: close of closed channel" (C08). WgCounter.Done itself is
// `if Load()==0 {return}; Add(^0); wg.Done()`, the same pattern.
//
// go test -run TestD07 -count=1 .

import "testing"

func TestD07BatchDoubleClose(t *testing.T) {
	w := NewResultWorker(func(j Job[int]) (int, error) { return j.Data(), nil }, 8)
	q := w.BindQueue()
	for round := 0; round < 20000; round++ {
		items := make([]Item[int], 8)
		for i := range items {
			items[i] = Item[int]{Data: i}
		}
		g := q.AddAll(items)
		n := 0
		for range g.Results() {
			n++
		}
		if n != 8 {
			t.Fatalf("round %d: %d results", round, n)
		}
	}
	w.Stop()
}
