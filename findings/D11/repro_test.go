package varmq

// D11 (known finding, not repaired) — externalBaseQueue.Purge takes a snapshot
// with Values(), then calls Purge() on the queue, then closes the snapshotted
// jobs: two separate critical sections. A job accepted between the two is
// removed by Purge() but is not in the snapshot, so it is never closed: it
// never runs and its Wait() blocks for ever (C10: "a job accepted concurrently
// is either removed-and-cancelled or stays pending, never silently dropped").
// IBaseQueue is public adapter API and offers no atomic drain, so the repair
// is not a small local patch.
//
// go test -run TestD11 -count=1 .

import (
	"sync"
	"sync/atomic"
	"testing"
	"time"
)

func TestD11PurgeDropsConcurrentlyAcceptedJob(t *testing.T) {
	w := NewWorker(func(j Job[int]) {}, 2)
	q := w.BindQueue()
	w.PauseAndWait() // nothing is dispatched: every accepted job is either purged or stays pending
	var stop atomic.Bool
	var mu sync.Mutex
	var jobs []EnqueuedJob
	var wg sync.WaitGroup
	wg.Add(2)
	go func() {
		defer wg.Done()
		for i := 0; !stop.Load(); i++ {
			if j, ok := q.Add(i); ok {
				mu.Lock()
				jobs = append(jobs, j)
				mu.Unlock()
			}
		}
	}()
	go func() {
		defer wg.Done()
		for !stop.Load() {
			q.Purge()
		}
	}()
	time.Sleep(2 * time.Second)
	stop.Store(true)
	wg.Wait()
	w.Resume()
	w.WaitUntilFinished()
	time.Sleep(50 * time.Millisecond)
	lost := 0
	for _, j := range jobs {
		if s := j.Status(); s != "Closed" {
			lost++
		}
	}
	if lost > 0 {
		t.Fatalf("%d of %d accepted jobs were neither executed nor cancelled (status not Closed; their Wait() blocks for ever); pending=%d", lost, len(jobs), w.NumPending())
	}
}
