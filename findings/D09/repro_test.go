package varmq

// D09 / D06 — the dispatcher tests IsRunning() (and inflight < limit), then
// dequeues, and only then raises the in-flight counter. PauseAndWait/Stop
// store "paused" and wait for in-flight == 0. A dispatcher that passed the
// running test just before the store is invisible to the waiter: the barrier
// returns and the job starts afterwards (C09: "no invocation starts after
// PauseAndWait returned"). The same gap lets WaitUntilFinished return while a
// job is between the queue and the pool (pending=0, processing=0) (C06).
//
// The window is a few instructions wide; the stress test hits it only
// occasionally. It is deterministic with a 1 ms delay inserted at the top of
// processNextJob (a pure delay, i.e. a legal schedule) - see delay.patch.
//
// go test -run TestD09 -count=1 .

import (
	"sync/atomic"
	"testing"
	"time"
)

func TestD09JobStartsAfterPauseAndWait(t *testing.T) {
	var starts atomic.Int64
	w := NewWorker(func(j Job[int]) { starts.Add(1) }, 1)
	q := w.BindQueue()
	deadline := time.Now().Add(30 * time.Second)
	for i := 0; time.Now().Before(deadline); i++ {
		q.Add(i)
		w.PauseAndWait()
		before := starts.Load()
		time.Sleep(200 * time.Microsecond)
		if after := starts.Load(); after != before {
			t.Fatalf("iteration %d: a job started after PauseAndWait had returned (status %s)", i, w.Status())
		}
		w.Resume()
	}
	w.Stop()
}

func TestD06WaitUntilFinishedReturnsEarly(t *testing.T) {
	var done atomic.Int64
	w := NewWorker(func(j Job[int]) { done.Add(1) }, 1)
	q := w.BindQueue()
	deadline := time.Now().Add(30 * time.Second)
	for i := int64(1); time.Now().Before(deadline); i++ {
		q.Add(int(i))
		w.WaitUntilFinished()
		if d := done.Load(); d != i {
			t.Fatalf("iteration %d: WaitUntilFinished returned with %d of %d jobs finished", i, d, i)
		}
	}
	w.Stop()
}
