package varmq

// D20 — Restart from Running or Paused starts a new idle-worker reaper (and
// ticker) but never stops the previous run's: stopTickers is only called by
// Stop. Every such Restart leaves one more reaper goroutine and one more live
// ticker until the next Stop (C18: per-run helper goroutines end with the run;
// restart cycles do not accumulate goroutines).
//
// go test -run TestD20 -count=1 .

import (
	"runtime"
	"strings"
	"testing"
	"time"
)

func reapers() int {
	buf := make([]byte, 1<<20)
	buf = buf[:runtime.Stack(buf, true)]
	return strings.Count(string(buf), "goRemoveIdleWorkers")
}

func TestD20ReaperAccumulatesOverRestart(t *testing.T) {
	w := NewWorker(func(j Job[int]) {}, 2, WithIdleWorkerExpiryDuration(time.Hour))
	w.BindQueue()
	time.Sleep(10 * time.Millisecond)
	before := reapers()
	for i := 0; i < 20; i++ {
		if err := w.Restart(); err != nil {
			t.Fatal(err)
		}
	}
	time.Sleep(50 * time.Millisecond)
	after := reapers()
	w.Stop()
	if after > before {
		t.Fatalf("reaper goroutines grew from %d to %d over 20 Restarts of a running worker", before, after)
	}
}
