package varmq

// D15 — queues.Queue.Len() loads writeCount and readCount separately and
// without the lock under which Enqueue/Dequeue/Purge update them. Between the
// two loads a producer and the dispatcher can both advance; readCount is then
// larger than the stale writeCount, and the "wrap-around" branch (or the
// uint64 subtraction) yields a negative or enormous pending count (C17).
//
// go test -run TestD15 -count=1 .

import (
	"sync"
	"sync/atomic"
	"testing"
	"time"
)

func TestD15NegativePending(t *testing.T) {
	w := NewWorker(func(j Job[int]) {}, 8)
	q := w.BindQueue()
	var stop atomic.Bool
	var bad atomic.Int64
	var wg sync.WaitGroup
	for r := 0; r < 4; r++ {
		wg.Add(1)
		go func() {
			defer wg.Done()
			for !stop.Load() {
				if n := q.NumPending(); n < 0 || n > 1<<40 {
					bad.Store(int64(n))
					stop.Store(true)
				}
			}
		}()
	}
	for p := 0; p < 4; p++ {
		wg.Add(1)
		go func() {
			defer wg.Done()
			for !stop.Load() {
				if j, ok := q.Add(1); ok {
					j.Wait()
				}
			}
		}()
	}
	time.AfterFunc(10*time.Second, func() { stop.Store(true) })
	wg.Wait()
	w.Stop()
	if n := bad.Load(); n != 0 {
		t.Fatalf("NumPending() returned %d", n)
	}
}
