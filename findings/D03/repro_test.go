package varmq

// D03 — start() refuses only a Running worker, and every Bind*/With* defers
// start(). Binding another queue to a Paused worker therefore flips it back to
// Running and spawns a second dispatcher goroutine on the same signal channel
// (two consumers: C01/C02); binding to a Stopped worker reports Running while
// the channels are nil, so nothing is ever processed (C14).
//
// go test -run TestD03 -count=1 .

import (
	"runtime"
	"testing"
	"time"
)

func TestD03BindOnPausedWorker(t *testing.T) {
	w := NewWorker(func(j Job[int]) {})
	w.BindQueue()
	if err := w.PauseAndWait(); err != nil {
		t.Fatal(err)
	}
	time.Sleep(20 * time.Millisecond)
	before := runtime.NumGoroutine()
	w.BindQueue()
	time.Sleep(20 * time.Millisecond)
	after := runtime.NumGoroutine()
	if s := w.Status(); s != "Paused" {
		t.Errorf("binding a queue changed the state of a paused worker to %q", s)
	}
	if after > before {
		t.Errorf("binding a queue to a paused worker started %d more goroutine(s) (second dispatcher / pool node)", after-before)
	}
}

func TestD03BindOnStoppedWorker(t *testing.T) {
	w := NewWorker(func(j Job[int]) {})
	w.BindQueue()
	if err := w.Stop(); err != nil {
		t.Fatal(err)
	}
	q := w.BindQueue()
	if s := w.Status(); s != "Stopped" {
		t.Errorf("binding a queue changed the state of a stopped worker to %q", s)
	}
	if w.IsRunning() {
		j, _ := q.Add(1)
		done := make(chan struct{})
		go func() { j.Wait(); close(done) }()
		select {
		case <-done:
		case <-time.After(500 * time.Millisecond):
			t.Errorf("worker reports Running but does not process jobs (status %s, pending %d)", w.Status(), w.NumPending())
		}
	}
}
