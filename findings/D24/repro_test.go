package varmq

// D24 — binding a queue that already holds items to a worker that is already running does not wake the dispatcher:
// start() returns ErrRunningWorker before its deferred notify is registered, and Register does not signal. The items
// stay pending on an idle running worker until some unrelated Add or completion (C13: "including items already there
// when it was bound"; C11 recovery; C03 progress). Confirmed independently by four seeding sub-agents.
//
//	go test -vet=off -run TestD24 -count=1 .

import (
	"sync/atomic"
	"testing"
	"time"

	"github.com/goptics/varmq/mocks"
)

func TestD24PreloadedQueueBoundToRunningWorker(t *testing.T) {
	var ran atomic.Int32
	w := NewWorker(func(j Job[string]) { ran.Add(1) }, 2)
	w.BindQueue() // the worker is running now
	time.Sleep(20 * time.Millisecond)

	// a persistent store that survived a restart: two encoded jobs are waiting in it
	store := mocks.NewMockPersistentQueue()
	for _, id := range []string{"a", "b"} {
		b, err := newJob("payload", jobConfigs{Id: id}).Json()
		if err != nil {
			t.Fatal(err)
		}
		store.Enqueue(b)
	}
	w.WithPersistentQueue(store)

	deadline := time.Now().Add(time.Second)
	for time.Now().Before(deadline) && ran.Load() < 2 {
		time.Sleep(5 * time.Millisecond)
	}
	if ran.Load() != 2 {
		t.Fatalf("%d of 2 stored jobs were processed within 1s (worker %s, pending %d)", ran.Load(), w.Status(), w.NumPending())
	}
	w.Stop()
}
