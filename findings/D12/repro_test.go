package varmq

// D12 — the idle reaper goroutine is `for range ticker.C`. Stop() calls
// ticker.Stop(), which does not close C, so the goroutine parks for ever;
// every Restart starts another one. Goroutines accumulate over Stop/Restart
// cycles (C18: "After Stop returns every goroutine the worker started has
// exited").
//
// go test -run TestD12 -count=1 .

import (
	"runtime"
	"testing"
	"time"
)

func TestD12ReaperGoroutineLeak(t *testing.T) {
	w := NewWorker(func(j Job[int]) {}, 2, WithIdleWorkerExpiryDuration(time.Millisecond))
	w.BindQueue()
	w.Stop()
	time.Sleep(20 * time.Millisecond)
	before := runtime.NumGoroutine()
	for i := 0; i < 50; i++ {
		if err := w.Restart(); err != nil {
			t.Fatal(err)
		}
		if err := w.Stop(); err != nil {
			t.Fatal(err)
		}
	}
	time.Sleep(50 * time.Millisecond)
	after := runtime.NumGoroutine()
	if after > before+2 {
		t.Fatalf("goroutines grew from %d to %d over 50 Restart/Stop cycles", before, after)
	}
}
