package varmq

// D02 — the idle reaper tests pool.Len() > target and then slices a *separate*
// snapshot: nodes := pool.NodeSlice(); nodes[target:]. If the dispatcher pops
// idle nodes between the two reads the snapshot is shorter than target and the
// slice expression panics ("slice bounds out of range [1:0]"), killing the
// process from a library goroutine (C18, C03).
//
// go test -run TestD02 -count=1 .   (stress; up to 90 s)

import (
	"sync"
	"testing"
	"time"
)

func TestD02ReaperSliceBounds(t *testing.T) {
	deadline := time.Now().Add(90 * time.Second)
	for time.Now().Before(deadline) {
		w := NewWorker(func(j Job[int]) {}, 8,
			WithIdleWorkerExpiryDuration(20*time.Microsecond), WithMinIdleWorkerRatio(1))
		q := w.BindQueue()
		var wg sync.WaitGroup
		for p := 0; p < 4; p++ {
			wg.Add(1)
			go func() {
				defer wg.Done()
				for i := 0; i < 3000; i++ {
					for k := 0; k < 4; k++ {
						q.Add(k)
					}
					time.Sleep(30 * time.Microsecond)
				}
			}()
		}
		wg.Wait()
		w.WaitUntilFinished()
		w.Stop()
	}
}
