package varmq

// D16 — newPersistentPriorityQueue registers the adapter with the worker's
// queue manager and then calls newPriorityQueue, which registers it again.
// The worker's pending count is twice the queue's, and round-robin visits the
// queue twice per cycle (C15, C17).
//
// go test -run TestD16 -count=1 .

import (
	"testing"

	"github.com/goptics/varmq/mocks"
)

func TestD16PersistentPriorityRegisteredTwice(t *testing.T) {
	w := NewWorker(func(j Job[string]) {})
	q := w.WithPersistentPriorityQueue(mocks.NewMockPersistentPriorityQueue())
	w.PauseAndWait()
	q.Add("a", 1)
	q.Add("b", 2)
	if qp, wp := q.NumPending(), w.NumPending(); qp != wp {
		t.Fatalf("queue pending = %d but worker pending = %d (the queue is registered twice)", qp, wp)
	}
}
