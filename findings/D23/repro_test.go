package varmq

// D23 — start() spawns the context listener before the status becomes Running. With a context that is already
// cancelled (or is cancelled at that moment) the listener calls Stop() while the status is still Initiated; Stop
// returns ErrNotRunningWorker, the listener ignores it and exits, and the worker then becomes Running with a cancelled
// context and nobody left to stop it (C14: "cancelling a configured context stops the worker ... with the
// asynchronous context listener interleaved arbitrarily"). A seeding sub-agent hit it 38 times in 20000 plain trials;
// delay.patch (a sleep in start() after the listener is spawned) makes it deterministic.
//
//	git apply /verif/findings/D23/delay.patch && go test -vet=off -run TestD23 -count=1 .

import (
	"context"
	"testing"
	"time"
)

func TestD23CancelledContextAtStart(t *testing.T) {
	ctx, cancel := context.WithCancel(context.Background())
	cancel()
	w := NewWorker(func(j Job[int]) {}, 2, WithContext(ctx))
	w.BindQueue()
	deadline := time.Now().Add(2 * time.Second)
	for time.Now().Before(deadline) && !w.IsStopped() {
		time.Sleep(5 * time.Millisecond)
	}
	if !w.IsStopped() {
		t.Fatalf("the configured context is cancelled but the worker reports %s", w.Status())
	}
}
