// Unchanged library + genuine_A_delay.diff (a sleep in Resume() between its state
// checks and status.Store(running)): Resume of a PAUSED worker races with the
// context listener's Stop(); Stop tears the run down and stores Stopped, then
// Resume overwrites it with Running: the worker reports Running with a cancelled
// context and nil channels and never processes a job.
package varmq

import (
	"context"
	"sync/atomic"
	"testing"
	"time"
)

func TestProbeResumeVsContextStop(t *testing.T) {
	ctx, cancel := context.WithCancel(context.Background())
	defer cancel()
	var ran atomic.Int32
	w := NewWorker(func(j Job[int]) { ran.Add(1) }, WithContext(ctx))
	q := w.BindQueue()
	w.Pause()
	done := make(chan error, 1)
	go func() { done <- w.Resume() }()
	time.Sleep(10 * time.Millisecond)
	cancel() // listener: Stop() on the paused worker
	err := <-done
	time.Sleep(50 * time.Millisecond)
	q.Add(1)
	time.Sleep(50 * time.Millisecond)
	t.Logf("Resume=%v status=%s ran=%d ctxErr=%v", err, w.Status(), ran.Load(), w.Context().Err())
	if w.IsRunning() && ran.Load() == 0 {
		t.Errorf("worker reports Running but does not process jobs (context cancelled, channels torn down)")
	}
}
