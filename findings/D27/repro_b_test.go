// Unchanged library + genuine_B_delay.diff (a sleep between the listener's
// "is c still the run context" test and its w.Stop() call): Stop() cancels the
// run context, the listener wakes and finds its context still current; Restart
// then installs a new run; the listener's Stop() hits the restarted worker.
package varmq

import (
	"context"
	"testing"
	"time"
)

func TestGenuineB_StopRestartListener(t *testing.T) {
	ctx, cancel := context.WithCancel(context.Background())
	defer cancel()
	w := NewWorker(func(j Job[int]) {}, WithContext(ctx))
	w.BindQueue()
	if err := w.Stop(); err != nil {
		t.Fatal(err)
	}
	time.Sleep(5 * time.Millisecond)
	if err := w.Restart(); err != nil {
		t.Fatal(err)
	}
	time.Sleep(100 * time.Millisecond)
	if !w.IsRunning() {
		t.Errorf("after Stop, Restart (context never cancelled by the user): status = %s, want Running", w.Status())
	}
}
