package varmq

// D14 — Add/AddAll enqueue the job first and store "queued" afterwards. The
// dispatcher and the pool goroutine can take the job through processing,
// finished and closed in between; the late store then moves the status
// backwards, so a handle whose Wait() has returned reads "Queued" (C16).
//
// go test -run TestD14 -count=1 .

import (
	"sync"
	"sync/atomic"
	"testing"
	"time"
)

func TestD14StatusGoesBackwards(t *testing.T) {
	w := NewWorker(func(j Job[int]) {}, 4)
	q := w.BindQueue()
	var bad, total atomic.Int64
	var first atomic.Value
	deadline := time.Now().Add(5 * time.Second)
	var wg sync.WaitGroup
	for p := 0; p < 8; p++ {
		wg.Add(1)
		go func() {
			defer wg.Done()
			for time.Now().Before(deadline) && bad.Load() == 0 {
				j, ok := q.Add(1)
				if !ok {
					continue
				}
				j.Wait()
				total.Add(1)
				if s := j.Status(); s != "Closed" {
					bad.Add(1)
					first.Store(s)
				}
			}
		}()
	}
	wg.Wait()
	w.Stop()
	if bad.Load() > 0 {
		t.Fatalf("%d of %d finished jobs report status %q after Wait() returned", bad.Load(), total.Load(), first.Load())
	}
}
