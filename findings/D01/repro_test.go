package varmq

// D01 — pool node stopped by a party that does not own it.
// The idle reaper (goRemoveIdleWorkers) and stopAndRemoveAllWorkers walk a
// NodeSlice() snapshot, call pool.Remove(node), ignore its result and then
// Stop()+Cache.Put() the node anyway. If the dispatcher popped that node in
// the meantime (Remove returned false), the stop payload and the job race on
// the node's 1-slot channel: the pool goroutine can read the stop payload
// first and exit, leaving the job it was handed stuck in "Processing" for ever
// (C01, C03, C18).
//
// Run from a copy of the repository:  go test -run TestD01 -count=1 .

import (
	"sync/atomic"
	"testing"
	"time"
)

func TestD01ReaperStopsOwnedNode(t *testing.T) {
	deadline := time.Now().Add(20 * time.Second)
	var done atomic.Int64
	for round := 0; time.Now().Before(deadline); round++ {
		w := NewWorker(func(j Job[int]) { done.Add(1) }, 8,
			WithIdleWorkerExpiryDuration(50*time.Microsecond), WithMinIdleWorkerRatio(1))
		q := w.BindQueue()
		for burst := 0; burst < 200; burst++ {
			jobs := make([]EnqueuedJob, 0, 8)
			for i := 0; i < 8; i++ {
				if j, ok := q.Add(i); ok {
					jobs = append(jobs, j)
				}
			}
			finished := make(chan struct{})
			go func() {
				for _, j := range jobs {
					j.Wait()
				}
				close(finished)
			}()
			select {
			case <-finished:
			case <-time.After(3 * time.Second):
				for _, j := range jobs {
					if s := j.Status(); s != "Closed" {
						t.Fatalf("round %d burst %d: job stuck in %q after 3s (executed so far: %d); pending=%d processing=%d",
							round, burst, s, done.Load(), w.NumPending(), w.NumProcessing())
					}
				}
				t.Fatalf("waiters stuck although all jobs closed")
			}
			time.Sleep(100 * time.Microsecond)
		}
		w.Stop()
	}
}
