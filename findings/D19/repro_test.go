package varmq

// D19 — Stop/Restart close the dispatcher's signal channel but do not wait for
// the dispatcher goroutine to end. A signal that is still buffered when the
// channel is closed is delivered by `for range` after the close, so the
// previous run's dispatcher makes one more pass while the next run's
// dispatcher is already live: two goroutines evaluate
// "in-flight < limit" and dispatch at the same time. With concurrency 1 two
// invocations overlap (C02) and jobs start out of queue order (C09).
//
// The window is a few instructions wide; delay.patch (a sleep at the start of
// the dispatcher goroutine and one at the start of processNextJob = a legal
// schedule) makes it deterministic:
//
//	git apply /verif/findings/D19/delay.patch && go test -run TestD19 -count=1 .

import (
	"sync/atomic"
	"testing"
	"time"
)

func TestD19StaleDispatcherAfterRestart(t *testing.T) {
	var inflight, peak atomic.Int32
	w := NewWorker(func(j Job[int]) {
		n := inflight.Add(1)
		for {
			p := peak.Load()
			if n <= p || peak.CompareAndSwap(p, n) {
				break
			}
		}
		time.Sleep(30 * time.Millisecond)
		inflight.Add(-1)
	}, 1)
	q := w.BindQueue() // start(): the first run's dispatcher is spawned, its start-up signal is buffered
	for i := 0; i < 4; i++ {
		q.Add(i)
	}
	if err := w.Restart(); err != nil { // closes the channel with the signal still in it
		t.Fatal(err)
	}
	w.WaitUntilFinished()
	if p := peak.Load(); p > 1 {
		t.Fatalf("%d invocations in flight at once with concurrency 1: the previous run's dispatcher stepped during the new run", p)
	}
	w.Stop()
}
