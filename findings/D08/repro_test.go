package varmq

// D08 — AddAll with no items on a result/error worker returns a batch whose
// stream is never closed: ranging over Results()/Errs() blocks for ever (C08:
// "closed exactly once - also when the batch is empty").
//
// go test -run TestD08 -count=1 .

import (
	"testing"
	"time"
)

func TestD08EmptyBatchStreamNeverCloses(t *testing.T) {
	rw := NewResultWorker(func(j Job[int]) (int, error) { return 0, nil })
	g := rw.BindQueue().AddAll(nil)
	done := make(chan struct{})
	go func() {
		for range g.Results() {
		}
		close(done)
	}()
	select {
	case <-done:
	case <-time.After(300 * time.Millisecond):
		t.Errorf("Results() of an empty batch is still open after 300ms (NumPending=%d)", g.NumPending())
	}
	ew := NewErrWorker(func(j Job[int]) error { return nil })
	eg := ew.BindPriorityQueue().AddAll([]Item[int]{})
	done2 := make(chan struct{})
	go func() {
		for range eg.Errs() {
		}
		close(done2)
	}()
	select {
	case <-done2:
	case <-time.After(300 * time.Millisecond):
		t.Errorf("Errs() of an empty batch is still open after 300ms")
	}
}
