package varmq

// D22 — the completion callback releases the barrier (in-flight decrement + releaseWaiters) before it counts the job
// as Completed: a caller returning from WaitUntilFinished (the library's own notion of "at rest") can read
// Completed one short of Successful+Failed and of Submitted (C17: exact at rest; Completed = Successful + Failed =
// finished invocations). Observed by a seeding sub-agent 25 times in 2.4 million plain rounds; delay.patch (a sleep
// between the release and the count = a legal schedule) makes it deterministic.
//
//	git apply /verif/findings/D22/delay.patch && go test -vet=off -run TestD22 -count=1 .

import "testing"

func TestD22CompletedLagsBehindTheBarrier(t *testing.T) {
	w := NewWorker(func(j Job[int]) {}, 1)
	q := w.BindQueue()
	defer w.Stop()
	for i := 1; i <= 20; i++ {
		q.Add(i)
		w.WaitUntilFinished()
		m := w.Metrics()
		if c, s, f := m.Completed(), m.Successful(), m.Failed(); c != s+f || c != uint64(i) {
			t.Fatalf("after WaitUntilFinished (round %d): Completed=%d Successful=%d Failed=%d Submitted=%d", i, c, s, f, m.Submitted())
		}
	}
}
