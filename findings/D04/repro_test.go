package varmq

// D04 — releaseWaiters calls waiters.Broadcast() without holding the Cond's
// mutex. WaitUntilFinished evaluates its predicate under the mutex and then
// parks in Wait(); a Broadcast that lands between the evaluation and the park
// wakes nobody, and since it was the last completion nothing ever broadcasts
// again: WaitUntilFinished sleeps for ever with pending=0, processing=0 (C06).
//
// The window is a few instructions wide. The stress test below hits it only
// occasionally; it is deterministic with a 1 ms delay inserted in
// WaitUntilFinished between `condition()` and `w.waiters.Wait()` (a pure
// delay, i.e. a legal schedule) - see delay.patch.
//
// go test -run TestD04 -count=1 .

import (
	"testing"
	"time"
)

func TestD04LostBroadcast(t *testing.T) {
	w := NewWorker(func(j Job[int]) {}, 1)
	q := w.BindQueue()
	deadline := time.Now().Add(30 * time.Second)
	for i := 0; time.Now().Before(deadline); i++ {
		q.Add(i)
		done := make(chan struct{})
		go func() { w.WaitUntilFinished(); close(done) }()
		select {
		case <-done:
		case <-time.After(2 * time.Second):
			t.Fatalf("iteration %d: WaitUntilFinished still blocked after 2s with pending=%d processing=%d", i, w.NumPending(), w.NumProcessing())
		}
	}
}
