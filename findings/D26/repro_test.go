package varmq

// D26 — withSafeConcurrency guards n < 1 and then converts with uint32(n): on 64-bit platforms any n that is a
// multiple of 2^32 becomes a limit of 0 (and other large values wrap to arbitrary ones). TunePool(1<<32) returns nil,
// NumConcurrency() is 0 and nothing is ever dispatched again (C02/C03: "for all concurrency values"; the limit is
// always >= 1). Reported by a seeding sub-agent.
//
//	go test -vet=off -run TestD26 -count=1 .

import (
	"testing"
	"time"
)

func TestD26HugeConcurrencyWrapsToZero(t *testing.T) {
	done := make(chan struct{}, 1)
	w := NewWorker(func(j Job[int]) { done <- struct{}{} }, 2)
	q := w.BindQueue()
	defer w.Stop()
	if err := w.TunePool(1 << 32); err != nil {
		t.Fatal(err)
	}
	if n := w.NumConcurrency(); n < 1 {
		t.Fatalf("NumConcurrency() = %d after TunePool(1<<32)", n)
	}
	q.Add(1)
	select {
	case <-done:
	case <-time.After(time.Second):
		t.Fatalf("job not started within 1s; NumConcurrency() = %d", w.NumConcurrency())
	}
}
